#!/usr/bin/env python3
# gen_seed_prompts.py <prev-round-dir> <prev-n> <new-n>: derive the prompts of seeding round <new-n> from those of
# round <prev-n>, adding the seeds kept from that round (their authors' notes) to the "already known" list.
# The prompts contain the property text and descriptions of earlier seeds only - nothing about the checks.
import sys, re, os, glob, json
prev_dir, pn, nn = sys.argv[1], sys.argv[2], sys.argv[3]
out = f"/tmp/seedprompts{nn}"
os.makedirs(out, exist_ok=True)
for f in sorted(glob.glob(prev_dir + "/C*.txt")):
    pid = os.path.basename(f)[:-4]
    s = open(f).read()
    s = s.replace(f"/tmp/seed{pn}/", f"/tmp/seed{nn}/").replace(f"/tmp/seedout{pn}/", f"/tmp/seedout{nn}/")
    extra = ""
    for d in sorted(glob.glob(f"/verif/seeded/{pid}-*")):
        meta = json.load(open(d + "/meta.json"))
        if str(meta.get("round")) != str(pn):
            continue
        note = " ".join(open(d + "/note.md").read().split())[:420]
        files = ", ".join(meta.get("files_changed", []))
        extra += f"  - (in {files}) {note}\n"
    if "git stash" not in s:
        s = s.replace("Do not read or touch /verif or /repo.", "Do not read or touch /verif or /repo. Never use `git stash` (the stash is shared by all worktrees of the repository and other people work in sibling worktrees): keep your changes as patch files and use `git apply` / `git apply -R` / `git checkout -- .` instead.")
    marker = "\nTASK. Produce TWO"
    i = s.index(marker)
    s = s[:i].rstrip("\n") + "\n" + extra + s[i:]
    open(f"{out}/{pid}.txt", "w").write(s)
    os.makedirs(f"/tmp/seedout{nn}/{pid}", exist_ok=True)
print("written", out)
