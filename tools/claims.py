# claims table (executed by gen_manifest.py)

claim("C04", "may-panic audit over go/ssa: recover-barrier closure + dominance-based guard facts",
      "Custom static analysis. Every instruction that can raise a run-time panic (unchecked type assertion, index, slice, nil dereference, nil-map write, division, explicit panic, nil function call) in the call closure of EVAL/Apply/REPL/PRINT and of every library goroutine body, not descending through functions that start with a deferred total recover handler, must be dominated by a guard that excludes the panic (type facts, difference constraints over len/indices with loop-counter lemmas, predicate and accessor summaries, possible-dynamic-type sets) or be one of 11 named exemptions with reasons. Also: every function usable as Func.Fn is a barrier or audited; recover handlers are total; MalFunc/Func/Env literals set their function/map fields. Under the listed assumptions this is sufficient for 'no Go panic escapes EVAL'; I register it as 'other' because the analyser itself is unverified.",
      "Assumes non-nil context/environment arguments, the module's own *env.Env as the only EnvType, no panics inside standard-library callees for the argument shapes used, hand-built MalFunc/Func values with nil function fields excluded (as the property's quantifier does). Does not decide that every such error is catchable by try/catch beyond: the try body runs under a total recover handler.",
      "DESIGN.md §3 C04, §2 A/B")

claim("C05", "may-panic audit over go/ssa with host-nil taint + token-consumption progress rule",
      "Custom static analysis. Same audit as C04 over the closure of READ, READWithPreamble, reader.Read_str, AddPreamble and PRINT/Pr_str, with the parameters the documentation allows to be nil (cursor, placeholder table, environment) tracked as may-nil through every call; plus the loop/recursion inventory of the reader: every loop is a counted/range loop or consumes a token (or cuts the input) on every path to its back-edge, and every recursive call is preceded by a consume.",
      "Trusts the tokenizer github.com/jig/scanner v1.2.0 (terminates, well-formed tokens), regexp/strconv/strings; stack exhaustion on deep nesting outside the claim; 'terminates' is claimed only through the progress rule, no time bound.",
      "DESIGN.md §3 C05")

claim("C02", "ownership/freshness analysis of container storage over go/ssa",
      "Custom static analysis. Immutability of all values under all operation sequences follows from one invariant - published container storage is never written - and that invariant is a per-instruction ownership fact: every map update, delete, element store, copy destination and append base of lisp container type in the library must be storage allocated in the current activation (make, literal, append to fresh/nil, result of a function that returns fresh storage on every path, field of a local struct that only ever held fresh storage). Also: field stores on value structs go to local copies; the registration-time registry update is unreachable from evaluation; no reflection writes. Sufficient for the property under the stated assumptions; registered as 'other' because the analyser is unverified.",
      "Flow-insensitive inside one activation (a write after the same activation already published the storage is not detected); atoms, futures and Env.data are out of scope by type; host Go functions must obey the same rule.",
      "DESIGN.md §3 C02, §2 E")

claim("C09", "lockset (must-hold) analysis + compare-and-set idiom recognition over go/ssa",
      "Custom static analysis of the lock discipline every linearizable implementation of this design needs: Atom.Val/version accessed only under the atom's mutex (mode-correct; lock-required methods checked at their call sites); every acquire released on every return; no call that can reach the evaluator while an atom lock is held (non-reentrant RWMutex: self-deref or nested swaps would hang); swap! is a compare-and-set retry loop (value+version read in one section, update function applied outside any lock, install only under write lock when the version is unchanged, failure retries, loop polls the context, failing update function installs nothing); every store to Atom.Val increments the version.",
      "Linearizability, real-time order and fairness are not decided. gensym/memoize in the lisp headers are covered only by C13.vocab's free-symbol lint.",
      "DESIGN.md §3 C09, §2 F")

claim("C10", "lockset analysis + ordering (dominance) rules over go/ssa",
      "Custom static analysis: Future.Done/Cancelled accessed only under Future.mu in every function of the module; exactly one goroutine per future, outside loops, applying the function once; Done=true stored before every send of the outcome (deref returned implies done); every receive in Deref re-deposits the same value on the same channel and channels have capacity >= 1, no close(); Cancel is one write-locked critical section and calls the cancel function only on the not-done path; the body runs under a WithCancel child of the creator's context whose cancel function is CancelFunc; Deref waits on its caller's context.",
      "History-level statements (monotonicity as observed by callers) beyond these happens-before edges are not decided.",
      "DESIGN.md §3 C10")

claim("C11", "lockset analysis over go/ssa + control-dependence of global writes",
      "Custom static analysis: every access to Env.data holds that Env's mutex in the right mode or is on an Env allocated in the activation; the *NT methods are lock-required and every call site (static and through the EnvType interface) holds the lock of the same receiver, so the ascent to the outer scope must go through the locking entry points; acquire/release pairing; while a scope lock is held only the outer scope is locked (child-then-parent) and nothing that reaches the evaluator is called (the Update callback is resolved through its call sites); the only package-level variables written from the evaluator closure are the stepping flags, each write control-dependent on Stepper != nil. Fresh-scope discipline (C11.local) is decided by the scope rules of C01/C03.",
      "'Returns exactly what it returns when run alone' is behaviour and not decided; races inside host builtins and process state are outside.",
      "DESIGN.md §3 C11")

EVALSHAPE = "Form/Value typestate + scope-flow over go/ssa of the evaluator (regions found from the special-form dispatch)"

claim("C01", EVALSHAPE + "; per-sentence shape rules of the language definition",
      "Custom static analysis; each sentence of the definition is matched with a shape of EVAL/eval_ast/do/env: values never flow back into the evaluator (exactly-once); every evaluating call receives the scope the definition prescribes (current scope, one unconditional fresh child for let, child of the defining scope for closures - also in Apply, fresh child for catch) and bindings are written into non-fresh scopes only by def/defmacro; lookups ascend only on the not-found edge; sequences are evaluated by ascending loops with one evaluating call per element appended in order and the call form by a single left-to-right pass; the if region evaluates only the condition and compares it with exactly nil and false; def binds and returns the evaluated value; body-helper modes match each form's grammar and fn captures scope/params/(do ...body); the binder tests & first, binds rest from the same index and has both arity errors.",
      "Decides shapes, not behaviour: values computed by builtins, exact error messages/positions and any semantic change that keeps all shapes are invisible. Anchors (EVAL, eval_ast, do, macroexpand, the dispatch) are located structurally/by name; if they move the check reports UNDECIDED.",
      "DESIGN.md §3 C01, §2 C/D")

claim("C03", EVALSHAPE + "; defer/dominance rules for finally; error-object provenance",
      "Custom static analysis: handler/body values never re-enter the evaluator (once); the try body runs in a closure that first defers a total recover handler writing its own error result; the finally evaluation is registered by exactly one defer that dominates every exit of the try region after the body ran, is pure (no stores to EVAL's variables, results discarded) and does not read by reference any variable assigned after the defer (runs in the try form's scope); the handler runs in a fresh child binding exactly the catch symbol to ErrorValue()/message; ErrorValue/Unwrap/NewLispError/throw preserve the thrown object; fmt.Errorf uses %w for error operands; errors from nested evaluation are returned as the same value.",
      "Does not decide ordering of effects inside bodies (C01) nor 'exactly once' under host panics with non-error values beyond the total recover handler.",
      "DESIGN.md §3 C03")

claim("C07", "loop inventory with context-poll must-pass check, blocking-operation inventory, context-derivation dataflow",
      "Custom static analysis of what makes promptness possible: every loop reachable from the evaluator or a registered builtin is counted/range over data, polls a context derived from its own on every lap, or re-enters the evaluator on every lap; the evaluation loop itself polls at the top of every iteration; every blocking select reachable from evaluation also waits on the caller's context, no plain receives/sleeps/waits; every context handed to EVAL/eval_ast/do/macroexpand/Apply/Func.Fn/NewFuture is the function's own or a With* child of it (never Background), the binder injects the adapter's context; try body under at most one timeout child, handler and finally under the outer context; the timeout error is constructible for every form.",
      "No time bound, scheduler latency or duration of one builtin call is decided ('promptly' is claimed only structurally). Host contexts assumed non-nil.",
      "DESIGN.md §3 C07")

claim("C08", EVALSHAPE + "; no-evaluating-call-in-tail-position rule",
      "Custom static analysis: EVAL never returns the result of an evaluating call in a tail region (let, do, if, quasiquote, closure application, catch handler): each hands its tail form to the loop; allowed returns are eval_ast on a form known not to be a list, the try body's value, a builtin's result, unevaluated expansions and the stepping continuation under Stepper != nil; the body helper is used in return-last-as-form mode in tail regions; before the dispatch only macro expansion and non-list evaluation call the evaluator. Necessary and, for the evaluator's own frames, sufficient for constant stack depth of tail loops.",
      "Measured stack depth, Go's stack growth in builtins and recursion through builtins (apply, map) are not decided; header macros cond/and/or are covered through the tail regions they expand to.",
      "DESIGN.md §3 C08")

claim("C12", EVALSHAPE + "; macro-flag provenance; generated-symbol table agreement",
      "Custom static analysis: macro operands are the form's elements from index 1, classified unevaluated; expansion happens before the dispatch in the caller's scope (macro test and lookup use macroexpand's scope parameter, no scope change before dispatch); macroexpand loops on the updated form and returns it, macroexpand/quasiquoteexpand/quote return unevaluated; defmacro binds SetMacro() (value receiver) of the evaluated function, fn builds IsMacro:false, the macro test is true only via GetMacro, application ignores the flag; every symbol the quasiquote transform generates is a special form or registered builtin and its tags equal the reader's symbols for ~ and ~@; quasiquote dispatches on exactly List/Vector/HashMap/Symbol, vectors are rebuilt with vec, splice only for list elements, element order preserved.",
      "Call-equals-expansion as a relation between runs and the algebra of the transform beyond its dispatch shape are not decided; missing-operand checks are C04's.",
      "DESIGN.md §3 C12")

claim("C18", "effect analysis of stepping-only code (control dependence on Stepper != nil / stepping flags) over go/ssa",
      "Custom static analysis, a non-interference argument: code that exists only for stepping writes only the stepping flags, calls only the callback, printing and panic, and stores to no variable of the evaluation; no phi merges a value that differs depending on whether stepping code ran; stepping flags are read only as branch conditions; the stepping continuation sits at the loop bottom and passes exactly the loop-carried form, scope and context, returning results unchanged; the callback receives EVAL's incoming form and scope; the command switch covers every declared Command constant. Sufficient under the assumption that the callback itself does not touch interpreter state.",
      "Output of the stepper itself and the interactive debugger package are outside; termination within the host stack is assumed as in the property.",
      "DESIGN.md §3 C18")

for pid in ["C06","C13","C14","C15","C16","C17","C19","C20"]:
    NOT_APPLICABLE[pid] = "check under construction in this revision (static rules designed in DESIGN.md §3, not yet registered)"
