# claims table (executed by gen_manifest.py)

claim("C04", "may-panic audit over go/ssa: recover-barrier closure + dominance-based guard facts",
      "Custom static analysis. Every instruction that can raise a run-time panic (unchecked type assertion, index, slice, nil dereference, nil-map write, division, explicit panic, nil function call) in the call closure of EVAL/Apply/REPL/PRINT and of every library goroutine body, not descending through functions that start with a deferred total recover handler, must be dominated by a guard that excludes the panic (type facts, difference constraints over len/indices with loop-counter lemmas, predicate and accessor summaries, possible-dynamic-type sets) or be one of 11 named exemptions with reasons. Also: every function usable as Func.Fn is a barrier or audited; recover handlers are total; MalFunc/Func/Env literals set their function/map fields. Under the listed assumptions this is sufficient for 'no Go panic escapes EVAL'; I register it as 'other' because the analyser itself is unverified.",
      "Assumes non-nil context/environment arguments, the module's own *env.Env as the only EnvType, no panics inside standard-library callees for the argument shapes used, hand-built MalFunc/Func values with nil function fields excluded (as the property's quantifier does). Does not decide that every such error is catchable by try/catch beyond: the try body runs under a total recover handler.",
      "DESIGN.md §3 C04, §2 A/B")

claim("C05", "may-panic audit over go/ssa with host-nil taint + token-consumption progress rule",
      "Custom static analysis. Same audit as C04 over the closure of READ, READWithPreamble, reader.Read_str, AddPreamble and PRINT/Pr_str, with the parameters the documentation allows to be nil (cursor, placeholder table, environment) tracked as may-nil through every call; plus the loop/recursion inventory of the reader: every loop is a counted/range loop or consumes a token (or cuts the input) on every path to its back-edge, and every recursive call is preceded by a consume.",
      "Trusts the tokenizer github.com/jig/scanner v1.2.0 (terminates, well-formed tokens), regexp/strconv/strings; stack exhaustion on deep nesting outside the claim; 'terminates' is claimed only through the progress rule, no time bound.",
      "DESIGN.md §3 C05")

claim("C02", "ownership/freshness analysis of container storage over go/ssa",
      "Custom static analysis. Immutability of all values under all operation sequences follows from one invariant - published container storage is never written - and that invariant is a per-instruction ownership fact: every map update, delete, element store, copy destination and append base of lisp container type in the library must be storage allocated in the current activation (make, literal, append to fresh/nil, result of a function that returns fresh storage on every path, field of a local struct that only ever held fresh storage). Also: field stores on value structs go to local copies; the registration-time registry update is unreachable from evaluation; no reflection writes. Sufficient for the property under the stated assumptions; registered as 'other' because the analyser is unverified.",
      "Flow-insensitive inside one activation (a write after the same activation already published the storage is not detected); atoms, futures and Env.data are out of scope by type; host Go functions must obey the same rule.",
      "DESIGN.md §3 C02, §2 E")

claim("C09", "lockset (must-hold) analysis + compare-and-set idiom recognition over go/ssa",
      "Custom static analysis of the lock discipline every linearizable implementation of this design needs: Atom.Val/version accessed only under the atom's mutex (mode-correct; lock-required methods checked at their call sites); every acquire released on every return; no call that can reach the evaluator while an atom lock is held (non-reentrant RWMutex: self-deref or nested swaps would hang); swap! is a compare-and-set retry loop (value+version read in one section, update function applied outside any lock, install only under write lock when the version is unchanged, failure retries, loop polls the context, failing update function installs nothing); every store to Atom.Val increments the version.",
      "Linearizability, real-time order and fairness are not decided. gensym/memoize in the lisp headers are covered only by C13.vocab's free-symbol lint.",
      "DESIGN.md §3 C09, §2 F")

claim("C10", "lockset analysis + ordering (dominance) rules over go/ssa",
      "Custom static analysis: Future.Done/Cancelled accessed only under Future.mu in every function of the module; exactly one goroutine per future, outside loops, applying the function once; Done=true stored before every send of the outcome (deref returned implies done); every receive in Deref re-deposits the same value on the same channel and channels have capacity >= 1, no close(); Cancel is one write-locked critical section and calls the cancel function only on the not-done path; the body runs under a WithCancel child of the creator's context whose cancel function is CancelFunc; Deref waits on its caller's context.",
      "History-level statements (monotonicity as observed by callers) beyond these happens-before edges are not decided.",
      "DESIGN.md §3 C10")

claim("C11", "lockset analysis over go/ssa + control-dependence of global writes",
      "Custom static analysis: every access to Env.data holds that Env's mutex in the right mode or is on an Env allocated in the activation; the *NT methods are lock-required and every call site (static and through the EnvType interface) holds the lock of the same receiver, so the ascent to the outer scope must go through the locking entry points; acquire/release pairing; while a scope lock is held only the outer scope is locked (child-then-parent) and nothing that reaches the evaluator is called (the Update callback is resolved through its call sites); the only package-level variables written from the evaluator closure are the stepping flags, each write control-dependent on Stepper != nil. Fresh-scope discipline (C11.local) is decided by the scope rules of C01/C03.",
      "'Returns exactly what it returns when run alone' is behaviour and not decided; races inside host builtins and process state are outside.",
      "DESIGN.md §3 C11")

EVALSHAPE = "Form/Value typestate + scope-flow over go/ssa of the evaluator (regions found from the special-form dispatch)"

claim("C01", EVALSHAPE + "; per-sentence shape rules of the language definition",
      "Custom static analysis; each sentence of the definition is matched with a shape of EVAL/eval_ast/do/env: values never flow back into the evaluator (exactly-once); every evaluating call receives the scope the definition prescribes (current scope, one unconditional fresh child for let, child of the defining scope for closures - also in Apply, fresh child for catch) and bindings are written into non-fresh scopes only by def/defmacro; lookups ascend only on the not-found edge; sequences are evaluated by ascending loops with one evaluating call per element appended in order and the call form by a single left-to-right pass; the if region evaluates only the condition and compares it with exactly nil and false; def binds and returns the evaluated value; body-helper modes match each form's grammar and fn captures scope/params/(do ...body); the binder tests & first, binds rest from the same index and has both arity errors.",
      "Decides shapes, not behaviour: values computed by builtins, exact error messages/positions and any semantic change that keeps all shapes are invisible. Anchors (EVAL, eval_ast, do, macroexpand, the dispatch) are located structurally/by name; if they move the check reports UNDECIDED.",
      "DESIGN.md §3 C01, §2 C/D")

claim("C03", EVALSHAPE + "; defer/dominance rules for finally; error-object provenance",
      "Custom static analysis: handler/body values never re-enter the evaluator (once); the try body runs in a closure that first defers a total recover handler writing its own error result; the finally evaluation is registered by exactly one defer that dominates every exit of the try region after the body ran, is pure (no stores to EVAL's variables, results discarded) and does not read by reference any variable assigned after the defer (runs in the try form's scope); the handler runs in a fresh child binding exactly the catch symbol to ErrorValue()/message; ErrorValue/Unwrap/NewLispError/throw preserve the thrown object; fmt.Errorf uses %w for error operands; errors from nested evaluation are returned as the same value.",
      "Does not decide ordering of effects inside bodies (C01) nor 'exactly once' under host panics with non-error values beyond the total recover handler.",
      "DESIGN.md §3 C03")

claim("C07", "loop inventory with context-poll must-pass check, blocking-operation inventory, context-derivation dataflow",
      "Custom static analysis of what makes promptness possible: every loop reachable from the evaluator or a registered builtin is counted/range over data, polls a context derived from its own on every lap, or re-enters the evaluator on every lap; the evaluation loop itself polls at the top of every iteration; every blocking select reachable from evaluation also waits on the caller's context, no plain receives/sleeps/waits; every context handed to EVAL/eval_ast/do/macroexpand/Apply/Func.Fn/NewFuture is the function's own or a With* child of it (never Background), the binder injects the adapter's context; try body under at most one timeout child, handler and finally under the outer context; the timeout error is constructible for every form.",
      "No time bound, scheduler latency or duration of one builtin call is decided ('promptly' is claimed only structurally). Host contexts assumed non-nil.",
      "DESIGN.md §3 C07")

claim("C08", EVALSHAPE + "; no-evaluating-call-in-tail-position rule",
      "Custom static analysis: EVAL never returns the result of an evaluating call in a tail region (let, do, if, quasiquote, closure application, catch handler): each hands its tail form to the loop; allowed returns are eval_ast on a form known not to be a list, the try body's value, a builtin's result, unevaluated expansions and the stepping continuation under Stepper != nil; the body helper is used in return-last-as-form mode in tail regions; before the dispatch only macro expansion and non-list evaluation call the evaluator. Necessary and, for the evaluator's own frames, sufficient for constant stack depth of tail loops.",
      "Measured stack depth, Go's stack growth in builtins and recursion through builtins (apply, map) are not decided; header macros cond/and/or are covered through the tail regions they expand to.",
      "DESIGN.md §3 C08")

claim("C12", EVALSHAPE + "; macro-flag provenance; generated-symbol table agreement",
      "Custom static analysis: macro operands are the form's elements from index 1, classified unevaluated; expansion happens before the dispatch in the caller's scope (macro test and lookup use macroexpand's scope parameter, no scope change before dispatch); macroexpand loops on the updated form and returns it, macroexpand/quasiquoteexpand/quote return unevaluated; defmacro binds SetMacro() (value receiver) of the evaluated function, fn builds IsMacro:false, the macro test is true only via GetMacro, application ignores the flag; every symbol the quasiquote transform generates is a special form or registered builtin and its tags equal the reader's symbols for ~ and ~@; quasiquote dispatches on exactly List/Vector/HashMap/Symbol, vectors are rebuilt with vec, splice only for list elements, element order preserved.",
      "Call-equals-expansion as a relation between runs and the algebra of the transform beyond its dispatch shape are not decided; missing-operand checks are C04's.",
      "DESIGN.md §3 C12")

claim("C18", "effect analysis of stepping-only code (control dependence on Stepper != nil / stepping flags) over go/ssa",
      "Custom static analysis, a non-interference argument: code that exists only for stepping writes only the stepping flags, calls only the callback, printing and panic, and stores to no variable of the evaluation; no phi merges a value that differs depending on whether stepping code ran; stepping flags are read only as branch conditions; the stepping continuation sits at the loop bottom and passes exactly the loop-carried form, scope and context, returning results unchanged; the callback receives EVAL's incoming form and scope; the command switch covers every declared Command constant. Sufficient under the assumption that the callback itself does not touch interpreter state.",
      "Output of the stepper itself and the interactive debugger package are outside; termination within the host stack is assumed as in the property.",
      "DESIGN.md §3 C18")

TABLES = "writer/reader table extraction over go/ssa constants and comparison of the two sides with each other"

claim("C06", TABLES,
      "Custom static analysis of the one clause of the round trip that is in the shape of the code: the printer's and the reader's tables are inverse to each other. Quoted strings: the printer's replacement chain inverted equals the reader's un-escape table, the escape character is escaped first, every pair replaces all occurrences, the delimiter is escaped, un-escaping is single-pass (or uses the protect-first/restore-last idiom). Raw strings: delimiter doubled/un-doubled everywhere and nothing else rewritten. Delimiter bytes stripped by the reader equal those the printer adds. Brackets per collection type agree between printer and the reader function constructing that type. The keyword marker is one constant in five places; the printer strips exactly its byte length and the reader strips the keyword character the printer emits.",
      "Decides table agreement only - a genuine necessary condition (any disagreement breaks the round trip for strings containing that character). The round trip itself, token alphabets of integers/identifiers (trusted scanner) and floats are not decided.",
      "DESIGN.md §3 C06, §2 H")

claim("C13", "vocabulary/table agreement, recover-barrier and reslice guards (fact engine), ownership analysis of lib/core, map-iteration-order lint, s-expression lint of the embedded headers",
      "Custom static analysis of the clauses that are in the shape of the code: every builtin named in the property is registered (names derived the way the binder derives them), no duplicate registration inside a loader, every free symbol of the embedded lisp headers resolves to a special form, local binding, header definition or registered name; every binder adapter starts with the recover barrier; every slice with an explicit upper bound on container storage in the builtins is guarded by upper <= len (Go checks only cap); presence tests use comma-ok; no loop over a randomly ordered map reads and writes the same other map; all container writes in lib/core go to storage allocated in the activation (pure functions).",
      "The input/output values of the builtins, result kinds (list vs vector, nil vs empty) and README conformance are not decided - no static argument in reach computes them.",
      "DESIGN.md §3 C13")

claim("C14", "shape rules over go/ssa of types.Equal_Q (presence, kinds, gate, size tests) + may-panic audit",
      "Custom static analysis: while ranging over one map every lookup in the other is comma-ok and branched on; the dispatch has a dedicated case for every value struct of package types with a Val field and none compares whole structs; a gate returns false unless dynamic types are identical or both operands are sequential (exactly List and Vector); every collection case compares sizes before elements and sequences recurse through the same function; = is registered as Equal_Q(a,b); no instruction of the function can panic.",
      "Reflexivity/symmetry/transitivity as relations follow from these shapes only by a prose argument about the recursion; not mechanised.",
      "DESIGN.md §3 C14")

claim("C15", TABLES + "; pattern evaluated on writer-shaped sample lines; call-graph rule for data insertion",
      "Custom static analysis: read_placeholder returns the table entry itself and calls no reader/printer function; it has one call site, guarded by the token's first byte; the preamble writer's line shape (prefix + name + separator + PRINT(value) + LF, always a blank line before the source) agrees with the reader's prefix constant, key offset and pattern (the pattern, taken from the source, is evaluated by the checker on lines of the writer's shape); every string branch of the printer keeps values on one line (LF escaped, or raw form only for strings without LF); raw delimiter doubling is total on both sides; the loop passes the remaining text on at a blank line and the line plus remaining text at a non-preamble line.",
      "Equality of the resulting AST with the substituted AST is not decided. A preamble value that fails to read is silently nil (an existing test relies on it for Go structs); for data values it cannot fail once C06/C15.line-safe hold.",
      "DESIGN.md §3 C15")

claim("C16", TABLES + "; error-propagation rule in the reader",
      "Custom static analysis: the set of 'expected <closer>, got EOF' messages the reader can build (its template instantiated with the closer constant of every read_list call site, plus the raw-string message) equals the set of messages the REPL classifier recognises, each recognised message continues the line; the classifier tests for lisperror.LispError and the reader builds exactly that; every reader function returns the error of a nested read unchanged (innermost bracket's message surfaces); each data-bracket closer has a rejecting case in read_form; Read_str returns a value only when the cursor reached the token count; the EOF error is raised at the nil-peek branch of the element loop; the REPL joins accumulated lines with a line break.",
      "Brackets inside strings/comments are the trusted scanner's business.",
      "DESIGN.md §3 C16")

claim("C17", "field-provenance rules over go/ssa for Position constructors and the tokenizer; pattern evaluated on the header line load-file writes; no-re-positioning rule",
      "Custom static analysis of the structural clauses: every Position built from other positions copies each field from the like-named field (Close: begin fields and module from the opener, end fields from the closer); tokenizer rows come from the scanner's Line with no arithmetic, columns from Column, module from the caller's cursor; the $MODULE header is consulted only without a caller module and its pattern recovers the whole name load-file writes (spaces included); collections carry first-token-cursor.Close(closer-token cursor) and reader-macro forms carry a cursor; errors from nested evaluation are never re-positioned on the way up and a failed lookup is positioned at the symbol.",
      "The relation 'lies within the lines of the smallest enclosing top-level form' concerns run-time values produced by a third-party scanner; not decided. Re-positioning of builtin errors at their call form (apply/map/eval) is by design.",
      "DESIGN.md §3 C17")

claim("C19", "taint rule for position values, position-freeness of formatted errors, type agreement of constructors, s-expression lint of load-file",
      "Custom static analysis: position values (Cursor fields, GetPosition results) in the evaluator closure flow only into Cursor fields, error construction and position printing (no branch other than nil guards), so evaluation cannot distinguish positioned from unpositioned ASTs; wherever an existing error is formatted into a new message it provably carries no position; L-notation constructors return the reader's types; both load-file definitions splice the file text followed by a literal that begins with a line break and agree with each other; REPL is READ, EVAL, PRINT on the same scope and context; nil guards of optional positions are audited by C04/C05.",
      "Equality of results across delivery routes and CRLF/comment handling inside the scanner are not decided.",
      "DESIGN.md §3 C19")

claim("C20", "sibling agreement of the adapter closures over go/ssa, guard/units rules in the binder, may-panic audit of the recover handler and the registration code",
      "Custom static analysis: the six adapters match the table (context <=> _args_ctx with the adapter's own context; NumOut 0/1/2 <=> result adapter; each starts with defer _recover on its own error result); explicit bounds of context-taking functions are both incremented because the context builder compares against bounds-1; the count check dominates building the argument vector in both builders; result adapters follow the convention; _recover is total, calls recover() directly and NewGoError wraps with %w; names are derived by lower-casing and _ -> -; slices on LastIndex results in registration are guarded; every registration with explicit bounds passes a variadic function with min <= max.",
      "Assignability of each argument is reflect.Call's own check under the barrier.",
      "DESIGN.md §3 C20")

# Rules added after the third round of seeded changes (appended to the level text of each property).
ADDED = {
 "C01": " Added: the three kinds of condition value (nil, false, other) are run through the if region's control flow symbolically and each exit must carry the prescribed operand; let binds symbol i to the value of form i+1; no function of the library writes into a form or value it was given, and storage handed to a call inside a loop is not written on the next iteration (C01.no-mutation, shared with C02.write). Helpers extracted from EVAL are analysed as part of the region that calls them.",
 "C02": " Added: a container handed to a function outside the module whose (instantiated) body writes through that parameter (slices.Insert/Reverse, sort, maps.Copy …) counts as a write.",
 "C03": " Added: the try form's operand split matches its grammar for each clause combination (C03.shape); NewLispError returns on every path the given object itself (asserted, never looked up in the Unwrap chain) re-positioned, or a new error storing it; under a failed error check the error returned derives from the error checked, or is newly constructed (C03.propagate, whole library).",
 "C06": " Added: the tokenizer stores the scanner's token text verbatim unless read_form consults token types (the reader classifies by text alone); an integer token is converted by strconv.ParseInt/Atoi on the token text and returned without arithmetic (inverse of the decimal printer over the whole range).",
 "C07": " Added: the only senders on a future's outcome channels are the body goroutine's single delivery and a reader's re-deposit of the value just received (justifies the unguarded re-deposit in Deref).",
 "C09": " Added: the retry loop carries no state from a failed attempt (no header phi, no write to storage allocated before the loop, argument list built per attempt); no library function writes into the storage of a value it was given (the optimistic swap! applies the function to a value other threads still see).",
 "C10": " Added: single outcome (senders inventory as in C07); IsDone returns the Done flag and nothing else and Done is only ever assigned true.",
 "C11": " Added: every Env gets a mutex allocated in the same activation (a shared mutex makes the lookup's ascent a recursive read lock); the atoms created while the embedded headers load (outside every fn) are exactly the reviewed inventory (gensym counter, load-file-once set).",
 "C12": " Added: a MalFunc rebuilt field by field from an existing one accounts for every field (macro flag, scope builder); every defmacro in the embedded headers binds a (fn …) literal.",
 "C13": " Added: the builtins that hand an argument back unchanged are exactly the reviewed ones (get on sets, seq of a non-empty list): a shortcut that returns the input skips remaining arguments or lets the caller decide the result kind; the possible dynamic types of each collection builtin's results stay within the kinds confirmed against the documentation (C13.kind, frozen table).",
 "C14": " Added: Go's ==/!= on two lisp values is used only where neither can be a comparable struct carrying a source-position pointer (Symbol).",
 "C15": " Added: the preamble line matched against the pattern is a verbatim piece of the source text (only Cut/Trim/slicing on the way); the slice of the key is proved in bounds from the pattern's mandatory group length.",
 "C16": " Added: token text verbatim (as C06); Read_str calls read_form exactly once, trailing tokens are rejected with their own error.",
 "C17": " Added: NewLispError sets the cursor to GetPosition(form) on every path; inside EVAL's loop the position carrier of every error is computed in the current iteration, never from the form EVAL was entered with.",
 "C18": " Added: the debugger engine holds no mutex across a call that reaches the evaluator (EVAL re-enters the stepper on the same goroutine).",
 "C19": " Added: no comparison in the evaluator, builtins, environment or value types takes a value's Cursor as operand; slurp returns the file's bytes verbatim; REPL's READ/EVAL/PRINT sequence is followed through unexported helpers.",
 "C20": " Added: every exported entry point forwards its bounds/namespace/function parameters to the registration routine; the guard in front of the context test demands NumIn() >= 1 and nothing more; the %w wrapping of the panic value is decided by data flow from the recovered value.",
}
for _pid, _extra in ADDED.items():
    t, text, note, ref = CLAIMED[_pid]
    CLAIMED[_pid] = (t, text + _extra, note, ref)

ADDED4 = {
 "C01": " Round 4: a child scope is linked to exactly the scope it was created from; every body Apply evaluates runs in the scope GenEnv built for that call.",
 "C03": " Round 4: the error of a nested evaluation reaches the caller unaltered (not wrapped with Errorf, not re-positioned), and once such an evaluation failed every path returns that error (no retry, no other return) - checked in the whole library.",
 "C04": " Round 4: the runner of the try body starts with a deferred function that calls recover() itself (one frame deeper recover returns nil).",
 "C05": " Round 4: every access to Env.data holds that environment's lock (the reader looks constructors up in a shared environment; shared with C11.data).",
 "C06": " Round 4: the source text reaches the scanner unchanged (Read_str -> tokenizer -> strings.NewReader); NewKeyword prepends the marker on every path (injective).",
 "C07": " Round 4: a loop is accepted for re-entering the evaluator only when the call is EVAL itself or Apply of a value that can only be a lisp function (builtin calls such as append no longer count as calls of unknown functions).",
 "C08": " Round 4: the threading macros -> and ->> are expanded symbolically as well; the call of the last step sits in tail position.",
 "C09": " Round 4: the versioned install stores under no other condition than the version comparison, reports true only after storing, and its result is examined at every call site.",
 "C10": " Round 4: reading methods of Future neither cancel nor write Done/Cancelled, directly or through package functions.",
 "C11": " Round 4: closures registered as builtins write nothing they captured from the registration activation (shared unlocked state); Apply's scope rule as in C01.",
 "C13": " Round 4: no store into a map being built is conditional on the key's presence in that same map (last value wins).",
 "C14": " Round 4: the builtin registered as = returns Equal_Q of its two arguments on every path.",
 "C15": " Round 4: the source text reaches the scanner unchanged (as C06).",
 "C16": " Round 4: messages of the shape the REPL classifies as 'incomplete' are built only by read_list's template and read_atom's raw-string case.",
 "C17": " Round 4: nothing outside the reader and L-notation assigns the Cursor of an existing form; a Position is only written while private to the activation that allocated it.",
 "C18": " Round 4: the debugger engine writes into no form or value it is handed (ownership analysis of package debugger).",
 "C19": " Round 4: every context handed to an evaluating call derives from the caller's (eval/load-file routes honour deadlines like the others); no fmt verb other than %T is applied to a lisp value in the runtime packages; text intact as C06.",
 "C20": " Round 4: every return of an argument vector from the builders has passed both bound checks against the bound parameters; adapters are found by signature, result adapters may be selected through a captured variable.",
}
for _pid, _extra in ADDED4.items():
    t, text, note, ref = CLAIMED[_pid]
    CLAIMED[_pid] = (t, text + _extra, note, ref)

ADDED5 = {
 "C01": " Round 5: every adapter the binder registers starts with a deferred function that calls recover() itself (a builtin called outside its domain yields an error, not a host panic).",
 "C02": " Round 5: storage identity is followed through append and loop-carried variables (an argument slice built before a retry loop and rewritten inside it).",
 "C03": " Round 5: every return of LispError.Unwrap is the stored error or nil; the variable the try runner's recover handler fills in is the runner's own error result (every return, also the one after a recovered panic, reads it).",
 "C05": " Round 5: the tokenizer gives up on the scanner's first error (no assignment to the error count, no path from the error branch to a token).",
 "C06": " Round 5: map keys and set members are printed only through Pr_str, no other quoting routine in package printer, and the printer assigns no package-level variable.",
 "C07": " Round 5: no lock is held across a blocking select; a registered builtin or closure without a context parameter of its own may not hand a context to the evaluator.",
 "C08": " Round 5: methods generated by defprotocol for fixed arities are direct calls of the looked-up implementation (symbolic expansion).",
 "C09": " Round 5: the versioned install is the only write swap! makes to the atom (no reset of a snapshot on failure).",
 "C10": " Round 5: a cancelling builtin returns the result of Cancel on every path.",
 "C11": " Round 5: a write of guarded state through a loaded map (m[k]=v, delete) is a write for the lock rule; calling a writing method under a read lock is a violation.",
 "C12": " Round 5: Find/Get consult the receiver's own table unconditionally (shared with C01.lookup-order); the quasiquote element loop always returns the list it built.",
 "C13": " Round 5: neither the builtins nor package types assign package-level state; pair loops reject odd counts (parity test or i < len bound); no fixed-width byte slices of a string inside a range over it.",
 "C14": " Round 5: Equal_Q, Sequential_Q and GetSlice keep no package-level state.",
 "C15": " Round 5: one escaper (as C06).",
 "C17": " Round 5: every Symbol the reader returns is a literal carrying its own token's cursor; reading keeps no package-level state or cache; tokenizer provenance follows helpers by data flow instead of by parameter names.",
 "C19": " Round 5: comparisons of GetPosition results count as position-dependent behaviour.",
 "C20": " Round 5: what the recover handler hands to the error constructors is the recovered value itself, not something computed from it.",
}
for _pid, _extra in ADDED5.items():
    t, text, note, ref = CLAIMED[_pid]
    CLAIMED[_pid] = (t, text + _extra, note, ref)

ADDED6 = {
 "C01": " Round 6: looking a name up writes no scope (no store to a field or table of an Env reachable from Get/GetNT/Find/FindNT).",
 "C03": " General: recover handlers are only deferred directly; format strings handed to the error constructors are constants. Round 6: an error that travels through a future is re-deposited on the channel it came from (shared with C10.redeposit / C10.single-outcome).",
 "C04": " General: every deferred recover handler calls recover() in its own frame.",
 "C06": " Round 6: every string read_atom returns is the delimiter-stripped token passed through the un-escape table (no second decoder); the equality the round trip is judged by is structural (C14's size, presence, kind and gate rules adopted as C06.equal-*).",
 "C07": " General: no library mutex is held across a call that can reach the evaluator, a select, a channel operation or a sleep.",
 "C08": " Round 6: the evaluation loop carries only form and scope to the next iteration; the context stays the one EVAL was given (a context derived per iteration grows a chain that Done/Err/Value descend recursively).",
 "C09": " Round 6: no function of lib/concurrent acquires a mutex it already holds or calls, with the lock held, a function that locks the same object (RWMutex is not re-entrant for readers either).",
 "C10": " Round 6: the status flags Done and Cancelled of a shared future are only ever assigned true; Deref answers only after a select case fired (never from a non-blocking look); an evaluation started in lib/concurrent runs under the context its function was given, not one captured from an enclosing activation.",
 "C11": " General: inventory of package-level state written at run time. Round 6: the one-outcome rules of futures adopted for shared global futures (C11.future-*); no re-entrant acquisition of a scope lock.",
 "C12": " Round 6: before the dispatch a form is handed back unevaluated only when known to be a list (a macro expanding to a vector, map or set is evaluated); defmacro evaluates its function operand itself and binds the name exactly once.",
 "C13": " Round 6: the sequence accessor GetSlice succeeds for lists and vectors only, handing out their own element slice.",
 "C14": " Round 6: the binder's adapters keep no state between calls (captured-state rule applied to the route = takes to Equal_Q).",
 "C15": " Round 6: preamble lines may be accumulated in a strings.Builder (same shape); no second string decoder in read_atom (as C06).",
 "C16": " Round 6: a collection reader answers only after its read_list call (the one place a closing token is matched with its opener); 'incomplete' messages are built nowhere else in the whole module.",
 "C17": " Round 6: outside read_list a span is closed at a token fetched before any nested read (or at a sub-form's position); the text reaches the scanner unchanged (row numbers are the text's rows).",
 "C18": " Round 6: may-panic audit of the stepper the module ships (debugger.(*Debugger).Stepper and its callees).",
 "C20": " Round 6: the value-and-error result shape hands back the function's first result itself on every return; the error-only shape hands back nil.",
}
for _pid, _extra in ADDED6.items():
    t, text, note, ref = CLAIMED[_pid]
    CLAIMED[_pid] = (t, text + _extra, note, ref)

ADDED7 = {
 "C01": " Round 7: no exit of the application region before the call form has been evaluated (an ill-formed call still evaluates its operands first); the binder's argument and result rules adopted for builtin calls (C01.builtin-call-*).",
 "C02": " Round 7: a binding changes only through def in its own scope: C01's scope, lookup and def rules adopted (C02.binding-*).",
 "C03": " Round 7: LispError.Is decides by the thrown objects and never by an error's text (which carries the position); no return reports success between a fallible call and the test of its error (whole runtime).",
 "C06": " Round 7: every return of the printer's keyword branch has the keyword shape; no branch of the reading code compares a count with a constant limit.",
 "C07": " Round 7: no builtin hands the reader an environment (its constructors run under Background()); the try body's time share is a constant fraction below 1 of the remaining time on every path, conditional only on the deadline's existence.",
 "C09": " Round 7: update function literals the headers pass to swap! call no caller-supplied function value.",
 "C10": " Round 7: every call of a reference's Deref passes the caller's own context.",
 "C11": " Round 7: C09's read-modify-write and install rules adopted for shared atoms (C11.atom-*).",
 "C12": " Round 7: the macro expansion at the top of the loop dominates every special-form region and the application.",
 "C13": " Round 7: no builtin answers nil without an error on the out-of-range edge of an index-against-length test; the binder's nil-argument, slot, count and result rules adopted (C13.binder-*).",
 "C14": " Round 7: counted element loops visit every index; no test on the two values skips the recursive comparison inside a comparison loop.",
 "C15": " Round 7: the preamble pattern ends in a greedy capture of the rest of the line (checked on the parsed pattern); no count limits in the reading code.",
 "C16": " Round 7: the REPL carries accumulated lines into the next round only after the classifier said 'incomplete'; single-token readers consume exactly one token and call no other parsing function.",
 "C18": " Round 7: Stepper and the stepping flags are read only by the stepping code (EVAL's prologue and loop bottom, entry of the body helper, code already under a stepper), never inside a special form.",
 "C19": " Round 7: C01's body/order/once rules adopted for the do-wrapped and load-file routes; C11's package-state inventory adopted (eval evaluates in the environment it was registered in).",
 "C20": " Round 7: a nil argument is boxed as reflect.Zero of the MalType interface and ValueOf is applied only to arguments known non-nil; the error/no-error decision of the result mappers is the comparison of the error result's interface value with nil; the name a function is bound under is the override exactly as given or the derived name.",
}
for _pid, _extra in ADDED7.items():
    t, text, note, ref = CLAIMED[_pid]
    CLAIMED[_pid] = (t, text + _extra, note, ref)

ADDED8 = {
 "C01": " Round 8: every lookup of a name in a scope's table is a comma-ok lookup (a binding to nil is a binding); the apply builtin passes on leading arguments and spread sequence on every path (a part is left out only where it is known to be empty).",
 "C02": " Round 8: no registered builtin (nor a function or closure it is built from) calls Set/SetNT/Update/Remove on an environment.",
 "C04": " Round 8: a method of reflect.Type called on reflect.TypeOf(x) requires x to be known non-nil.",
 "C06": " Round 8: among the reader's parsing functions only the atom reader returns basic values it decoded; a string case computed by anything but one pass through the table is a violation (not an undecided).",
 "C07": " Round 8: the scope-lock rules of C11 adopted (own mutex per scope, no re-entry, child-before-parent, paired): an evaluation waiting for a lock cannot be cancelled.",
 "C08": " Round 8: no builtin creates at run time a types.Func whose body applies a captured lisp closure.",
 "C09": " Round 8: the version counter is a 64-bit integer.",
 "C10": " Round 8: the context rule covers every evaluation the library starts (a deref inside a finally body waits under the containing evaluation's context).",
 "C11": " Round 8: C09.version and C09.guard adopted too.",
 "C12": " Round 8: SetMacro writes nothing but the flag of its copy, GetMacro answers with that flag on every return; no error of the quasiquote transform is decided by comparing a template element with nil.",
 "C13": " Round 8: apply-args (as C01); the functions a builtin's result comes from return their collection argument unchanged only where another argument is known to be empty; in get-in/assoc-in/update-in the empty default branch is selected by a nil test of the looked-up value.",
 "C15": " Round 8: no string constant containing a line break is part of the printer's output; every value a placeholder can read as comes from the value table.",
 "C16": " Round 8: reading assigns no package-level variable; the REPL's decision to keep reading depends on nothing but the classifier (no character counts).",
 "C17": " Round 8: every error return of a failing builtin call in the application region is NewLispError(err, form).",
 "C19": " Round 8: the L-notation constructors write only storage they allocated.",
 "C20": " Round 8: NewLispError returns the object it was given (C03.object adopted as C20.error-result).",
}
for _pid, _extra in ADDED8.items():
    t, text, note, ref = CLAIMED[_pid]
    CLAIMED[_pid] = (t, text + _extra, note, ref)

ADDED9 = {
 "C01": " Round 9: every macro of the embedded headers needs to be one (its expansion over opaque operands is not a plain call that evaluates each operand once, in order, before anything else: such a name stays a function value); every package-level function of env with a scope result returns a scope it allocated itself; the binder's adapter closures return their result adapter's results as they are (C20.verbatim adopted).",
 "C02": " Round 9: the scope constructors return a scope this call allocated, never the scope they were given (C01.scope-new adopted).",
 "C03": " Round 9: a part of the split try form whose nil-ness decides between handler and propagation is never nil on a path through a catch clause (clause-splitting helpers followed); an error obtained in one lap of a loop is tested in that loop.",
 "C04": " Round 9: a channel kept in a struct field that is closed anywhere is closed once and sent on by the closing function only.",
 "C05": " Round 9: nothing in the call closure of the reading and printing entry points inserts into or deletes from a package-level map outside a mutex (a concurrent map write is a fatal error, not a panic).",
 "C06": " Round 9: the collection builders the reader calls refuse a key by its type only, never by a comparison of string contents or length.",
 "C07": " Round 9: a function the evaluator or a builtin can reach that has no context of its own never makes one up for an evaluating call; where the caller has a deadline the try body's context is made by WithTimeout/WithDeadline (its Deadline() is the end of the share), through merges and context-making helpers.",
 "C08": " Round 9: a part (element, field, assertion) of an evaluating call's result counts as that call's result for the tail rule; the evaluator model follows the form when it is kept in a cell (captured by a closure of EVAL).",
 "C09": " Round 9: C20.verbatim and C20.results adopted (what swap!/reset!/deref return is what the operation returned).",
 "C11": " Round 9: every store into the remaining fields of atoms and futures (metadata, channels, cancel function) is made on a fresh object or under its write lock, from any package; the binding table of a scope never leaves the scope's methods (not returned, stored, boxed or passed).",
 "C12": " Round 9: the macro test answers anything but false only where its form is known to be a List; the quasiquote transform and its helpers use no partial string match (HasPrefix and the like).",
 "C13": " Round 9: a program-supplied count is subtracted from a length only where it is proven non-negative; an error obtained in one lap of a loop is tested in that loop.",
 "C15": " Round 9: NewKeyword is an injective encoding and the collection builders accept every string as key (C06.keyword, C06.key-content shared).",
 "C16": " Round 9: the advancing and the non-advancing token accessor hand out the same token (entry position, one store of position+1 after the read, no loop).",
 "C17": " Round 9: no catch handler of the embedded headers hands what it caught to throw, directly or through a header function that throws its parameter.",
 "C18": " Round 9: the binding table of a scope never leaves the scope's methods (C11.table-private adopted as C18.scope-table).",
 "C19": " Round 9: no map is keyed by, and no == applied to, a struct that holds a source position; every loop of package lnotation stores into the result on every path round the loop.",
 "C20": " Round 9: the adapter closures return exactly their result adapter's two results; the bounds the adapters capture come only from the declaration, the signature count, constants, the guarded context increment or a bounds helper (followed); a scope method that applies a function it was given holds the scope's write lock across read, call and store.",
}
for _pid, _extra in ADDED9.items():
    t, text, note, ref = CLAIMED[_pid]
    CLAIMED[_pid] = (t, text + _extra, note, ref)

ADDED10 = {
 "C01": " Round 10: the sequence accessor never answers (nil, nil) (C13.seq-accessor adopted: let, apply, map, cons, concat fail on a non-sequence); function literals of the evaluator that are only called where they are defined are evaluation helpers like named functions, and a helper that only wraps one evaluating call is that call at its call sites.",
 "C03": " Round 10: the error of a nested evaluation kept in a variable is not overwritten with an error made on the spot where the variable is known to hold it; C20.panic adopted (a builtin's panic still wraps the panic value).",
 "C05": " Round 10: on every cycle of calls among the reader's parsing functions a token is consumed between entry and the call that continues the cycle (replaces the per-function consume obligation); pointer results a helper never leaves nil on success are known non-nil after its error test.",
 "C06": " Round 10: the readers of bracketed collections fail only with the error of the function they called; a key is not refused for being present already; Read_str answers an error only after tokenizing and never on a strings/regexp/unicode test of the text; the reader assigns no package-level state; the scanner reads the text's own reader.",
 "C07": " Round 10: the context rule covers every call of a module function that takes a context (helpers of the context-taking builtins).",
 "C09": " Round 10: every value (*Atom).Deref returns is the receiver's Val field (no second copy of the value); atoms are allocated only in lib/concurrent.",
 "C10": " Round 10: the Cancelled flag is assigned only in the function that calls the future's cancel function; futures are allocated only in lib/concurrent.",
 "C11": " Round 10: C02.write / C02.copyrecv adopted (a value bound to a shared global is never written by a builtin); C12.defmacro-once adopted (a definition is seen entirely or not at all).",
 "C12": " Round 10: positions take no part in recognising a macro call (C19.position-blind adopted); a defmacro of the headers may wrap its (fn …) in let/do.",
 "C13": " Round 10: the sequence accessor never answers (nil, nil); the count-taking sequence builtins (take, take-last, drop, drop-last) accept the same kinds for their sequence argument (per-kind control-flow analysis through helpers); counts are followed through helper parameters and results.",
 "C14": " Round 10: no form of the embedded headers rebinds =.",
 "C15": " Round 10: reading a text with its preamble keeps no package-level state; Read_str refuses no text for the characters it contains (C06.text-verdict shared); the stop rule follows helpers that pass their parameters on to Read_str.",
 "C16": " Round 10: the text reaches the scanner unchanged and through the text's own reader (no limiting or transforming reader); the bracket matcher's rules follow its private helpers.",
 "C17": " Round 10: the root package's entry points hand the text to the reader unchanged (nothing put in front of it); the cursor constructors store the module name as given.",
 "C18": " Round 10: the debugger engine writes no field of a Position it did not allocate.",
 "C20": " Round 10: a nil return of an argument builder is an argument vector too (count check first); LispError.Unwrap returns the stored error itself (chain walked link by link); the registry's package key is followed through helper parameters.",
}
for _pid, _extra in ADDED10.items():
    t, text, note, ref = CLAIMED[_pid]
    CLAIMED[_pid] = (t, text + _extra, note, ref)

ADDED11 = {
 "C01": " Round 11: eval_ast hands its form back unevaluated only where the form is known to be no list, vector or hash-map; the binder compares a parameter's name with no constant but &; the = builtin's element comparison decides a branch in its loop (C14.all-elements, C14.entry adopted); the closure built by fn is examined through a builder function of the package.",
 "C03": " Round 11: C01.binds adopted as C03.catch-binds (the catch symbol is bound whatever its name).",
 "C04": " Round 11: the zero value of a closure type returned beside an error is no constructor.",
 "C06": " Round 11: READ answers only what Read_str answered; PRINT returns Pr_str(argument, true) unchanged; a collection reader's own error is allowed only when decided by counts.",
 "C07": " Round 11: the function stored in MalFunc.Eval is EVAL or a wrapper of its signature that calls it (what the wrapper passes on falls under C07.derive: a function with a context of its own hands on that one).",
 "C09": " Round 11: the deref builtin makes one Deref call, outside any loop, and returns its result; an atom of the headers that is read twice in one body only ever grows (every swap! on it adds to the current value itself).",
 "C10": " Round 11: future-done? and future-cancelled? return IsDone() / IsCancelled() as they are.",
 "C12": " Round 11: macro expansion (and the macro test) happens only at the top of the evaluation loop and in the macroexpand form.",
 "C13": " Round 11: the collection builtins bind and test the sequence accessor's error wherever the argument is not already known to be a list or vector; a set/map builder does not judge its items by the size of the table built (C06.key-content adopted).",
 "C14": " Round 11: the outcome of each element comparison decides a branch inside the loop (it is not merely carried to the next lap).",
 "C15": " Round 11: PRINT returns the printer's text unchanged (C06.print-entry shared); the blank-line and line-shape rules follow a strings.Builder and a line-building helper.",
 "C16": " Round 11: the atom reader is called by the dispatcher only, after the token was compared with every opening bracket; the error of reading a preamble value never becomes READWithPreamble's answer.",
 "C17": " Round 11: no function reachable from evaluation stores an empty, freshly allocated Position as a form's Cursor; the scanner's position is read when the token is built, not carried round the scanning loop.",
 "C19": " Round 11: C06.one-escaper adopted (keys and members are printed through the one quoting routine); no (load-file …) form built by the module's Go code is quoted with %q / strconv.Quote.",
}
for _pid, _extra in ADDED11.items():
    t, text, note, ref = CLAIMED[_pid]
    CLAIMED[_pid] = (t, text + _extra, note, ref)
ADDED12 = {
 "C01": " Round 12: the binding methods of a scope (Set, SetNT) store the value under the symbol's own name on every path to a return (C01.set-total).",
 "C02": " Round 12: the storage of a binary value ([]byte) counts as lisp storage: a builtin writes only into byte slices it allocated, also through the in-place editors of bytes/slices/sort.",
 "C04": " Round 12: == on two lisp values and map operations keyed by a lisp value are may-panic sites (uncomparable dynamic types) unless one side can only hold comparable types; an exempted construct moved into an unexported helper keeps its exemption when, at every call site, the construct written in the caller's terms is the exempted one.",
 "C05": " Round 12: the same comparison / hashing sites in the reader and printer closure.",
 "C06": " Round 12: whatever read_atom returns without error after the integer parser was tried on the token is the parsed int (an integer token never reads as a value of another kind); the keyword marker is found through the predicate a site calls.",
 "C07": " Round 12: C10.deref-context adopted as C07.deref-deref-context (the deref builtin waits under the evaluation's own context).",
 "C08": " Round 12: the Stepper variable is assigned in no package initialiser nor in anything one calls (C08.stepper-default): linking the debugger does not put every program into the stepping mode, where tail calls recurse.",
 "C09": " Round 12: the atom builtin returns a newly allocated Atom holding its argument on every path (C09.constructor); while a mutex released by a plain Unlock is held nothing that can panic is executed (C09.release-on-panic).",
 "C10": " Round 12: the binder's adapters and the closures registered as builtins write nothing they captured (C10.adapter-state); delivery, done flag and re-deposit are followed into the methods they were moved to.",
 "C11": " Round 12: C10.ctx adopted as C11.future-ctx (a future's body is stopped only by its creator's context or future-cancel); C20.registry-atomic adopted as C11.update-registry-atomic (Update is one critical section).",
 "C13": " Round 12: every checked assertion in the collection builtins whose value is used has its ok flag used too, unless the type is already established (C13.ok-flag); the sibling-domain family is recognised by signature and by testing the kind of the argument, so a member that starts accepting everything disagrees with its siblings.",
 "C16": " Round 12: the REPL gives the typed lines up only after the reader has seen them in that round and did not call them incomplete.",
 "C17": " Round 12: the parameter binder binds elements of the argument carrier, never the carrier itself with its maker's position (C17.carrier-not-bound); the error of a builtin is re-positioned also when the call was moved into a helper of the evaluator.",
 "C18": " Round 12: Stepper and the stepping flags are read by no code that runs during evaluation outside the evaluator's stepping sections (helpers that build forms, builtins).",
 "C19": " Round 12: C03.object adopted as C19.caught-object (catch binds the thrown value on every delivery route, never positioned text nor a module-dependent wrapper).",
 "C20": " Round 12: the vector handed to reflect's Call is the argument builder's result, carried only through functions that do not write it, and every slot written holds reflect.ValueOf(x) or reflect.Zero(t) as returned (C20.exact-args); every fmt.Errorf of the library that takes an error operand wraps it with %w (C20.chain-kept, shared with C03.wrap).",
}
for _pid, _extra in ADDED12.items():
    t, text, note, ref = CLAIMED[_pid]
    CLAIMED[_pid] = (t, text + _extra, note, ref)
ADDED13 = {
 "C01": " Round 13: the macro expander hands back the form its loop stopped at and nothing else, and is called only at the top of the loop and by the macroexpand form (C01.expansion-only); a binding made through a helper method of the scope counts as a binding of the parameter binder.",
 "C03": " Round 13: in the binder's recover handler only a value asserted to be an error goes to the constructor that formats it: every other thrown value is stored whole (part of C20.panic, adopted as C03.builtin-panic).",
 "C05": " Round 13: no bound function with a pointer result returns the nil pointer together with a nil error (C05.typed-nil).",
 "C06": " Round 13: the reader leaves the scanner's token rules (Mode, Whitespace, IsIdentRune) as Init set them (C06.token-rules); an identifier is read as a value other than a symbol only under the printer's spelling of that value (C06.literals).",
 "C09": " Round 13: the methods of Atom that never hold its write lock change nothing of the object, atomic flags included (C09.readers-pure); C10.ctx adopted as C09.issuer-ctx.",
 "C11": " Round 13: sends to and receives from package-level channels count as package-level state (C11.package-state).",
 "C12": " Round 13: C02.write adopted as C12.template-write (the literal parts of a template are the source's own objects; no builtin writes into what it was handed); an expander return that passes on a callee's results is not a return of the loop form.",
 "C13": " Round 13: an answer of a variadic builtin made from individually indexed arguments only is given where the number of arguments is known not to exceed the highest index used (C13.all-arguments).",
 "C15": " Round 13: every iteration of AddPreamble's loop over the value table writes that entry's line (C15.every-entry); C16.atom-last adopted (collection readers read their elements through the dispatcher, which is where placeholders are recognised).",
 "C16": " Round 13: C19.wrap adopted as C16.lisp-wrap (the closing text of load-file's wrapper starts on a new line).",
 "C17": " Round 13: C15.format adopted as C17.preamble-format (the preamble always ends in the blank line its reader stops at, so no program line is consumed and rows are not shifted).",
 "C19": " Round 13: the L-notation constructors store the strings they are given as given (C19.lnotation-verbatim); nothing that runs during evaluation compares the element slice of a list or vector with nil (C19.nil-blind).",
 "C20": " Round 13: the function value a registration binds is an adapter closure made in that registration (C20.own-adapter); the derived name passes through cutting, lower-casing and the _ to - replacement only (part of C20.name); adapters, builders, result adapters and bounds are followed into a function of the package that makes the adapters, and bounds are followed as values when they are no captured variables.",
}
for _pid, _extra in ADDED13.items():
    t, text, note, ref = CLAIMED[_pid]
    CLAIMED[_pid] = (t, text + _extra, note, ref)
ADDED14 = {
 "C01": " Round 14: a function that has bound the error of a callee answers success only behind the test that found it nil (C03.checked-first as C01.errors-surface); a parameter list or body handed to a function of the package that builds the closure is followed to the call site.",
 "C03": " Round 14: no catch handler of the embedded headers throws anything but the variable it caught (C03.lisp-handlers).",
 "C05": " Round 14: the reader hands the scanner no hooks (C06.token-rules as C05.token-rules); nothing the reader's entry point reaches calls the entry point or the tokenizer again (C05.single-text).",
 "C06": " Round 14: single-token readers take one token and do not call themselves or peek through a helper (C16.one-token as C06.one-token); the literal identifiers may also come from a table of the package; the string cases of read_atom are followed into the functions it hands a token kind on to.",
 "C07": " Round 14: every mutex acquired in lib/concurrent and env is released on every return, by an unlock on the path or a deferred unlock registered before that return and releasing the mode held (C07.release; the pair rules of C09/C10/C11 are flow-sensitive about the defer likewise).",
 "C09": " Round 14: swap! is registered without an upper bound on its arguments (C09.swap-arity).",
 "C10": " Round 14: the function the body goroutine runs is started by the go statement and called from nowhere else; every receive from an outcome channel in the package, not only in Deref, is followed by the re-deposit.",
 "C11": " Round 14: C09.lisp-monotone adopted (a memoising header does not park a placeholder in the shared table).",
 "C12": " Round 14: the quasiquote arm never returns its expansion as the value of the form (C12.qq-evaluated); the macro test may be a merge of false and GetMacro().",
 "C13": " Round 14: the kinds of argument each lisp-value parameter of the lib/core builtins accepts and refuses are compared with a confirmed table (C13.domain-table, three-valued: undecidable cases give no verdict); C03.checked-first adopted as C13.errors-surface; keyword? and string? decide by the same prefix test (C06.marker as C13.predicate-marker); the test that ends a counted loop is no range verdict.",
 "C16": " Round 14: the read-string builtin is an entry point of the stateless reader too.",
 "C17": " Round 14: the read-string builtin hands the reader no cursor of its own (C17.read-string-cursor).",
 "C18": " Round 14: the printer and every LispPrint method only read the value they print (C18.print-pure).",
 "C20": " Round 14: after the call of a Go function value, types.Apply returns that call's own value and error (C20.apply-verbatim); the count check may live in a function that panics unless the count is within the bounds (what a callee establishes by returning normally holds after the call).",
}
for _pid, _extra in ADDED14.items():
    t, text, note, ref = CLAIMED[_pid]
    CLAIMED[_pid] = (t, text + _extra, note, ref)

ADDED15 = {
 "C01": " Round 15: an error bound to a variable that is assigned again before anybody reads it is a dropped error (C01.errors-surface); the value operand of def may be evaluated in a function of the evaluator that holds the whole arm.",
 "C02": " Round 15: a buffer that is grown and re-sliced in a loop is judged by where the family of its views comes from.",
 "C04": " Round 15: a method called on the only result of a function of the module that can hand back the nil interface (a lookup that answers nil for 'none') is audited like a parameter that may be nil.",
 "C05": " Round 15: a function of the read-string builtin that calls itself with a text that still contains all of the text it was given is flagged (C05.single-text).",
 "C06": " Round 15: no printed text is used as a format in package printer (C06.text-not-format); the keyword branch of the printer may ask a predicate of the module that is the prefix test; brackets written into a strings.Builder are read from its first and last write.",
 "C07": " Round 15: no function of lib/concurrent acquires a mutex it holds, directly or through a callee (C09.no-reentry as C07.no-reentry).",
 "C08": " Round 15: a form handed to a function value of the evaluator's own type (the evaluator a closure carries) and its value returned is a nested evaluation in a tail position (C08.tail).",
 "C09": " Round 15: the error of an update function reaches swap! through the builtins the update is composed of: no error bound and never read (C09.update-error).",
 "C10": " Round 15: lib/concurrent keeps no package-level channel, counter or container the futures share (C10.no-shared-queue); the address of a guarded flag handed to a method of the same object is an access where that method dereferences it.",
 "C11": " Round 15: sync/atomic functions applied to a package-level variable are writes of shared state, race-free or not (C11.package-state).",
 "C12": " Round 15: a hash-map or symbol template with a case of its own is returned literally or quoted like the shared case (C12.qq-dispatch).",
 "C13": " Round 15: the accessor's error may be dropped on the shared arm of a type switch that admits only lists and vectors.",
 "C15": " Round 15: from the branch taken for an empty line no path leads round the preamble loop again (C15.stop).",
 "C16": " Round 15: a line scanner in the slurp builtin is asked for its Err (C16.whole-file); the EOF template may be handed to a function of the package that makes the error.",
 "C17": " Round 15: C15.stop adopted (C17.preamble-stop): the blank lines a program begins with are not swallowed with the separator; positions built through a constructor of package types that only stores its parameters are followed into its call sites.",
 "C18": " Round 15: every undo function the debugger obtains from the module is deferred or called on every way out of the step (C18.undo).",
 "C19": " Round 15: the interactive REPL joins accumulated lines with a line break (C19.repl-lines); the printer's form of a keyword and the one marker constant adopted from C06 (C19.reprint-*).",
 "C20": " Round 15: every return of the evaluator that hands on the error of a call through types.Func.Fn hands it on wrapped by NewLispError (C20.mapped).",
}
for _pid, _extra in ADDED15.items():
    t, text, note, ref = CLAIMED[_pid]
    CLAIMED[_pid] = (t, text + _extra, note, ref)

ADDED16 = {
 "C01": " Round 16: the evaluator's package keeps no counters, tables or caches at package level (sharedStateRule as C01.no-process-state).",
 "C02": " Round 16: the buffer parameter of an unexported function is fresh where every call hands it storage that is fresh in the caller.",
 "C05": " Round 16: the map of a value handed by pointer to an exported function may be nil for writing (C05.site).",
 "C06": " Round 16: every answer of the printer for a list or a vector is the result of the list printer, never a text put together on the spot (C06.brackets).",
 "C07": " Round 16: errors coming back from nested evaluation are handed on as the same value by every level (C03.propagate as C07.unwind).",
 "C08": " Round 16: the no-trampoline rule also covers the functions of the evaluator's own package.",
 "C09": " Round 16: every scope has a mutex of its own (C11.own-lock as C09.scope-lock).",
 "C11": " Round 16: C09.no-reentry adopted (C11.atom-no-reentry).",
 "C12": " Round 16: defmacro writes into the current scope (C01.scope as C12.defining-scope); every access to a scope's table holds that scope's lock (C11.data as C12.macro-lookup-guard).",
 "C13": " Round 16: the sequence accessor fails for no list and no vector (C13.accessor-total).",
 "C14": " Round 16: the sequence accessor fails for no list and no vector, so Equal_Q may drop its error (C14.accessor-total).",
 "C16": " Round 16: the scanner's token rules are left alone (C06.token-rules as C16.token-rules); an error found by a failed check is handed on as that very error by READ, REPL and their wrappers, so the reader's EOF text reaches the classifier as written (C03.propagate as C16.error-intact).",
 "C17": " Round 16: the error of a builtin is positioned at the call form, not at one of its operands (C17.reposition); a test of the dispatch string inside an arm is no case of the dispatch.",
 "C18": " Round 16: printing writes no entry or element into the value (C18.print-pure); no function deferred by EVAL outside stepping code assigns EVAL's results (C18.frame-blind).",
 "C19": " Round 16: REPL calls no method of the scope itself (C19.repl); no count compared with a fixed limit in the reader (C15.no-limit as C19.no-limit).",
 "C20": " Round 16: the registration routine binds the adapter on every returning path (C20.always-bound).",
}
for _pid, _extra in ADDED16.items():
    t, text, note, ref = CLAIMED[_pid]
    CLAIMED[_pid] = (t, text + _extra, note, ref)

ADDED17 = {
 "C02": " Round 17: the encoders (base64, base32, hex) are among the packages asked whether they write through a byte-slice parameter.",
 "C03": " Round 17: no struct that carries a LispError inside is boxed into an error (C03.one-error-type); what the body goroutine of a future delivers is what applying its function returned (C10.outcome-own as C03.future-outcome-own).",
 "C05": " Round 17: a shift by a signed count not known to be non-negative is a may-panic site.",
 "C09": " Round 17: an entry assoc'ed twice with different values in one function of a header is a placeholder readers can take for the result (C09.lisp-monotone).",
 "C10": " Round 17: the outcome sent is a result of the application (C10.outcome-own); the cancellation depends on the Done flag alone (C10.cancel-atomic).",
 "C11": " Round 17: a locking method called through the scope interface under a scope lock must be on the holder's outer scope (C11.order); C09.version-width adopted.",
 "C12": " Round 17: def binds exactly the value it evaluated (C01.def as C12.def-verbatim).",
 "C13": " Round 17: the variable the adapter's recover barrier writes is the closure's own error result (C20.siblings, adopted).",
 "C16": " Round 17: a nil answer without error is a success of a collection reader too (C16.matched); a round of the REPL that neither keeps the line nor hands the input to the reader, and a way out of its loop, lie behind the line reader's error only (C16.repl-reset).",
 "C17": " Round 17: the runner of the try body counts as nested evaluation for the re-positioning rule (C17.carrier).",
 "C19": " Round 17: C03.lisp-handlers and C15.format adopted (C19.caught-lisp-handlers, C19.preamble-format).",
 "C20": " Round 17: the recover barrier writes the closure's named error result; a function selected through the adapter variable must be one of the three result adapters (C20.siblings).",
}
for _pid, _extra in ADDED17.items():
    t, text, note, ref = CLAIMED[_pid]
    CLAIMED[_pid] = (t, text + _extra, note, ref)

ADDED18 = {
 "C01": " Round 18: nothing answers for the if form before its condition is evaluated (C01.falsy); no Go code binds a name the embedded headers define (C01.header-intact).",
 "C03": " Round 18: C01.order (a try form anywhere in a call form is evaluated once) and C20.apply-verbatim (an error object returned as a value is not thrown) adopted.",
 "C04": " Round 18: C03.finally-scope adopted (the finally body never runs in a later, possibly nil, value of the scope variable).",
 "C06": " Round 18: the read-string builtin asks nothing about its text before handing it to the reader (C06.read-string-total).",
 "C08": " Round 18: no count is compared with a fixed limit in the evaluator and its package keeps no counters (C08.no-budget).",
 "C09": " Round 18: a lock requirement does not pass through a registered builtin (C09.guard); C20.nil-arg adopted.",
 "C10": " Round 18: every field of a future written after its construction is guarded by its mutex wherever it is touched (C10.shared); context.WithoutCancel is no child context (C10.ctx).",
 "C11": " Round 18: positions reachable from shared forms are only read (C17.position-immutable as C11.positions-readonly); C10.readers and C10.outcome-own adopted.",
 "C12": " Round 18: the value of the defmacro form is the macro it bound (C12.flag).",
 "C15": " Round 18: AddPreamble prints each entry of the caller's table as it is (C15.value-verbatim).",
 "C17": " Round 18: GetPosition never answers with the position of a part of the form (C17.own-position).",
 "C19": " Round 18: no function of the module changes the working directory (C19.process-cwd); C10.outcome-own adopted (C19.future-outcome-own).",
 "C20": " Round 18: the argument builders refuse a call on the argument count alone (C20.refusal-grounds); the body of a future runs under a child of its creator's context (C10.ctx, C10.body-context as C20.future-*).",
}
for _pid, _extra in ADDED18.items():
    t, text, note, ref = CLAIMED[_pid]
    CLAIMED[_pid] = (t, text + _extra, note, ref)

ADDED19 = {
 "C01": " Round 19: C13.index-as-given and C13.range-error adopted (a position outside the sequence is refused, never counted from the other end).",
 "C03": " Round 19: C10.deref-waits adopted (a deref answers only after the future has delivered).",
 "C04": " Round 19: the map of a value that was handed in or asserted (and of a local copy of one) may be nil for writing (C04.site).",
 "C09": " Round 19: a lock-required method is not called on a scope that was already handed on (C09.scope-guard); throw never returns without an error (C09.throw-total).",
 "C12": " Round 19: the adapter of a registered builtin keeps nothing writable between calls (C12.adapter-state); the loop over the argument list of a variadic builtin is left early only on an error (C12.splice-all).",
 "C13": " Round 19: C13.argument-loop, C13.index-as-given; C13.ok-flag also covers the predicates of package types.",
 "C14": " Round 19: the comparison reads nothing of a collection but its elements (C14.val-only).",
 "C15": " Round 19: C06.brackets and C06.marker adopted for the keyword form (C15.keyword-*).",
 "C16": " Round 19: inside the element loop the only verdict where the tokens may have run out is the EOF error (C16.eof-only).",
 "C17": " Round 19: no operand of and/or/cond is wrapped in a function handed to a header function that goes on through a builtin (C17.macro-operands, symbolic expansion of the headers).",
 "C18": " Round 19: the command set is read from != comparisons too (C18.enum).",
 "C19": " Round 19: C02.write (C19.values-write), print purity (C19.print-pure) and C10.redeposit adopted.",
}
for _pid, _extra in ADDED19.items():
    t, text, note, ref = CLAIMED[_pid]
    CLAIMED[_pid] = (t, text + _extra, note, ref)

ADDED20 = {
 "C01": " Round 20: the name the special-form dispatch compares is computed from the current form on every lap (C01.dispatch-fresh) and by no test that asks the scope (C01.dispatch-by-name).",
 "C03": " Round 20: C20.mapped and C20.results adopted (every error a builtin returns is wrapped the same way; the adapters decide 'error or not' by comparing with nil).",
 "C05": " Round 20: no LispPrint method hands its own receiver to the printer (C05.print-descends: unbounded recursion is a fatal error no barrier stops).",
 "C06": " Round 20: the tokenizer hands the text to nothing but the scanner's input (C06.scanner-only); the token accessors compare no token text (C06.token-blind).",
 "C11": " Round 20: package-level objects of types from outside the module are of types documented as safe for concurrent use (C11.shared-objects).",
 "C12": " Round 20: every call gets a scope of its own (C01.scope-new as C12.scope-new); C12.dispatch-fresh and C12.dispatch-by-name (the forms quasiquote writes mean the special forms they spell in every scope).",
 "C14": " Round 20: C02.write adopted as C14.operands-intact (no builtin writes into a collection it was handed, so a comparison made once stays true).",
 "C15": " Round 20: every value stored into the placeholder table is the reader's answer for the entry's text (C15.entry-read).",
 "C16": " Round 20: the REPL's rune filter rejects only control characters (C16.input-filter).",
 "C18": " Round 20: the panic audit, comparisons of interface values included, over the functions that run only under a stepper (C18.stepping-total).",
 "C20": " Round 20: C13.apply-args adopted as C20.apply-args (a function reached through apply is invoked with all the arguments of the call).",
}
for _pid, _extra in ADDED20.items():
    t, text, note, ref = CLAIMED[_pid]
    CLAIMED[_pid] = (t, text + _extra, note, ref)
