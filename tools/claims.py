# claims table (executed by gen_manifest.py)

claim("C04", "may-panic audit over go/ssa: recover-barrier closure + dominance-based guard facts",
      "Custom static analysis. Every instruction that can raise a run-time panic (unchecked type assertion, index, slice, nil dereference, nil-map write, division, explicit panic, nil function call) in the call closure of EVAL/Apply/REPL/PRINT and of every library goroutine body, not descending through functions that start with a deferred total recover handler, must be dominated by a guard that excludes the panic (type facts, difference constraints over len/indices with loop-counter lemmas, predicate and accessor summaries, possible-dynamic-type sets) or be one of 11 named exemptions with reasons. Also: every function usable as Func.Fn is a barrier or audited; recover handlers are total; MalFunc/Func/Env literals set their function/map fields. Under the listed assumptions this is sufficient for 'no Go panic escapes EVAL'; I register it as 'other' because the analyser itself is unverified.",
      "Assumes non-nil context/environment arguments, the module's own *env.Env as the only EnvType, no panics inside standard-library callees for the argument shapes used, hand-built MalFunc/Func values with nil function fields excluded (as the property's quantifier does). Does not decide that every such error is catchable by try/catch beyond: the try body runs under a total recover handler.",
      "DESIGN.md §3 C04, §2 A/B")

claim("C05", "may-panic audit over go/ssa with host-nil taint + token-consumption progress rule",
      "Custom static analysis. Same audit as C04 over the closure of READ, READWithPreamble, reader.Read_str, AddPreamble and PRINT/Pr_str, with the parameters the documentation allows to be nil (cursor, placeholder table, environment) tracked as may-nil through every call; plus the loop/recursion inventory of the reader: every loop is a counted/range loop or consumes a token (or cuts the input) on every path to its back-edge, and every recursive call is preceded by a consume.",
      "Trusts the tokenizer github.com/jig/scanner v1.2.0 (terminates, well-formed tokens), regexp/strconv/strings; stack exhaustion on deep nesting outside the claim; 'terminates' is claimed only through the progress rule, no time bound.",
      "DESIGN.md §3 C05")

for pid in ["C01","C02","C03","C06","C07","C08","C09","C10","C11","C12","C13","C14","C15","C16","C17","C18","C19","C20"]:
    NOT_APPLICABLE[pid] = "check under construction in this revision (static rules designed in DESIGN.md §3, not yet registered)"
