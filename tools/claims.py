# claims table (executed by gen_manifest.py)

claim("C04", "may-panic audit over go/ssa: recover-barrier closure + dominance-based guard facts",
      "Custom static analysis. Every instruction that can raise a run-time panic (unchecked type assertion, index, slice, nil dereference, nil-map write, division, explicit panic, nil function call) in the call closure of EVAL/Apply/REPL/PRINT and of every library goroutine body, not descending through functions that start with a deferred total recover handler, must be dominated by a guard that excludes the panic (type facts, difference constraints over len/indices with loop-counter lemmas, predicate and accessor summaries, possible-dynamic-type sets) or be one of 11 named exemptions with reasons. Also: every function usable as Func.Fn is a barrier or audited; recover handlers are total; MalFunc/Func/Env literals set their function/map fields. Under the listed assumptions this is sufficient for 'no Go panic escapes EVAL'; I register it as 'other' because the analyser itself is unverified.",
      "Assumes non-nil context/environment arguments, the module's own *env.Env as the only EnvType, no panics inside standard-library callees for the argument shapes used, hand-built MalFunc/Func values with nil function fields excluded (as the property's quantifier does). Does not decide that every such error is catchable by try/catch beyond: the try body runs under a total recover handler.",
      "DESIGN.md §3 C04, §2 A/B")

claim("C05", "may-panic audit over go/ssa with host-nil taint + token-consumption progress rule",
      "Custom static analysis. Same audit as C04 over the closure of READ, READWithPreamble, reader.Read_str, AddPreamble and PRINT/Pr_str, with the parameters the documentation allows to be nil (cursor, placeholder table, environment) tracked as may-nil through every call; plus the loop/recursion inventory of the reader: every loop is a counted/range loop or consumes a token (or cuts the input) on every path to its back-edge, and every recursive call is preceded by a consume.",
      "Trusts the tokenizer github.com/jig/scanner v1.2.0 (terminates, well-formed tokens), regexp/strconv/strings; stack exhaustion on deep nesting outside the claim; 'terminates' is claimed only through the progress rule, no time bound.",
      "DESIGN.md §3 C05")

claim("C02", "ownership/freshness analysis of container storage over go/ssa",
      "Custom static analysis. Immutability of all values under all operation sequences follows from one invariant - published container storage is never written - and that invariant is a per-instruction ownership fact: every map update, delete, element store, copy destination and append base of lisp container type in the library must be storage allocated in the current activation (make, literal, append to fresh/nil, result of a function that returns fresh storage on every path, field of a local struct that only ever held fresh storage). Also: field stores on value structs go to local copies; the registration-time registry update is unreachable from evaluation; no reflection writes. Sufficient for the property under the stated assumptions; registered as 'other' because the analyser is unverified.",
      "Flow-insensitive inside one activation (a write after the same activation already published the storage is not detected); atoms, futures and Env.data are out of scope by type; host Go functions must obey the same rule.",
      "DESIGN.md §3 C02, §2 E")

claim("C09", "lockset (must-hold) analysis + compare-and-set idiom recognition over go/ssa",
      "Custom static analysis of the lock discipline every linearizable implementation of this design needs: Atom.Val/version accessed only under the atom's mutex (mode-correct; lock-required methods checked at their call sites); every acquire released on every return; no call that can reach the evaluator while an atom lock is held (non-reentrant RWMutex: self-deref or nested swaps would hang); swap! is a compare-and-set retry loop (value+version read in one section, update function applied outside any lock, install only under write lock when the version is unchanged, failure retries, loop polls the context, failing update function installs nothing); every store to Atom.Val increments the version.",
      "Linearizability, real-time order and fairness are not decided. gensym/memoize in the lisp headers are covered only by C13.vocab's free-symbol lint.",
      "DESIGN.md §3 C09, §2 F")

claim("C10", "lockset analysis + ordering (dominance) rules over go/ssa",
      "Custom static analysis: Future.Done/Cancelled accessed only under Future.mu in every function of the module; exactly one goroutine per future, outside loops, applying the function once; Done=true stored before every send of the outcome (deref returned implies done); every receive in Deref re-deposits the same value on the same channel and channels have capacity >= 1, no close(); Cancel is one write-locked critical section and calls the cancel function only on the not-done path; the body runs under a WithCancel child of the creator's context whose cancel function is CancelFunc; Deref waits on its caller's context.",
      "History-level statements (monotonicity as observed by callers) beyond these happens-before edges are not decided.",
      "DESIGN.md §3 C10")

claim("C11", "lockset analysis over go/ssa + control-dependence of global writes",
      "Custom static analysis: every access to Env.data holds that Env's mutex in the right mode or is on an Env allocated in the activation; the *NT methods are lock-required and every call site (static and through the EnvType interface) holds the lock of the same receiver, so the ascent to the outer scope must go through the locking entry points; acquire/release pairing; while a scope lock is held only the outer scope is locked (child-then-parent) and nothing that reaches the evaluator is called (the Update callback is resolved through its call sites); the only package-level variables written from the evaluator closure are the stepping flags, each write control-dependent on Stepper != nil. Fresh-scope discipline (C11.local) is decided by the scope rules of C01/C03.",
      "'Returns exactly what it returns when run alone' is behaviour and not decided; races inside host builtins and process state are outside.",
      "DESIGN.md §3 C11")

for pid in ["C01","C03","C06","C07","C08","C12","C13","C14","C15","C16","C17","C18","C19","C20"]:
    NOT_APPLICABLE[pid] = "check under construction in this revision (static rules designed in DESIGN.md §3, not yet registered)"
