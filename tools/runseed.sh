#!/bin/bash
# runseed.sh <seeded-dir> <prop>[,<prop>...]  : run checks against a scratch worktree with the seeded patch applied
SEED=$1; PROPS=$2
WT=/tmp/runseed.$$
git -C /repo worktree add -q --detach $WT HEAD || exit 9
trap 'git -C /repo worktree remove --force $WT >/dev/null 2>&1' EXIT
(cd $WT && (git apply $SEED/patch.diff 2>/dev/null || git apply --3way $SEED/patch.diff)) || { echo "APPLY FAILED"; exit 3; }
for p in $(echo $PROPS | tr ',' ' '); do
  /verif/bin/lispcheck -prop $p -repo $WT -evidence-dir "" > /tmp/runseed.$$.log 2>&1; rc=$?
  echo "seed=$(basename $SEED) prop=$p exit=$rc"
  grep "violated:\|UNDECIDED" /tmp/runseed.$$.log | sed "s#$WT/##g" | cut -c1-260 | head -8
done
rm -f /tmp/runseed.$$.log
