#!/bin/bash
# seedone.sh <seeded-dir> [props]: run the check of the seed's own property (or the given ones, or "all") on a
# scratch worktree with the seeded change applied; prints detected / MISSED and the violated obligations.
D=$(readlink -f ${1%/}); s=$(basename $D); prop=${s%-*}; PROPS=${2:-$prop}
WT=$(mktemp -d /tmp/seedone.XXXXXX); rmdir $WT
git -C /repo worktree add -q --detach $WT HEAD || exit 9
trap 'git -C /repo worktree remove --force $WT >/dev/null 2>&1; rm -f $WT.log' EXIT
(cd $WT && (git apply $D/patch.diff 2>/dev/null || git apply --3way $D/patch.diff 2>/dev/null)) || { echo "$s: patch does not apply"; exit 3; }
LISPCHECK_STRICT=1 ${LISPCHECK:-/verif/bin/lispcheck} -prop $PROPS -repo $WT -evidence-dir "" > $WT.log 2>&1; rc=$?
hits=$(grep -o "^VIOLATION property=C[0-9]*\|^UNDECIDED property=C[0-9]*" $WT.log | sed 's/VIOLATION property=//; s/UNDECIDED property=\(.*\)/\1(undecided)/' | sort -u | tr '\n' ' ')
case " $hits " in *" $prop "*) echo "$s: detected by: $hits";; *) echo "$s: MISSED by $prop (fired: $hits)";; esac
[ -n "$VERBOSE" ] && grep "violated:\|UNDECIDED" $WT.log | sed "s#$WT/##g" | cut -c1-300 | head -${VERBOSE}
exit 0
