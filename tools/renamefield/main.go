// renamefield <dir> <pkgpath> <Type> <old> <new>: renames an unexported struct field in the package loaded from
// <dir> (type-resolved: every identifier that denotes the field object). Used to produce behaviour-preserving
// test patches for the checker; not part of any registered check.
package main

import (
	"fmt"
	"go/ast"
	"go/token"
	"go/types"
	"os"
	"sort"
	"strings"

	"golang.org/x/tools/go/packages"
)

func main() {
	// renamefield <dir> <pkgpath> <Type> <old> <new>   (field)   |   renamefield <dir> <pkgpath> - <old> <new>   (package-level function)
	dir, pkgPath, typ, old, neu := os.Args[1], os.Args[2], os.Args[3], os.Args[4], os.Args[5]
	cfg := &packages.Config{Mode: packages.LoadAllSyntax, Dir: dir, Tests: true}
	pkgs, err := packages.Load(cfg, pkgPath)
	if err != nil || len(pkgs) == 0 {
		fmt.Fprintln(os.Stderr, "load failed", err)
		os.Exit(2)
	}
	// the variant of the package that includes its in-package tests has the most files
	var p *packages.Package
	for _, q := range pkgs {
		if q.PkgPath == pkgPath && (p == nil || len(q.Syntax) > len(p.Syntax)) {
			p = q
		}
	}
	if p == nil {
		fmt.Fprintln(os.Stderr, "package not found")
		os.Exit(2)
	}
	if len(p.Errors) > 0 {
		fmt.Fprintln(os.Stderr, "load errors", p.Errors)
		os.Exit(2)
	}
	var field types.Object
	if typ == "-" {
		field = p.Types.Scope().Lookup(old)
	} else if strings.HasSuffix(typ, "()") {
		// method of the named type
		obj := p.Types.Scope().Lookup(strings.TrimSuffix(typ, "()"))
		o, _, _ := types.LookupFieldOrMethod(types.NewPointer(obj.Type()), true, p.Types, old)
		field = o
	} else {
		obj := p.Types.Scope().Lookup(typ)
		st := obj.Type().Underlying().(*types.Struct)
		for i := 0; i < st.NumFields(); i++ {
			if st.Field(i).Name() == old {
				field = st.Field(i)
			}
		}
	}
	if field == nil {
		fmt.Fprintln(os.Stderr, "no such field or function")
		os.Exit(2)
	}
	type edit struct{ off int }
	edits := map[string][]int{}
	add := func(id *ast.Ident) {
		pos := p.Fset.Position(id.Pos())
		edits[pos.Filename] = append(edits[pos.Filename], pos.Offset)
	}
	for id, o := range p.TypesInfo.Defs {
		if o == field {
			add(id)
		}
	}
	for id, o := range p.TypesInfo.Uses {
		if o == field {
			add(id)
		}
	}
	_ = token.NoPos
	for file, offs := range edits {
		sort.Sort(sort.Reverse(sort.IntSlice(offs)))
		src, _ := os.ReadFile(file)
		for _, o := range offs {
			src = append(src[:o], append([]byte(neu), src[o+len(old):]...)...)
		}
		os.WriteFile(file, src, 0644)
	}
	fmt.Println("renamed", len(edits), "files")
}
