#!/bin/bash
# selftest.sh [--all]: (1) every check passes on the unchanged tree; (2) every seeded change is detected by the
# check of the property it was written against (and lists which other checks also fire).
cd /verif
(cd checker && GOFLAGS=-mod=mod GOPROXY=off GOSUMDB=off GOTOOLCHAIN=local go build -o /verif/bin/lispcheck .) || exit 2
fail=0
echo "== unchanged tree"
for p in $(seq -w 1 20); do
  /verif/bin/lispcheck -prop C$p -evidence-dir "" > /tmp/selftest.log 2>&1; rc=$?
  [ $rc -ne 0 ] && { echo "C$p: exit $rc on the unchanged tree"; grep "violated:\|UNDECIDED" /tmp/selftest.log | head -5; fail=1; }
done
echo "== seeded changes"
for d in /verif/seeded/*/; do
  s=$(basename $d); prop=${s%-*}
  WT=/tmp/selftest.$$
  git -C /repo worktree add -q --detach $WT HEAD || exit 9
  (cd $WT && (git apply $d/patch.diff 2>/dev/null || git apply --3way $d/patch.diff 2>/dev/null)) || { echo "$s: patch does not apply"; fail=1; git -C /repo worktree remove --force $WT; continue; }
  hits=""
  PROPS=$(seq -w 1 20)
  [ "${1:-}" != "--all" ] && PROPS=${prop#C}
  for p in $PROPS; do
    /verif/bin/lispcheck -prop C$p -repo $WT -evidence-dir "" > /tmp/selftest.log 2>&1; rc=$?
    [ $rc -eq 1 ] && hits="$hits C$p"
    [ $rc -eq 2 ] && hits="$hits C$p(undecided)"
  done
  git -C /repo worktree remove --force $WT
  case " $hits " in *" $prop "*) echo "$s: detected by:$hits";; *) echo "$s: MISSED by $prop (fired:$hits)"; fail=1;; esac
done
rm -f /tmp/selftest.log
exit $fail
