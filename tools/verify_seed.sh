#!/bin/bash
# verify_seed.sh <seedout-dir> <k> <out-dir>
# Confirms a seeded change: applies to current /repo HEAD in a scratch worktree, compiles, vets,
# keeps the 48 baseline tests passing, and its demonstration passes without and fails with the change.
SRC=$1; K=$2; OUT=$3
export GOFLAGS=-mod=mod GOPROXY=off GOSUMDB=off GOTOOLCHAIN=local; unset GOWORK
WT=/tmp/seedver.$$
git -C /repo worktree add -q --detach $WT HEAD || exit 9
trap 'git -C /repo worktree remove --force $WT >/dev/null 2>&1' EXIT
DEMO=$SRC/demo${K}_test.go; PATCH=$SRC/patch${K}.diff
CMD=$(grep -m1 -o "go test .*" $DEMO | sed 's/[[:space:]]*$//')
TARGET=$(echo "$CMD" | awk '{print $NF}')
DEST=$WT/${TARGET#./}; [ "$TARGET" = "." ] && DEST=$WT
mkdir -p $DEST; cp $DEMO $DEST/
cd $WT
echo "cmd: $CMD"
timeout 600 bash -c "$CMD" > /tmp/seedver.clean.log 2>&1; CLEAN=$?
if ! git apply $PATCH 2>/tmp/seedver.apply.log; then
  if ! git apply --3way $PATCH 2>>/tmp/seedver.apply.log; then echo "RESULT apply=FAIL"; cat /tmp/seedver.apply.log; exit 3; fi
fi
go build ./... >/tmp/seedver.build.log 2>&1; BUILD=$?
go vet ./... >/tmp/seedver.vet.log 2>&1; VET=$?
rm -f $DEST/$(basename $DEMO)
/verif/tools/baseline.sh $WT > /tmp/seedver.base.log 2>&1; BASE=$?
cp $DEMO $DEST/
timeout 600 bash -c "$CMD" > /tmp/seedver.mut.log 2>&1; MUT=$?
echo "RESULT clean_demo_exit=$CLEAN build=$BUILD vet=$VET baseline=$BASE mutant_demo_exit=$MUT"
tail -1 /tmp/seedver.base.log
if [ $CLEAN = 0 ] && [ $BUILD = 0 ] && [ $BASE = 0 ] && [ $MUT != 0 ]; then
  mkdir -p $OUT; rm -f $DEST/$(basename $DEMO); git add -A -N . ; git diff > $OUT/patch.diff; cp $DEMO $OUT/; cp $SRC/note${K}.md $OUT/note.md 2>/dev/null
  echo "$CMD" > $OUT/demo_cmd.txt
  echo "KEPT $OUT"
else
  echo "REJECTED"; tail -5 /tmp/seedver.clean.log /tmp/seedver.mut.log
fi
