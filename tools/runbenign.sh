#!/bin/bash
# runbenign.sh <patch> : all 20 checks must pass (exit 0) on a scratch worktree with the behaviour-preserving patch applied
P=$1
WT=/tmp/runbenign.$$
git -C /repo worktree add -q --detach $WT HEAD || exit 9
trap 'git -C /repo worktree remove --force $WT >/dev/null 2>&1' EXIT
(cd $WT && (git apply $P 2>/dev/null || git apply --3way $P 2>/dev/null)) || { echo "$(basename $(dirname $P))/$(basename $P): APPLY FAILED"; exit 3; }
bad=""
for p in $(seq -w 1 20); do
  /verif/bin/lispcheck -prop C$p -repo $WT -evidence-dir "" > /tmp/runbenign.$$.log 2>&1; rc=$?
  if [ $rc -ne 0 ]; then bad="$bad C$p($rc)"; grep "violated:\|UNDECIDED" /tmp/runbenign.$$.log | sed "s#$WT/##g" | cut -c1-230 | head -4; fi
done
rm -f /tmp/runbenign.$$.log
echo "$(basename $(dirname $P))/$(basename $P): ${bad:-all checks pass}"
