#!/bin/bash
# runbenign.sh <ABSOLUTE patch path> : all 20 checks must pass (exit 0) on a scratch worktree with the
# behaviour-preserving patch applied.  One process decides all 20 properties (one load of the program).
P=$1
WT=$(mktemp -d /tmp/runbenign.XXXXXX); rmdir $WT
git -C /repo worktree add -q --detach $WT HEAD || exit 9
trap 'git -C /repo worktree remove --force $WT >/dev/null 2>&1; rm -f $WT.log' EXIT
(cd $WT && (git apply $P 2>/dev/null || git apply --3way $P 2>/dev/null)) || { echo "$(basename $(dirname $P))/$(basename $P): APPLY FAILED"; exit 3; }
LISPCHECK_STRICT=1 ${LISPCHECK:-/verif/bin/lispcheck} -prop all -repo $WT -evidence-dir "" > $WT.log 2>&1; rc=$?
bad=$(grep -o "^VIOLATION property=C[0-9]*\|^UNDECIDED property=C[0-9]*" $WT.log | sed 's/property=//' | sort -u | tr '\n' ' ')
if [ $rc -ne 0 ]; then grep "violated:\|UNDECIDED\|undecided:" $WT.log | sed "s#$WT/##g" | cut -c1-260 | head -${NLINES:-8}; fi
echo "$(basename $(dirname $P))/$(basename $P): rc=$rc ${bad:-all checks pass}"
exit $rc
