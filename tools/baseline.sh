#!/bin/bash
# Runs the repository's own test suite (guard off: plain build, no tags) and
# checks that the 48 stable tests of /root/.vp/BASELINE.json all pass.
# usage: baseline.sh [repo-dir]
REPO=${1:-/repo}
export GOFLAGS=-mod=mod GOPROXY=off GOSUMDB=off GOTOOLCHAIN=local
unset GOWORK
OUT=$(mktemp)
(cd "$REPO" && go test -json -vet=off -count=1 -timeout 25m ./... > "$OUT" 2>/dev/null)
python3 - "$OUT" <<'PY'
import json,sys
base=json.load(open('/root/.vp/BASELINE.json'))['stable_pass']
res={}
for l in open(sys.argv[1]):
    try: e=json.loads(l)
    except Exception: continue
    if e.get('Test') and e.get('Action') in('pass','fail','skip'):
        res[e['Package']+'::'+e['Test']]=e['Action']
bad=[t for t in base if res.get(t)!='pass']
print("baseline: %d/%d stable tests pass"%(len(base)-len(bad),len(base)))
for t in bad: print("  NOT PASSING:",t,res.get(t))
sys.exit(1 if bad else 0)
PY
rc=$?
rm -f "$OUT"
exit $rc
