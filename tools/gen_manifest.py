#!/usr/bin/env python3
"""Generates /verif/MANIFEST.json from the table below (keep in sync with DESIGN.md)."""
import json, os

HERE = os.path.dirname(os.path.dirname(os.path.abspath(__file__)))

# id -> (technique, level text, level note, design ref)
CLAIMED = {}
NOT_APPLICABLE = {}

def claim(pid, technique, text, note, ref):
    CLAIMED[pid] = (technique, text, note, ref)

exec(open(os.path.join(HERE, "tools", "claims.py")).read())

checks = []
for pid in sorted(CLAIMED):
    technique, text, note, ref = CLAIMED[pid]
    checks.append({
        "property_id": pid,
        "quick_cmd": "./check.sh %s quick" % pid,
        "thorough_cmd": "./check.sh %s thorough" % pid,
        "evidence_file": "/verif/evidence/%s.json" % pid,
        "replay_cmd_template": "cat {path}",
        "engine": "lispcheck",
        "level_claimed": {"category": "other", "text": text, "design_ref": ref},
        "level_note": note,
        "technique": technique,
    })

manifest = {
    "version": 1,
    "setup_cmd": "cd /verif/checker && GOFLAGS=-mod=mod GOPROXY=off GOSUMDB=off GOTOOLCHAIN=local CGO_ENABLED=0 go build -o /verif/bin/lispcheck .",
    "hooks": {
        "guard": "verif",
        "enable": "none needed: the checks are static analyses of the source as it is; no instrumentation is compiled into jig/lisp (a -tags verif load is part of the thorough tier only to make sure no file hides behind the tag)",
        "baseline_off_cmd": "/verif/tools/baseline.sh /repo",
        "source_commits": [],
        "add_only": True,
    },
    "engines": [{
        "name": "lispcheck",
        "path": "/verif/checker",
        "serves_properties": sorted(CLAIMED),
        "kind_free_text": "repository-specific static analyser: go/packages + go/types + go/ssa (x/tools v0.29.0); dominance-based fact engine, may-panic audit, ownership/freshness, lockset, table agreement; no code of jig/lisp is executed",
    }],
    "checks": checks,
    "not_applicable": [{"property_id": p, "reason": r} for p, r in sorted(NOT_APPLICABLE.items())],
    "notes": "Every check decides named structural clauses (necessary, sometimes sufficient, conditions) of its property by static analysis of /repo's working tree; none decides the behaviour itself. Exit 2 (UNDECIDED) means an anchor no longer resolves or a rule matched fewer instances than confirmed by reading. Known findings: /verif/known_findings.json. Seeded changes used to validate the checks: /verif/seeded/.",
}
json.dump(manifest, open(os.path.join(HERE, "MANIFEST.json"), "w"), indent=1)
print("wrote MANIFEST.json: %d checks, %d not applicable" % (len(checks), len(manifest["not_applicable"])))
