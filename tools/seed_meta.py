#!/usr/bin/env python3
# seed_meta.py <round>: writes meta.json for every /verif/seeded/<id>-<k> directory that has none.
import json, os, re, sys, glob
rnd = int(sys.argv[1])
for d in sorted(glob.glob('/verif/seeded/C*-*')):
    if os.path.exists(d + '/meta.json'):
        continue
    prop = os.path.basename(d).split('-')[0]
    files = re.findall(r'^\+\+\+ b/(.*)$', open(d + '/patch.diff').read(), re.M)
    demo = [f for f in os.listdir(d) if f.endswith('_test.go')]
    cmd = open(d + '/demo_cmd.txt').read().strip() if os.path.exists(d + '/demo_cmd.txt') else ''
    meta = {
        "property": prop,
        "round": rnd,
        "origin": "written by an independent sub-agent that was given only the property text and a scratch worktree of /repo (nothing from /verif)",
        "files_changed": files,
        "demonstration": demo[0] if demo else "",
        "demonstration_cmd": cmd,
        "needs_to_manifest": "see note.md (author's description of the trigger)",
        "confirmed_by": "tools/verify_seed.sh in a fresh scratch worktree of /repo HEAD: demonstration passes on the unchanged tree; with the patch: go build ./... ok, go vet ./... ok, the 48 baseline tests pass, demonstration fails",
    }
    json.dump(meta, open(d + '/meta.json', 'w'), indent=1)
    print("meta:", d)
