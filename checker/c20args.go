package main

import (
	"fmt"
	"go/constant"
	"go/token"
	"go/types"
	"strings"

	"golang.org/x/tools/go/ssa"
)

// exactArgsRule: "invoked with exactly the lisp arguments given ... if and only if every argument is assignable
// to its parameter".  The vector handed to reflect's Call is the one the argument builder made: what travels from
// the builder to the call passes only through functions that read it, and every slot of it is filled with the
// boxed argument itself (reflect.ValueOf) or the nil stand-in (reflect.Zero) - never with a value converted to
// the parameter's type, which would let an argument that is not assignable run the function.
func exactArgsRule(w *World, r *Report, e *Engine, rule string, callFn *ssa.Function, builders []*ssa.Function) {
	r.rule(rule, "the vector handed to reflect's Call is what the argument builder returned, carried only through functions that do not write it; every slot written anywhere in the binder holds reflect.ValueOf(x) or reflect.Zero(t) as it came back, never a converted or otherwise derived reflect.Value")
	isBuilder := map[*ssa.Function]bool{}
	for _, b := range builders {
		isBuilder[b] = true
	}
	isValueVec := func(t types.Type) bool {
		sl, ok := t.Underlying().(*types.Slice)
		if !ok {
			return false
		}
		n, ok := sl.Elem().(*types.Named)
		return ok && n.Obj().Pkg() != nil && n.Obj().Pkg().Path() == "reflect" && n.Obj().Name() == "Value"
	}
	// a parameter that is only read
	var readOnly func(v ssa.Value, depth int) (bool, token.Pos)
	readOnly = func(v ssa.Value, depth int) (bool, token.Pos) {
		if depth > 5 || v.Referrers() == nil {
			return false, v.Pos()
		}
		for _, ref := range *v.Referrers() {
			switch u := ref.(type) {
			case *ssa.Return, *ssa.DebugRef, *ssa.Range:
			case *ssa.Phi:
				if ok, p := readOnly(u, depth+1); !ok {
					return false, p
				}
			case *ssa.Slice:
				if ok, p := readOnly(u, depth+1); !ok {
					return false, p
				}
			case *ssa.IndexAddr:
				for _, u2 := range *u.Referrers() {
					switch x := u2.(type) {
					case *ssa.UnOp, *ssa.DebugRef:
					default:
						return false, x.Pos()
					}
				}
			case ssa.CallInstruction:
				c := u.Common()
				if bi, ok := c.Value.(*ssa.Builtin); ok {
					if bi.Name() == "len" || bi.Name() == "cap" {
						continue
					}
					return false, u.Pos()
				}
				g := c.StaticCallee()
				if g == nil {
					return false, u.Pos()
				}
				if g.Pkg == nil || !inModule(g) {
					// reflect's own Call reads the vector
					if g.Object() != nil && g.Object().Pkg() != nil && g.Object().Pkg().Path() == "reflect" {
						continue
					}
					return false, u.Pos()
				}
				off := 0
				if g.Signature.Recv() != nil {
					off = 0 // receiver is Args[0] and Params[0] alike
				}
				for i, a := range c.Args {
					if a == v && i+off < len(g.Params) {
						if ok, p := readOnly(g.Params[i+off], depth+1); !ok {
							return false, p
						}
					}
				}
			default:
				return false, ref.Pos()
			}
		}
		return true, token.NoPos
	}
	var fromBuilder func(v ssa.Value, depth int) (bool, string)
	fromBuilder = func(v ssa.Value, depth int) (bool, string) {
		if depth > 6 {
			return false, "origin of the vector not found"
		}
		switch x := v.(type) {
		case *ssa.Phi:
			for _, ed := range x.Edges {
				if ok, why := fromBuilder(ed, depth+1); !ok {
					return false, why
				}
			}
			return true, ""
		case *ssa.Call:
			g := closureCallee(e, &x.Call)
			if g == nil || !inModule(g) || len(g.Blocks) == 0 {
				return false, "the vector is the result of " + describeVal(e, v, 0) + ", not of the argument builder"
			}
			if isBuilder[g] {
				return true, ""
			}
			// a carrier: returns one of its parameters, which it only reads
			for _, rt := range (&evalModel{}).returns(g) {
				rv := resolveRet(rt[1].(ssa.Value))
				p, ok := rv.(*ssa.Parameter)
				if !ok {
					// ... or hands back what the builder returned to it
					if ok2, why := fromBuilder(rv, depth+1); !ok2 {
						return false, w.fnName(g) + " stands between the builder and the call and returns a vector of its own making (" + why + ")"
					}
					continue
				}
				if ok, pos := readOnly(p, 0); !ok {
					return false, w.fnName(g) + " stands between the builder and the call and writes the vector (or hands it to something that may) at " + w.pos(pos)
				}
				idx := -1
				for i, q := range g.Params {
					if q == p {
						idx = i
					}
				}
				if idx < 0 || idx >= len(x.Call.Args) {
					return false, "parameter of " + w.fnName(g) + " not found at the call"
				}
				if ok, why := fromBuilder(x.Call.Args[idx], depth+1); !ok {
					return false, why
				}
			}
			return true, ""
		}
		return false, "the vector is " + describeVal(e, v, 0) + ", not the result of the argument builder"
	}
	fns := map[*ssa.Function]bool{}
	for _, f := range w.withPkgHelpers(callFn) {
		fns[f] = true
		for _, an := range allAnon(f) {
			fns[an] = true
		}
	}
	for _, b := range builders {
		for _, f := range w.withPkgHelpers(b) {
			fns[f] = true
		}
	}
	var ordered []*ssa.Function
	for _, f := range w.Funcs {
		if fns[f] {
			ordered = append(ordered, f)
		}
	}
	ncall, nslot := 0, 0
	for _, f := range ordered {
		for _, b := range f.Blocks {
			for _, in := range b.Instrs {
				switch x := in.(type) {
				case *ssa.Call:
					sc := x.Call.StaticCallee()
					if sc == nil || sc.Signature.Recv() == nil || sc.Object() == nil || sc.Object().Pkg() == nil || sc.Object().Pkg().Path() != "reflect" {
						continue
					}
					if (sc.Name() == "Call" || sc.Name() == "CallSlice") && len(x.Call.Args) == 2 {
						ncall++
						ok, why := fromBuilder(x.Call.Args[1], 0)
						r.check(ok, rule, f, "vector handed to reflect's Call", x.Pos(), "the argument builder's result, unwritten on the way", why+": the bound function is no longer entered with exactly the arguments given (an argument that is not assignable may be made to fit)")
					}
				case *ssa.Store:
					ia, ok := x.Addr.(*ssa.IndexAddr)
					if !ok || !isValueVec(ia.X.Type()) {
						continue
					}
					nslot++
					r.check(boxedAsIs(x.Val, 0), rule, f, "value put into a slot of the vector", x.Pos(), "reflect.ValueOf(x) or reflect.Zero(t), as returned", "a slot of the argument vector receives "+describeVal(e, x.Val, 0)+": something derived from the boxed argument (a conversion, another element) rather than the argument itself")
				}
			}
		}
	}
	r.floor(rule, "reflective calls of the bound function", ncall, 2)
	r.floor(rule, "slots of the argument vector written", nslot, 2)
}

func boxedAsIs(v ssa.Value, depth int) bool {
	if depth > 4 {
		return false
	}
	switch x := v.(type) {
	case *ssa.Phi:
		for _, ed := range x.Edges {
			if !boxedAsIs(ed, depth+1) {
				return false
			}
		}
		return true
	case *ssa.Call:
		sc := x.Call.StaticCallee()
		if sc == nil {
			return false
		}
		if sc.Signature.Recv() == nil && sc.Object() != nil && sc.Object().Pkg() != nil && sc.Object().Pkg().Path() == "reflect" && (sc.Name() == "ValueOf" || sc.Name() == "Zero") {
			return true
		}
		// a function of the module that does the boxing: every value it returns is boxed as it is
		if inModule(sc) && len(sc.Blocks) > 0 && sc.Signature.Results().Len() == 1 {
			n := 0
			for _, rt := range (&evalModel{}).returns(sc) {
				n++
				if !boxedAsIs(resolveRet(rt[1].(ssa.Value)), depth+1) {
					return false
				}
			}
			return n > 0
		}
	}
	return false
}

func isBoolResult(g *ssa.Function) bool {
	res := g.Signature.Results()
	return res.Len() == 1 && isBasic(res.At(0).Type(), types.Bool)
}

// okFlagUsedRule: "this argument is of that kind" is answered by the ok flag of the checked assertion. A builtin
// that asserts with the comma-ok form, drops the flag and goes on with the value treats every other kind of
// argument as the zero value of the asserted type (0, "", the empty list): a wrong value where an error is due.
func okFlagUsedRule(w *World, r *Report, e *Engine, rule string) {
	r.rule(rule, "in the collection builtins (registered functions of lib/core and the functions they are built from) every checked type assertion (v, ok := x.(T)) on a value not already known to be a T whose value is used also has its ok flag looked at: no builtin goes on with the zero value of T for an argument of another kind")
	seen := map[*ssa.Function]bool{}
	n := 0
	used := func(v ssa.Value) bool {
		if v == nil || v.Referrers() == nil {
			return false
		}
		for _, ref := range *v.Referrers() {
			if _, dbg := ref.(*ssa.DebugRef); !dbg {
				return true
			}
		}
		return false
	}
	var roots []*ssa.Function
	for _, root := range w.registeredFuncs() {
		if strings.HasPrefix(fnPkgPath(root), modPath+"/lib/core") {
			roots = append(roots, root)
		}
	}
	// ... and the predicates of package types the builtins are registered from or built on (true?, false?, nil? …):
	// functions of one lisp value with a bool result
	for _, f := range w.pkgFuncs("types") {
		if f.Parent() == nil && f.Signature.Recv() == nil && len(f.Params) == 1 && isMalType(f.Params[0].Type()) && isBoolResult(f) && len(f.Blocks) > 0 {
			roots = append(roots, f)
		}
	}
	for _, root := range roots {
		for _, fn := range w.withPkgHelpers(root) {
			if seen[fn] {
				continue
			}
			seen[fn] = true
			for _, b := range fn.Blocks {
				for _, in := range b.Instrs {
					ta, ok := in.(*ssa.TypeAssert)
					if !ok || !ta.CommaOk {
						continue
					}
					if _, isIface := ta.AssertedType.Underlying().(*types.Interface); isIface {
						continue
					}
					val, flag := tupleExtract(ta, 0), tupleExtract(ta, 1)
					if !used(val) {
						continue
					}
					// in a predicate of package types a dropped flag is harmless where the zero value is the answer "no"
					// (b, _ := x.(bool); return b): only a value that is negated or compared can turn "other kind" into "yes"
					if fnPkgPath(fn) == modPath+"/types" && !used(flag) {
						inverted := false
						for _, ref := range *val.Referrers() {
							switch u := ref.(type) {
							case *ssa.UnOp:
								inverted = inverted || u.Op == token.NOT
							case *ssa.BinOp:
								inverted = true
							}
						}
						if !inverted {
							continue
						}
					}
					n++
					if used(flag) {
						r.ok(rule, fn, "checked assertion "+canonVal(e, ta.X)+".("+shortType(ta.AssertedType)+")", ta.Pos(), "ok flag used")
						continue
					}
					known, _ := e.hasType(ta.X, ta.AssertedType, b)
					r.check(known, rule, fn, "checked assertion "+canonVal(e, ta.X)+".("+shortType(ta.AssertedType)+")", ta.Pos(), "ok flag used, or the type already established", "the ok flag of the assertion is dropped and the value used: for an argument of another kind the builtin goes on with the zero value of "+shortType(ta.AssertedType)+" and answers with a wrong value, where it has to fail")
				}
			}
		}
	}
	r.floor(rule, "checked assertions in the collection builtins", n, 3)
}

func tupleExtract(t ssa.Value, idx int) ssa.Value {
	if t.Referrers() == nil {
		return nil
	}
	for _, ref := range *t.Referrers() {
		if ex, ok := ref.(*ssa.Extract); ok && ex.Index == idx {
			return ex
		}
	}
	return nil
}

// carrierNotBoundRule: the parameter binder is handed the arguments in a carrier (a list made by whoever calls:
// the evaluator, Apply with the callee's own position, a catch clause).  What it binds are the elements - each
// one, or a new list of the remaining ones for a rest parameter.  The carrier itself, with the position and the
// metadata its maker gave it, is bound to no name: a function or macro that hands its rest parameter back would
// otherwise produce a form positioned where the carrier says (the definition of the callee), and every error
// raised in that form is reported there.
func carrierNotBoundRule(w *World, r *Report, e *Engine, rule string) {
	r.rule(rule, "the parameter binder binds elements of the argument carrier only (each argument, or a newly made list of the remaining ones): no value stored into a scope's table is the carrier itself, whose position and metadata belong to its maker, not to the program's forms")
	fn := w.Fn("env", "_newSubordinateEnvWithBinds")
	if fn == nil {
		r.undecided(rule, nil, "binder", token.NoPos, "_newSubordinateEnvWithBinds no longer resolves")
		return
	}
	n := 0
	// carriers: the lisp-value parameters of the binder, and the parameters of the functions it is built from
	// that are handed a carrier whole (other than as the value of a binding, which is what the rule forbids)
	carrier := map[ssa.Value]bool{}
	for _, p := range fn.Params {
		if isMalType(p.Type()) || valueStruct(p.Type()) {
			carrier[p] = true
		}
	}
	isBinding := func(g *ssa.Function) bool {
		if g == nil {
			return false
		}
		for _, p := range g.Params {
			if isBasic(p.Type(), types.String) {
				return true
			}
			if n, ok := p.Type().(*types.Named); ok && n.Obj().Name() == "Symbol" {
				return true
			}
		}
		return false
	}
	var whole func(v ssa.Value, depth int) ssa.Value
	whole = func(v ssa.Value, depth int) ssa.Value {
		if depth > 8 {
			return nil
		}
		if carrier[v] {
			return v
		}
		switch x := v.(type) {
		case *ssa.MakeInterface:
			return whole(x.X, depth+1)
		case *ssa.ChangeInterface:
			return whole(x.X, depth+1)
		case *ssa.ChangeType:
			return whole(x.X, depth+1)
		case *ssa.TypeAssert:
			return whole(x.X, depth+1)
		case *ssa.Extract:
			if ta, ok := x.Tuple.(*ssa.TypeAssert); ok && x.Index == 0 {
				return whole(ta.X, depth+1)
			}
		case *ssa.Phi:
			for _, ed := range x.Edges {
				if c := whole(ed, depth+1); c != nil {
					return c
				}
			}
		case *ssa.UnOp:
			if al, ok := x.X.(*ssa.Alloc); ok && x.Op == token.MUL {
				for _, st := range e.storesTo(al) {
					if c := whole(st.Val, depth+1); c != nil {
						return c
					}
				}
			}
		}
		return nil
	}
	helpers := w.withPkgHelpers(fn)
	for pass := 0; pass < 2; pass++ {
		for _, f := range helpers {
			for _, b := range f.Blocks {
				for _, in := range b.Instrs {
					c, ok := in.(*ssa.Call)
					if !ok {
						continue
					}
					g := c.Call.StaticCallee()
					if g == nil || g.Pkg != f.Pkg || isBinding(g) || len(g.Params) != len(c.Call.Args) {
						continue
					}
					for i, a := range c.Call.Args {
						if whole != nil && whole(a, 0) != nil {
							carrier[g.Params[i]] = true
						}
					}
				}
			}
		}
	}
	for _, f := range helpers {
		for _, b := range f.Blocks {
			for _, in := range b.Instrs {
				// a binding: a write into a table, or a call of a function of the package that takes a name
				// (symbol or string) and a value
				var bound []ssa.Value
				switch x := in.(type) {
				case *ssa.MapUpdate:
					if types.IsInterface(x.Value.Type()) {
						bound = append(bound, x.Value)
					}
				case *ssa.Call:
					g := x.Call.StaticCallee()
					if g == nil || g.Pkg != f.Pkg || len(g.Params) != len(x.Call.Args) || !isBinding(g) {
						continue
					}
					for i, p := range g.Params {
						if types.IsInterface(p.Type()) && !isErrorType(p.Type()) {
							bound = append(bound, x.Call.Args[i])
						}
					}
				}
				for _, v := range bound {
					n++
					c := whole(v, 0)
					r.check(c == nil, rule, f, "value bound to a name", in.Pos(), "an element of the carrier, or a list newly made of elements", "the argument carrier itself ("+describeVal(e, v, 0)+") is bound to a name: it carries the position (and metadata) its maker gave it - Apply gives it the position of the callee's definition - so a form built from that parameter is reported where the callee was defined, not where the program wrote it")
				}
			}
		}
	}
	r.floor(rule, "bindings made by the parameter binder", n, 2)
}

// releaseOnPanicRule: a lock released by a plain Unlock (not a deferred one) stays held when something between
// Lock and Unlock panics; under the binder's recover the builtin then answers with an error and every later
// operation on the object blocks forever.  Between a Lock and its plain Unlock only instructions that cannot
// panic are allowed.
func releaseOnPanicRule(w *World, r *Report, e *Engine, rule string, fns []*ssa.Function) {
	r.rule(rule, "in lib/concurrent, while a mutex is held that is released by a plain Unlock (not by a deferred one) nothing is executed that can panic: no == on lisp values (uncomparable dynamic types panic), no unchecked assertion, index, map write, send, function value or call out of the package - a panic there is turned into an error by the binder's recover while the lock stays held, and every later deref, swap! or reset! on the object blocks forever")
	var safeFn func(g *ssa.Function, depth int) bool
	var safe func(in ssa.Instruction, depth int) (bool, string)
	aud := &Audit{w: w, e: e}
	safe = func(in ssa.Instruction, depth int) (bool, string) {
		switch x := in.(type) {
		case *ssa.TypeAssert:
			if !x.CommaOk {
				if ok, _ := e.hasType(x.X, x.AssertedType, x.Block()); !ok {
					return false, "unchecked type assertion"
				}
			}
		case *ssa.IndexAddr, *ssa.Index, *ssa.Slice:
			return false, "index or slice expression"
		case *ssa.Lookup:
			if mt, ok := x.X.Type().Underlying().(*types.Map); ok && types.IsInterface(mt.Key()) {
				return false, "map lookup with a key of interface type"
			}
		case *ssa.MapUpdate:
			return false, "map write"
		case *ssa.Send:
			return false, "channel send"
		case *ssa.Panic:
			return false, "explicit panic"
		case *ssa.BinOp:
			if (x.Op == token.EQL || x.Op == token.NEQ) && types.IsInterface(x.X.Type()) && !isNilConst(x.X) && !isNilConst(x.Y) {
				okX, _ := aud.comparableValue(x.X, x.Block())
				okY, _ := aud.comparableValue(x.Y, x.Block())
				if !okX && !okY {
					return false, "comparison " + x.Op.String() + " of two lisp values (panics for two lists, maps, sets, vectors or functions)"
				}
			}
			if (x.Op == token.QUO || x.Op == token.REM) && isIntType(x.Type()) {
				if c, ok := x.Y.(*ssa.Const); !ok || c.Value == nil || constant.Sign(c.Value) == 0 {
					return false, "integer division"
				}
			}
		case ssa.CallInstruction:
			if _, isDefer := in.(*ssa.Defer); isDefer {
				return true, ""
			}
			c := x.Common()
			if _, isB := c.Value.(*ssa.Builtin); isB {
				return true, ""
			}
			if _, ok := e.mutexOp(c); ok {
				return true, ""
			}
			g := c.StaticCallee()
			if g == nil {
				return false, "call of a function value or interface method"
			}
			if depth > 2 || !safeFn(g, depth+1) {
				return false, "call of " + g.Name() + ", which may panic"
			}
		}
		return true, ""
	}
	memo := map[*ssa.Function]int{}
	safeFn = func(g *ssa.Function, depth int) bool {
		if v, ok := memo[g]; ok {
			return v == 1
		}
		memo[g] = 1 // optimistic for recursion
		if !inModule(g) || len(g.Blocks) == 0 {
			memo[g] = 2
			return false
		}
		for _, b := range g.Blocks {
			for _, in := range b.Instrs {
				if ok, _ := safe(in, depth); !ok {
					memo[g] = 2
					return false
				}
			}
		}
		return true
	}
	n := 0
	for _, fn := range fns {
		li := e.locks(fn)
		for _, b := range fn.Blocks {
			for _, in := range b.Instrs {
				held := li.before[in]
				plain := ""
				for k := range held {
					if !li.deferred[k] {
						plain = k
					}
				}
				if plain == "" {
					continue
				}
				if _, dbg := in.(*ssa.DebugRef); dbg {
					continue
				}
				n++
				if ok, what := safe(in, 0); !ok {
					r.bad(rule, fn, what+" under "+plain, in.Pos(), "executed while "+plain+" is held and released only by a plain Unlock further down: if it panics the lock is never released (the binder's recover turns the panic into an error), and every later operation on the object blocks forever")
				}
			}
		}
	}
	r.add(rule, nil, "instructions executed under plainly released locks", token.NoPos, "ok", fmt.Sprintf("%d instructions examined", n))
}

// constructorRule: (atom x) makes a new reference object holding x, whatever x is.
func atomConstructorRule(w *World, r *Report, e *Engine, rule string) {
	r.rule(rule, "the atom builtin returns, on every path without error, an Atom allocated in that call whose value field was assigned the argument: an argument that is itself an atom (or anything else) is stored, never handed back in place of a new object - two atoms are two objects with two states")
	fn := w.builtin("atom")
	if fn == nil {
		r.undecided(rule, nil, "atom builtin", token.NoPos, "the function registered as atom no longer resolves")
		return
	}
	n := 0
	var freshAtom func(v ssa.Value, arg ssa.Value, depth int) (bool, string)
	freshAtom = func(v ssa.Value, arg ssa.Value, depth int) (bool, string) {
		if depth > 4 {
			return false, "too deep"
		}
		switch x := v.(type) {
		case *ssa.MakeInterface:
			return freshAtom(x.X, arg, depth+1)
		case *ssa.ChangeType:
			return freshAtom(x.X, arg, depth+1)
		case *ssa.Phi:
			for _, ed := range x.Edges {
				if ok, why := freshAtom(ed, arg, depth+1); !ok {
					return false, why
				}
			}
			return true, ""
		case *ssa.Alloc:
			if _, name, ok := w.namedStruct(x.Type()); !ok || name != "Atom" {
				return false, "allocation of something else"
			}
			for _, ref := range *x.Referrers() {
				if fa, ok := ref.(*ssa.FieldAddr); ok && fieldName(fa.X.Type(), fa.Field) == "Val" {
					for _, u := range *fa.Referrers() {
						if st, ok := u.(*ssa.Store); ok && st.Addr == ssa.Value(fa) && st.Val == arg {
							return true, ""
						}
					}
				}
			}
			return false, "the new atom's value is not the argument"
		case *ssa.Call:
			g := x.Call.StaticCallee()
			if g == nil || !inModule(g) || len(g.Blocks) == 0 {
				return false, "result of " + describeVal(e, v, 0)
			}
			ai := -1
			for i, a := range x.Call.Args {
				if a == arg {
					ai = i
				}
			}
			if ai < 0 || ai >= len(g.Params) {
				return false, "the constructor helper is not given the argument"
			}
			for _, rt := range (&evalModel{}).returns(g) {
				if ok, why := freshAtom(rt[1].(ssa.Value), g.Params[ai], depth+1); !ok {
					return false, why
				}
			}
			return true, ""
		}
		return false, describeVal(e, v, 0) + " is not a newly allocated atom"
	}
	for _, rt := range (&evalModel{}).returns(fn) {
		ret := rt[0].(*ssa.Return)
		if len(ret.Results) == 2 {
			if ev, _ := rt[2].(ssa.Value); ev != nil && !isNilConst(ev) {
				continue
			}
		}
		if len(fn.Params) == 0 {
			continue
		}
		n++
		ok, why := freshAtom(rt[1].(ssa.Value), fn.Params[len(fn.Params)-1], 0)
		r.check(ok, rule, fn, "value returned by the atom builtin", ret.Pos(), "a newly allocated Atom holding the argument", "the atom builtin does not make a new object holding its argument on this path ("+why+"): what programs take for two atoms is one object, updates on one show on the other and deref of the outer one never returns the installed value")
	}
	r.floor(rule, "returns of the atom builtin", n, 1)
}

// setTotalRule: def and let bind through the scope's Set / SetNT.  Binding is total: whatever the name, the
// value is stored - on every path to a return, with the name's own spelling as key and the value as given.
func setTotalRule(w *World, r *Report, e *Engine, rule string) {
	r.rule(rule, "the scope methods that bind a name (the methods of Env taking a symbol and a value: Set, SetNT) store the value under the symbol's own name on every path to a return, directly or by calling another such method: no name is skipped, renamed or bound conditionally (def and let bind every symbol, _ included)")
	symT := w.ByPath[modPath+"/types"].Types.Scope().Lookup("Symbol")
	if symT == nil {
		r.undecided(rule, nil, "types.Symbol", token.NoPos, "type no longer resolves")
		return
	}
	var setters []*ssa.Function
	for _, fn := range w.pkgFuncs("env") {
		if fn.Signature.Recv() == nil || fn.Parent() != nil || len(fn.Params) != 3 || len(fn.Blocks) == 0 {
			continue
		}
		if _, name, ok := w.namedStruct(fn.Signature.Recv().Type()); !ok || name != "Env" {
			continue
		}
		if !types.Identical(fn.Params[1].Type(), symT.Type()) || !types.IsInterface(fn.Params[2].Type()) {
			continue
		}
		setters = append(setters, fn)
	}
	// isName: v is the name of the symbol keyV (keyV itself when it is already a string)
	isName := func(v, keyV ssa.Value) bool {
		if v == keyV {
			return isBasic(keyV.Type(), types.String)
		}
		switch k := v.(type) {
		case *ssa.Field:
			return k.X == keyV && fieldName(k.X.Type(), k.Field) == "Val"
		case *ssa.UnOp:
			if fa, ok := k.X.(*ssa.FieldAddr); ok && fieldName(fa.X.Type(), fa.Field) == "Val" {
				if ld, ok := fa.X.(*ssa.Alloc); ok {
					// the spilled symbol parameter: its one store is the parameter itself
					nst, hit := 0, false
					for _, ref := range *ld.Referrers() {
						if st, ok := ref.(*ssa.Store); ok && st.Addr == ssa.Value(ld) {
							nst++
							hit = st.Val == keyV
						}
					}
					return hit && nst == 1
				}
			}
		}
		return false
	}
	// storesOf: the instructions of fn that store valV under the name of keyV - a write into a table, or a call of
	// a function of the package that does so on every path to its return
	var storesOf func(fn *ssa.Function, keyV, valV ssa.Value, depth int) []ssa.Instruction
	var always func(g *ssa.Function, ki, vi int, depth int) bool
	storesOf = func(fn *ssa.Function, keyV, valV ssa.Value, depth int) []ssa.Instruction {
		var out []ssa.Instruction
		for _, b := range fn.Blocks {
			for _, in := range b.Instrs {
				switch x := in.(type) {
				case *ssa.MapUpdate:
					if isName(x.Key, keyV) && stripConv(x.Value) == valV {
						out = append(out, x)
					}
				case *ssa.Call:
					g := x.Call.StaticCallee()
					if g == nil || g == fn || g.Pkg != fn.Pkg || len(g.Blocks) == 0 || depth > 2 {
						continue
					}
					ki, vi := -1, -1
					for i, a := range x.Call.Args {
						if a == keyV || isName(a, keyV) {
							ki = i
						}
						if stripConv(a) == valV {
							vi = i
						}
					}
					if ki >= 0 && vi >= 0 && ki < len(g.Params) && vi < len(g.Params) && always(g, ki, vi, depth+1) {
						out = append(out, x)
					}
				}
			}
		}
		return out
	}
	domAll := func(fn *ssa.Function, stores []ssa.Instruction, report func(ret *ssa.Return, done bool)) bool {
		all := true
		for _, b := range fn.Blocks {
			if len(b.Instrs) == 0 || b == fn.Recover {
				continue
			}
			ret, ok := b.Instrs[len(b.Instrs)-1].(*ssa.Return)
			if !ok {
				continue
			}
			done := false
			for _, st := range stores {
				if st.Block() == b || st.Block().Dominates(b) {
					done = true
				}
			}
			if report != nil {
				report(ret, done)
			}
			all = all && done
		}
		return all
	}
	always = func(g *ssa.Function, ki, vi int, depth int) bool {
		return domAll(g, storesOf(g, g.Params[ki], g.Params[vi], depth), nil)
	}
	for _, fn := range setters {
		stores := storesOf(fn, fn.Params[1], fn.Params[2], 0)
		domAll(fn, stores, func(ret *ssa.Return, done bool) {
			r.check(done, rule, fn, "return of "+fn.Name(), ret.Pos(), "the value was stored under the symbol's name", "this return can be reached without the value having been stored under the name it was given (a name treated specially, a condition on the value): def or let of that name evaluates the expression and binds nothing, so the next use of the name finds an outer binding or none")
		})
	}
	r.floor(rule, "binding methods of Env", len(setters), 2)
}

func stripConv(v ssa.Value) ssa.Value {
	for {
		switch x := v.(type) {
		case *ssa.ChangeType:
			v = x.X
		case *ssa.ChangeInterface:
			v = x.X
		case *ssa.MakeInterface:
			v = x.X
		default:
			return v
		}
	}
}

// scannerConfigRule: what one token is - where a symbol or keyword name ends, what is white space, which token
// kinds exist - is decided by the scanner's own rules, which the printer's verbatim output of names relies on.
// The reader hands the scanner its text (and a file name) and leaves those rules as Init set them.
func scannerConfigRule(w *World, r *Report, rule string) {
	r.rule(rule, "the reader leaves the token rules of the scanner as its Init set them: no function of the module assigns the scanner's Mode, Whitespace or IsIdentRune (a home-made identifier rule that differs from the scanner's for some character - a non-ASCII digit, say - cuts names the printer writes in one piece)")
	n := 0
	for _, fn := range w.Funcs {
		if isTestFunc(w, fn) || !inModule(fn) {
			continue
		}
		for _, b := range fn.Blocks {
			for _, in := range b.Instrs {
				st, ok := in.(*ssa.Store)
				if !ok {
					continue
				}
				fa, ok := st.Addr.(*ssa.FieldAddr)
				if !ok {
					continue
				}
				t := fa.X.Type()
				if p, ok := t.Underlying().(*types.Pointer); ok {
					t = p.Elem()
				}
				nt, ok := t.(*types.Named)
				if !ok || nt.Obj().Name() != "Scanner" || nt.Obj().Pkg() == nil || !strings.HasSuffix(nt.Obj().Pkg().Path(), "scanner") {
					continue
				}
				n++
				switch name := fieldName(fa.X.Type(), fa.Field); name {
				case "Mode", "Whitespace", "IsIdentRune":
					r.bad(rule, fn, "assignment to the scanner's "+name, st.Pos(), "the reader replaces the scanner's "+name+": what counts as one token is no longer what the scanner's own rules say, and names, numbers or strings the printer writes in one piece can be cut differently when read back")
				default:
					r.ok(rule, fn, "assignment to the scanner's "+name, st.Pos(), "not a token rule")
				}
			}
		}
	}
	r.add(rule, nil, "assignments to fields of the scanner", token.NoPos, "ok", fmt.Sprintf("%d examined", n))
}

// literalTableRule: the few identifiers the reader does not read as symbols (nil, true, false) are exactly the
// spellings the printer writes for those values. Any further spelling read as a value takes a name away from
// the symbols: the symbol so named is printed under its name and comes back as something else.
func literalTableRule(w *World, r *Report, e *Engine, rule string) {
	r.rule(rule, "an identifier token is read as a value other than a symbol only when it is spelled as the printer spells that value: nil for nil (the printer's own constant), true and false for the booleans (Go's formatting); every other identifier is a symbol of that name, so every symbol reads back as itself")
	ra := w.Fn("reader", "read_atom")
	pr := w.Fn("printer", "Pr_str")
	if ra == nil || pr == nil {
		r.undecided(rule, nil, "read_atom / Pr_str", token.NoPos, "functions no longer resolve")
		return
	}
	// the printer's spelling of nil: the constant returned where the printed object was compared with nil
	printerNil := ""
	for _, rt := range (&evalModel{}).returns(pr) {
		ret := rt[0].(*ssa.Return)
		c, ok := ret.Results[0].(*ssa.Const)
		if !ok || c.Value == nil || c.Value.Kind() != constant.String {
			continue
		}
		for _, a := range knownConds(ret.Block()) {
			if bo, ok := a.v.(*ssa.BinOp); ok && a.pol && bo.Op == token.EQL && isNilConst(bo.Y) && stripConv(bo.X) == ssa.Value(pr.Params[0]) {
				printerNil = constant.StringVal(c.Value)
			}
		}
	}
	if printerNil == "" {
		r.undecided(rule, pr, "spelling of nil", pr.Pos(), "no constant returned by the printer under a comparison of the object with nil")
		return
	}
	n := 0
	for _, f := range w.withPkgHelpers(ra) {
		for _, rt := range (&evalModel{}).returns(f) {
			ret := rt[0].(*ssa.Return)
			if len(ret.Results) < 2 {
				continue
			}
			// a successful answer: a nil error, or the ok flag of a helper that looks the identifier up
			last := resolveRet(ret.Results[len(ret.Results)-1])
			okFlag := false
			if c, isC := last.(*ssa.Const); isC && c.Value != nil && c.Value.Kind() == constant.Bool && constant.BoolVal(c.Value) {
				okFlag = true
			}
			if !(isErrorType(last.Type()) && isNilConst(last)) && !okFlag {
				continue
			}
			// the value returned: nil, or a boolean constant
			v := resolveRet(ret.Results[0])
			want := ""
			switch {
			case isNilConst(v):
				want = printerNil
			default:
				if mi, ok := v.(*ssa.MakeInterface); ok {
					if c, ok := mi.X.(*ssa.Const); ok && c.Value != nil && c.Value.Kind() == constant.Bool {
						want = c.Value.String()
					}
				}
			}
			if want == "" {
				continue
			}
			// the spellings under which this return is reached: every comparison of a string with a constant whose
			// true edge leads (through empty blocks) to the returning block
			var spellings []string
			for _, d := range f.Blocks {
				iff := blockIf(d)
				if iff == nil {
					continue
				}
				_, s, ok := strEq(iff.Cond)
				if !ok {
					continue
				}
				t := d.Succs[0]
				for i := 0; i < 4 && t != ret.Block() && len(t.Instrs) == 1 && len(t.Succs) == 1; i++ {
					t = t.Succs[0]
				}
				if t == ret.Block() {
					spellings = append(spellings, s)
				}
			}
			for _, s := range spellings {
				n++
				r.check(s == want, rule, f, fmt.Sprintf("identifier %q read as %s", s, want), ret.Pos(), "the printer's spelling of that value", fmt.Sprintf("the identifier %q is read as the value the printer writes %q: the symbol named %s is printed as %s and read back as that value, not as the symbol", s, want, s, s))
			}
		}
	}
	// ... or the identifiers are looked up in a table of the package (var literals = map[string]MalType{...})
	for _, f := range w.withPkgHelpers(ra) {
		for _, b := range f.Blocks {
			for _, in := range b.Instrs {
				lk, ok := in.(*ssa.Lookup)
				if !ok {
					continue
				}
				ld, ok := lk.X.(*ssa.UnOp)
				if !ok {
					continue
				}
				g, ok := ld.X.(*ssa.Global)
				if !ok || g.Pkg != f.Pkg {
					continue
				}
				mt, ok := lk.X.Type().Underlying().(*types.Map)
				if !ok || !isBasic(mt.Key(), types.String) || !types.IsInterface(mt.Elem()) {
					continue
				}
				// the one table stored into the variable by the package initialiser, and what was put into it
				initFn := f.Pkg.Func("init")
				if initFn == nil {
					continue
				}
				for _, ib := range initFn.Blocks {
					for _, iin := range ib.Instrs {
						st, ok := iin.(*ssa.Store)
						if !ok || st.Addr != ssa.Value(g) || st.Val.Referrers() == nil {
							continue
						}
						for _, ref := range *st.Val.Referrers() {
							mu, ok := ref.(*ssa.MapUpdate)
							if !ok || mu.Map != st.Val {
								continue
							}
							key, isK := constString(mu.Key)
							if !isK {
								r.bad(rule, initFn, "entry of the table of literal identifiers", mu.Pos(), "the table of identifiers read as values has a key that is not a constant: which names are taken away from the symbols cannot be told")
								continue
							}
							n++
							want := "?"
							switch {
							case isNilConst(mu.Value):
								want = printerNil
							default:
								if mi, ok := mu.Value.(*ssa.MakeInterface); ok {
									if c, ok := mi.X.(*ssa.Const); ok && c.Value != nil && c.Value.Kind() == constant.Bool {
										want = c.Value.String()
									}
								}
							}
							r.check(key == want, rule, f, fmt.Sprintf("identifier %q read as a value (table)", key), mu.Pos(), "the printer's spelling of that value", fmt.Sprintf("the identifier %q is read as a value the printer writes %q (or not as a bare word at all): the symbol named %s is printed as %s and read back as that value, not as the symbol", key, want, key, key))
						}
					}
				}
			}
		}
	}
	r.floor(rule, "identifiers read as values", n, 3)
}

// readersWriteNothingRule: the methods of a reference object that never take its write lock (deref, printing,
// status) are its readers. A reader changes nothing of the object: no store to a field, and no call of a mutating
// method of sync/atomic (Store, Swap, CompareAndSwap, Add, And, Or) on one of its fields - a flag of the object
// set by one reader changes what another evaluation's concurrent read of the same object answers.
func readersWriteNothingRule(w *World, r *Report, e *Engine, rule, typeName, muField string) {
	r.rule(rule, "the methods of "+typeName+" that never hold its write lock change nothing of the object: no field store and no mutating sync/atomic operation on a field of the receiver (state kept on the object by a reader - a 'being printed' flag - is shared by every evaluation that reads the object at the same time, and makes one of them answer for the other)")
	n := 0
	for _, fn := range w.pkgFuncs("lib/concurrent") {
		if fn.Signature.Recv() == nil || fn.Parent() != nil || len(fn.Blocks) == 0 {
			continue
		}
		if _, name, ok := w.namedStruct(fn.Signature.Recv().Type()); !ok || name != typeName {
			continue
		}
		li := e.locks(fn)
		writer := false
		for _, op := range li.acquires {
			if op.mode == 2 && strings.HasSuffix(op.key, "."+muField) {
				writer = true
			}
		}
		if writer {
			continue
		}
		// a method that is only ever called with the write lock held (Set) is part of its callers
		heldByCallers := true
		sites := e.callSites(fn)
		for _, site := range sites {
			held := false
			for k, mode := range e.locks(site.Parent()).before[site] {
				if mode == 2 && strings.HasSuffix(k, "."+muField) {
					held = true
				}
			}
			if !held {
				heldByCallers = false
			}
		}
		if len(sites) > 0 && heldByCallers {
			continue
		}
		n++
		recv := ssa.Value(fn.Params[0])
		onRecv := func(addr ssa.Value) (string, bool) {
			fa, ok := addr.(*ssa.FieldAddr)
			if !ok || fa.X != recv {
				return "", false
			}
			return fieldName(fa.X.Type(), fa.Field), true
		}
		clean := true
		for _, b := range fn.Blocks {
			for _, in := range b.Instrs {
				switch x := in.(type) {
				case *ssa.Store:
					if f, ok := onRecv(x.Addr); ok {
						clean = false
						r.bad(rule, fn, "store to "+typeName+"."+f, x.Pos(), "a method that never takes the write lock of the "+typeName+" assigns one of its fields: concurrent readers of the object see and overwrite each other's state")
					}
				case ssa.CallInstruction:
					c := x.Common()
					sc := c.StaticCallee()
					if sc == nil || sc.Pkg == nil || sc.Pkg.Pkg.Path() != "sync/atomic" || len(c.Args) == 0 {
						continue
					}
					switch sc.Name() {
					case "Store", "Swap", "CompareAndSwap", "Add", "And", "Or":
						if f, ok := onRecv(c.Args[0]); ok {
							clean = false
							r.bad(rule, fn, "atomic "+sc.Name()+" on "+typeName+"."+f, x.Pos(), "a method that never takes the write lock of the "+typeName+" changes a flag kept on the object: while one evaluation is inside this method every other evaluation that reads the same object gets a different answer from the one it gets alone")
						}
					}
				}
			}
		}
		if clean {
			r.ok(rule, fn, "reader "+fn.Name(), fn.Pos(), "writes nothing of its receiver")
		}
	}
	r.floor(rule, "reader methods of "+typeName, n, 2)
}

// allArgumentsRule: a variadic collection builtin that answers from some of its arguments only does so where it
// has made sure there are no more: an answer made from a[0] alone stands under a test that bounds len(a) to 1.
// Otherwise surplus arguments (an odd key without value, keys after an object) are silently dropped where the
// definition prescribes an error.
func allArgumentsRule(w *World, r *Report, e *Engine, rule string) {
	r.rule(rule, "in the variadic builtins of lib/core (func(a ...MalType)) every answer without error that is computed directly from individually indexed arguments (a call or method call on a[0], a[1] ... - not from the argument list as a whole, and not a value assembled in local variables) is given where the number of arguments is known not to exceed the highest index used: no builtin answers from its first argument and ignores the rest")
	n := 0
	for _, fn := range w.registeredFuncs() {
		if !strings.HasPrefix(fnPkgPath(fn), modPath+"/lib/core") || len(fn.Params) == 0 || len(fn.Blocks) == 0 || !fn.Signature.Variadic() {
			continue
		}
		a := fn.Params[len(fn.Params)-1]
		sl, ok := a.Type().Underlying().(*types.Slice)
		if !ok || !isMalType(sl.Elem()) {
			continue
		}
		for _, rt := range (&evalModel{}).returns(fn) {
			ret := rt[0].(*ssa.Return)
			if len(ret.Results) == 2 {
				// skip the returns that certainly report an error (a constructed error); an error handed on
				// from a callee may be nil
				ev, _ := rt[2].(ssa.Value)
				if ev != nil && !isNilConst(ev) {
					if _, isMI := ev.(*ssa.MakeInterface); isMI {
						continue
					}
					if c, isCall := ev.(*ssa.Call); isCall {
						if sc := c.Call.StaticCallee(); sc != nil && (fnPkgPath(sc) == "errors" || fnPkgPath(sc) == "fmt" || strings.HasSuffix(fnPkgPath(sc), "/lisperror")) {
							continue
						}
					}
				}
			}
			// backward slice of the value returned
			whole, maxIdx := false, int64(-1)
			seen := map[ssa.Value]bool{}
			var walk func(v ssa.Value, depth int)
			walk = func(v ssa.Value, depth int) {
				if v == nil || seen[v] || depth > 12 || whole {
					return
				}
				seen[v] = true
				if v == ssa.Value(a) {
					whole = true
					return
				}
				switch x := v.(type) {
				case *ssa.UnOp:
					if ia, ok := x.X.(*ssa.IndexAddr); ok && ia.X == ssa.Value(a) {
						if k, ok := ia.Index.(*ssa.Const); ok && k.Value != nil {
							if k.Int64() > maxIdx {
								maxIdx = k.Int64()
							}
							return
						}
						whole = true // a computed index ranges over the list
						return
					}
					walk(x.X, depth+1)
				case *ssa.Phi:
					for _, ed := range x.Edges {
						walk(ed, depth+1)
					}
				case *ssa.Alloc:
					// a local composite or variable: what it holds when the answer is made is not followed here
					// (elements added in loops, fields set one by one); such answers are not judged
					whole = true
				case *ssa.Extract:
					walk(x.Tuple, depth+1)
				case *ssa.Call:
					if !x.Call.IsInvoke() {
						if _, isFn := x.Call.Value.(*ssa.Function); !isFn {
							walk(x.Call.Value, depth+1)
						}
					} else {
						walk(x.Call.Value, depth+1)
					}
					for _, arg := range x.Call.Args {
						walk(arg, depth+1)
					}
				default:
					if in, ok := v.(ssa.Instruction); ok {
						for _, op := range in.Operands(nil) {
							if *op != nil {
								walk(*op, depth+1)
							}
						}
					}
				}
			}
			walk(resolveRet(ret.Results[0]), 0)
			if whole || maxIdx < 0 {
				continue
			}
			n++
			lt := Term{Kind: 1, K: e.keyOf(a)}
			bd := e.buildGraph(e.holding(ret.Block()), nil).boundWith(lt, Term{})
			okLen := bd <= maxIdx+1
			why := "best bound len(a) <= " + fmtInf(bd)
			r.check(okLen, rule, fn, fmt.Sprintf("answer made from the arguments up to a[%d] only", maxIdx), ret.Pos(), fmt.Sprintf("given only where len(a) <= %d", maxIdx+1), fmt.Sprintf("the builtin answers from its first %d argument(s) on a path where more may have been passed (%s): the surplus arguments are ignored where the call is outside the builtin's domain and has to fail", maxIdx+1, why))
		}
	}
	r.add(rule, nil, "answers made from indexed arguments only", token.NoPos, "ok", fmt.Sprintf("%d examined", n))
}

// lnotationVerbatimRule: the L-notation constructors build the form a text would have been read as, from Go
// values that already are what the form contains: a name, key or member given as a Go string is stored as that
// string. A constructor that interprets the string (":on" as a keyword, "$x" as a placeholder) builds another
// form than the reader builds for the text that spells the same string.
func lnotationVerbatimRule(w *World, r *Report, e *Engine, rule string) {
	r.rule(rule, "the L-notation constructors store the strings they are given (symbol names, map keys, set members) as given: every string written into the result is a parameter, an element or key of a parameter, or such a value handed on - never the result of a call or of slicing (a member \":a\" given as a Go string is the string \":a\", as in the text #{\":a\"})")
	var asGiven func(v ssa.Value, depth int) bool
	asGiven = func(v ssa.Value, depth int) bool {
		if depth > 6 {
			return false
		}
		switch x := v.(type) {
		case *ssa.Parameter:
			return true
		case *ssa.Extract:
			_, isNext := x.Tuple.(*ssa.Next)
			return isNext
		case *ssa.UnOp:
			if ia, ok := x.X.(*ssa.IndexAddr); ok && x.Op == token.MUL {
				return asGiven(ia.X, depth+1)
			}
		case *ssa.Phi:
			for _, ed := range x.Edges {
				if !asGiven(ed, depth+1) {
					return false
				}
			}
			return len(x.Edges) > 0
		case *ssa.MakeInterface:
			return asGiven(x.X, depth+1)
		case *ssa.ChangeType:
			return asGiven(x.X, depth+1)
		case *ssa.TypeAssert:
			return asGiven(x.X, depth+1)
		}
		return false
	}
	n := 0
	for _, fn := range w.pkgFuncs("lnotation") {
		if isTestFunc(w, fn) {
			continue
		}
		for _, b := range fn.Blocks {
			for _, in := range b.Instrs {
				var v ssa.Value
				what := ""
				switch x := in.(type) {
				case *ssa.MapUpdate:
					if isBasic(x.Key.Type(), types.String) {
						v, what = x.Key, "key or member written into the result"
					}
				case *ssa.Store:
					if fa, ok := x.Addr.(*ssa.FieldAddr); ok && isBasic(x.Val.Type(), types.String) && fieldName(fa.X.Type(), fa.Field) == "Val" {
						v, what = x.Val, "name stored in the symbol"
					}
				}
				if v == nil {
					continue
				}
				n++
				r.check(asGiven(v, 0), rule, fn, what, in.Pos(), "the string as the caller gave it", "the constructor stores "+describeVal(e, v, 0)+", something computed from the string it was given: the form built from Go differs from the form the reader builds for the text with the same string, so the program means something else on the L-notation route")
			}
		}
	}
	r.floor(rule, "strings stored by the L-notation constructors", n, 3)
}

// nilBlindRule: the element storage of a list built from Go may be a nil slice where the reader allocates an
// empty one (L() against "()"). Nothing that runs while a program is evaluated decides by that difference.
func nilBlindRule(w *World, r *Report, e *Engine, rule string) {
	r.rule(rule, "no code that runs while programs are evaluated compares the element slice of a list or vector ([]MalType) with nil: an empty list built from Go (L() hands over a nil slice) means what the empty list the reader allocates means (emptiness is decided by len)")
	n := 0
	for _, fn := range w.Funcs {
		if isTestFunc(w, fn) || !runtimePkg(fnPkgPath(fn)) {
			continue
		}
		for _, b := range fn.Blocks {
			for _, in := range b.Instrs {
				bo, ok := in.(*ssa.BinOp)
				if !ok || (bo.Op != token.EQL && bo.Op != token.NEQ) {
					continue
				}
				var x ssa.Value
				switch {
				case isNilConst(bo.Y):
					x = bo.X
				case isNilConst(bo.X):
					x = bo.Y
				default:
					continue
				}
				// the one storage the routes differ in: L() hands over its variadic slice, nil when there are no
				// elements, where the reader and V allocate; maps are allocated by every constructor
				if sl, ok := x.Type().Underlying().(*types.Slice); !ok || !isMalType(sl.Elem()) {
					continue
				}
				n++
				// storage the function has just obtained from a call that reports failure by nil (a helper's
				// "no result" answer) is no collection of the program
				if c, ok := x.(*ssa.Call); ok && c.Call.StaticCallee() != nil {
					r.ok(rule, fn, "nil test of "+describeVal(e, x, 0), bo.Pos(), "the result of a call, not a collection of the program")
					continue
				}
				r.bad(rule, fn, "nil test of "+canonVal(e, x), bo.Pos(), "the code decides by whether the element storage of a collection is nil: a list, vector, map or set built from Go without elements (nil storage) is treated differently from the empty one the reader builds, so the same program means something else on the L-notation route")
			}
		}
	}
	r.add(rule, nil, "nil tests of element storage", token.NoPos, "ok", fmt.Sprintf("%d examined", n))
}

// typedNilResultRule: a bound Go function whose first result is a pointer hands the reader (constructors of the
// «name ...» syntax) and the evaluator a lisp value. A nil pointer returned without an error becomes a non-nil
// lisp value holding a nil pointer: it passes every nil test, and the first method called on it (printing it,
// dereferencing it) goes through the nil pointer.
func typedNilResultRule(w *World, r *Report, e *Engine, rule string) {
	r.rule(rule, "no function bound by the reflective binder whose first result is a pointer returns the nil pointer together with a nil error: the value would reach programs (and PRINT) as a non-nil lisp value wrapping a nil pointer, whose methods dereference it")
	var nilPtr func(v ssa.Value, depth int) bool
	nilPtr = func(v ssa.Value, depth int) bool {
		if depth > 5 {
			return false
		}
		switch x := v.(type) {
		case *ssa.Const:
			return x.Value == nil
		case *ssa.Phi:
			for _, ed := range x.Edges {
				if nilPtr(ed, depth+1) {
					return true
				}
			}
		case *ssa.ChangeType:
			return nilPtr(x.X, depth+1)
		}
		return false
	}
	n := 0
	for _, fn := range w.registeredFuncs() {
		res := fn.Signature.Results()
		if res.Len() != 2 || len(fn.Blocks) == 0 || !isErrorType(res.At(1).Type()) {
			continue
		}
		if _, isPtr := res.At(0).Type().Underlying().(*types.Pointer); !isPtr {
			continue
		}
		n++
		for _, rt := range (&evalModel{}).returns(fn) {
			ret := rt[0].(*ssa.Return)
			ev, _ := rt[2].(ssa.Value)
			if ev == nil || !isNilConst(ev) {
				continue
			}
			r.check(!nilPtr(resolveRet(ret.Results[0]), 0), rule, fn, "pointer returned without an error", ret.Pos(), "never the nil pointer", "the function answers with a nil "+shortType(res.At(0).Type())+" and no error: the binder boxes it into a non-nil lisp value, and whatever prints or uses that value calls a method through the nil pointer")
		}
	}
	r.floor(rule, "bound functions with a pointer result", n, 2)
}

// readerReentryRule: reading a text is one pass over its tokens: the recursion of the reader is over nested
// brackets of that one token stream, which every level shortens. A reader function that starts reading another
// text from within (a value kept as text and read on first use) opens a recursion no token stream bounds: a
// value that mentions itself never ends, and the host stack overflow that follows cannot be recovered.
func readerReentryRule(w *World, r *Report, rule string) {
	r.rule(rule, "no function that the reader's entry point (Read_str) reaches through calls inside the module calls the entry point or the tokenizer again: the reader never starts reading a second text while it is reading one (the depth of its recursion is bounded by the brackets of the one text)")
	entry := w.Fn("reader", "Read_str")
	tok := w.Fn("reader", "tokenize")
	if entry == nil || tok == nil {
		r.undecided(rule, nil, "reader.Read_str / tokenize", token.NoPos, "functions no longer resolve")
		return
	}
	reach := map[*ssa.Function]bool{}
	var visit func(f *ssa.Function)
	visit = func(f *ssa.Function) {
		if reach[f] || len(f.Blocks) == 0 || !inModule(f) || isTestFunc(w, f) {
			return
		}
		reach[f] = true
		for _, b := range f.Blocks {
			for _, in := range b.Instrs {
				if ci, ok := in.(ssa.CallInstruction); ok {
					if g := ci.Common().StaticCallee(); g != nil {
						visit(g)
					}
				}
			}
		}
		for _, an := range f.AnonFuncs {
			visit(an)
		}
	}
	// what the entry point reaches, not counting itself
	for _, b := range entry.Blocks {
		for _, in := range b.Instrs {
			if ci, ok := in.(ssa.CallInstruction); ok {
				if g := ci.Common().StaticCallee(); g != nil && g != tok {
					visit(g)
				}
			}
		}
	}
	n := 0
	var fns []*ssa.Function
	for _, f := range w.Funcs {
		if reach[f] {
			fns = append(fns, f)
		}
	}
	for _, f := range fns {
		for _, b := range f.Blocks {
			for _, in := range b.Instrs {
				ci, ok := in.(ssa.CallInstruction)
				if !ok {
					continue
				}
				g := ci.Common().StaticCallee()
				if g != entry && g != tok {
					continue
				}
				n++
				r.bad(rule, f, "call of "+g.Name()+" from inside the reader", in.Pos(), w.fnName(f)+" is reached from the reader's entry point and starts reading another text: nothing bounds that recursion (a text that leads back to itself overflows the host stack, which no recover catches)")
			}
		}
	}
	r.add(rule, nil, "functions the reader's entry point reaches", token.NoPos, "ok", fmt.Sprintf("%d functions examined, %d re-entries", len(fns), n))
	// the read-string builtin is an entry point too: a function of it that calls itself again with a text that
	// still holds the whole text it was given reads for ever when the text is rejected for the same reason again
	if rs := w.builtin("read-string"); rs != nil {
		for _, f := range w.withPkgHelpersOf(rs) {
			if f == nil || len(f.Blocks) == 0 {
				continue
			}
			for _, b := range f.Blocks {
				for _, in := range b.Instrs {
					c, ok := in.(*ssa.Call)
					if !ok || c.Call.StaticCallee() != f {
						continue
					}
					grows := false
					for i, a := range c.Call.Args {
						if i >= len(f.Params) || !isStringVal(unboxed(a)) {
							continue
						}
						for _, part := range concatParts(unboxed(a)) {
							switch src := unboxed(part).(type) {
							case *ssa.Parameter:
								grows = grows || src.Parent() == f
							case *ssa.TypeAssert:
								if p, isP := src.X.(*ssa.Parameter); isP && p.Parent() == f {
									grows = true
								}
							}
						}
					}
					if grows {
						r.bad(rule, f, "the builtin reads its own text again", c.Pos(), w.fnName(f)+" calls itself with a text that contains all of the text it was given: where the longer text is refused for the same reason the recursion never ends (read-string returns neither a form nor an error, and the stack overflow that follows cannot be recovered)")
					}
				}
			}
		}
	}
}

// variadicNotCappedRule: swap! hands the update function the current value and every further argument:
// (swap! a f x y z ...). Its Go implementation is variadic and registered without an upper bound; a declared
// maximum cuts calls with more arguments off before the update function is ever applied.
func variadicNotCappedRule(w *World, r *Report, rule string, lispNames ...string) {
	r.rule(rule, "the registrations of "+strings.Join(lispNames, ", ")+" (variadic Go functions taking any number of further arguments) declare no upper bound on the number of arguments, or the binder's 'unlimited' value: (swap! a f x y z) applies f to the current value and all of x y z")
	callB := w.Fn("lib/call", "CallOverrideFN")
	if callB == nil {
		r.undecided(rule, nil, "call.CallOverrideFN", token.NoPos, "function no longer resolves")
		return
	}
	want := map[string]bool{}
	for _, n := range lispNames {
		want[n] = true
	}
	unlimited := int64(1000)
	if pkg := w.ByPath[modPath+"/lib/call"]; pkg != nil {
		if c, ok := pkg.Types.Scope().Lookup("unlimitedArgments").(*types.Const); ok {
			if v, ok := constant.Int64Val(c.Val()); ok {
				unlimited = v
			}
		}
	}
	n := 0
	for _, fn := range w.Funcs {
		if isTestFunc(w, fn) {
			continue
		}
		for _, c := range staticCallsTo(fn, callB) {
			name, ok := constString(c.Call.Args[1])
			var bounds []ssa.Value
			if !ok {
				// the registration written as a table walked by a loop: the row that carries the name
				last := c.Call.Args[len(c.Call.Args)-1]
				rows := tableRows(c.Call.Args[1], last)
				withBounds := rows != nil
				if rows == nil {
					rows = tableRows(c.Call.Args[1])
				}
				for _, row := range rows {
					if s, isS := constString(row[0]); isS && want[s] {
						name, ok = s, true
						if withBounds && len(row) > 1 && row[1] != nil {
							bounds = sliceLiteralElems(row[1])
						} else if !withBounds {
							bounds = sliceLiteralElems(last)
						}
					}
				}
			} else {
				bounds = sliceLiteralElems(c.Call.Args[len(c.Call.Args)-1])
			}
			if !ok || !want[name] {
				continue
			}
			n++
			okB := true
			detail := "no bounds declared"
			if len(bounds) >= 2 {
				k, isK := bounds[1].(*ssa.Const)
				if !isK || k.Value == nil || k.Int64() < unlimited {
					okB = false
					detail = "a maximum of " + describeVal(nil, bounds[1], 0) + " arguments is declared"
				}
			}
			r.check(okB, rule, fn, "bounds declared for "+name, c.Pos(), "none, or the unlimited value", detail+": calls that pass more arguments to the update function are refused by the binder, so nothing is applied and nothing installed")
		}
	}
	r.floor(rule, "registrations examined", n, len(lispNames))
}

// printPureRule: the debugger's reporting prints forms and results (PRINT on every stepped-over result), and
// programs print too. Printing a value changes nothing: the printer and the LispPrint methods of the module's
// types take nothing out of a channel, send nothing, and store into no field of the value they print.
func printPureRule(w *World, r *Report, rule string) {
	r.rule(rule, "the printer and every LispPrint method of the module only read the value they print: no channel receive, send or select, no store to a field reached through the receiver or a parameter, no mutating sync/atomic operation (a future or atom whose printed form is computed by taking its outcome or setting a flag changes when a stepper - which prints every result it steps over - is installed)")
	n := 0
	fr := &freshness{w: w, retSum: map[*ssa.Function]int{}, phiBusy: map[*ssa.Phi]bool{}, fieldBusy: map[string]bool{}}
	for _, fn := range w.Funcs {
		if isTestFunc(w, fn) || !inModule(fn) || len(fn.Blocks) == 0 {
			continue
		}
		isPrinter := strings.HasSuffix(fnPkgPath(fn), "/printer") || (fn.Signature.Recv() != nil && fn.Name() == "LispPrint")
		if !isPrinter {
			continue
		}
		n++
		clean := true
		bad := func(in ssa.Instruction, what string) {
			clean = false
			r.bad(rule, fn, what, in.Pos(), "printing is not a pure reading of the value: "+what+" in "+w.fnName(fn)+" changes the value (or what other readers of it get) whenever it is printed, and a stepper prints every result it steps over")
		}
		fromOutside := func(addr ssa.Value) bool {
			for i := 0; i < 6; i++ {
				switch x := addr.(type) {
				case *ssa.FieldAddr:
					addr = x.X
				case *ssa.IndexAddr:
					addr = x.X
				case *ssa.UnOp:
					addr = x.X
				case *ssa.Parameter, *ssa.FreeVar, *ssa.Global:
					return true
				default:
					return false
				}
			}
			return false
		}
		for _, b := range fn.Blocks {
			for _, in := range b.Instrs {
				switch x := in.(type) {
				case *ssa.Select:
					if len(x.States) > 0 {
						bad(in, "a select on channels")
					}
				case *ssa.Send:
					bad(in, "a channel send")
				case *ssa.UnOp:
					if x.Op == token.ARROW {
						bad(in, "a channel receive")
					}
				case *ssa.Store:
					if _, isField := x.Addr.(*ssa.FieldAddr); isField && fromOutside(x.Addr) {
						bad(in, "a store to a field of the value")
					}
					if ia, isElem := x.Addr.(*ssa.IndexAddr); isElem && lispContainer(ia.X.Type()) {
						if ok, _ := fr.fresh(ia.X, 0); !ok {
							bad(in, "a store into the elements of the value")
						}
					}
				case *ssa.MapUpdate:
					if lispContainer(x.Map.Type()) {
						if ok, _ := fr.fresh(x.Map, 0); !ok {
							bad(in, "an entry written into the map of the value")
						}
					}
				case ssa.CallInstruction:
					c := x.Common()
					if bi, ok := c.Value.(*ssa.Builtin); ok && (bi.Name() == "delete" || bi.Name() == "clear") && len(c.Args) > 0 && lispContainer(c.Args[0].Type()) {
						if ok, _ := fr.fresh(c.Args[0], 0); !ok {
							bad(in, "an entry removed from the map of the value")
						}
					}
					if sc := c.StaticCallee(); sc != nil && sc.Pkg != nil && sc.Pkg.Pkg.Path() == "sync/atomic" {
						switch sc.Name() {
						case "Store", "Swap", "CompareAndSwap", "Add", "And", "Or":
							bad(in, "an atomic "+sc.Name())
						}
					}
				}
			}
		}
		if clean {
			r.ok(rule, fn, "printing function "+fn.Name(), fn.Pos(), "reads only")
		}
	}
	r.floor(rule, "printing functions of the module", n, 4)
}

// readStringCursorRule: load-file reads a file by handing read-string a text that starts with ';; $MODULE <file>':
// the reader takes the module name from that line only when the cursor it is given names no module. The
// read-string builtin therefore reads under no cursor of its own.
func readStringCursorRule(w *World, r *Report, rule string) {
	r.rule(rule, "the read-string builtin hands the reader no cursor of its own (nil): the module a text read at run time belongs to is the one its ';; $MODULE' first line names - which is how load-file gives the forms of a file the file's name - and is not overridden by a fixed name")
	fn := w.builtin("read-string")
	rs := w.Fn("reader", "Read_str")
	if fn == nil || rs == nil {
		r.undecided(rule, nil, "read-string builtin / reader.Read_str", token.NoPos, "functions no longer resolve")
		return
	}
	n := 0
	for _, f := range w.withPkgHelpers(fn) {
		for _, c := range staticCallsTo(f, rs) {
			if len(c.Call.Args) < 2 {
				continue
			}
			n++
			r.check(isNilConst(c.Call.Args[1]), rule, f, "cursor handed to the reader by read-string", c.Pos(), "nil", "read-string reads under a cursor of its own ("+describeVal(nil, c.Call.Args[1], 0)+"): the module named by the text's ';; $MODULE' line is ignored, so every error in a file loaded with load-file is reported in that fixed module instead of the file")
		}
	}
	r.floor(rule, "calls of the reader by the read-string builtin", n, 1)
}

// applyVerbatimRule: types.Apply is the second way into a bound function (apply, map, update, swap! call it).
// What the bound function answered - value, error result, or the error made from its panic - is what Apply
// answers: after the call of the function value every return hands back that call's own two results.
func applyVerbatimRule(w *World, r *Report, e *Engine, rule string) {
	r.rule(rule, "in types.Apply every return that follows the call of a Go function value (Func.Fn, a bare func) returns that call's value and error as they are: the error a bound function returned, or the one made from its panic, is not replaced on the way (by a uniform message, say), so errors.Is / errors.As still reach the original through apply, map, update and swap!")
	ap := w.Fn("types", "Apply")
	if ap == nil {
		r.undecided(rule, nil, "types.Apply", token.NoPos, "function no longer resolves")
		return
	}
	n := 0
	for _, b := range ap.Blocks {
		for _, in := range b.Instrs {
			c, ok := in.(*ssa.Call)
			if !ok || c.Call.StaticCallee() != nil || c.Call.IsInvoke() {
				continue
			}
			if _, isB := c.Call.Value.(*ssa.Builtin); isB {
				continue
			}
			if res := c.Call.Signature().Results(); res.Len() != 2 || !isMalType(res.At(0).Type()) || !isErrorType(res.At(1).Type()) {
				continue
			}
			n++
			for _, rt := range (&evalModel{}).returns(ap) {
				ret := rt[0].(*ssa.Return)
				if !(ret.Block() == b || b.Dominates(ret.Block())) {
					continue
				}
				v0, _ := rt[1].(ssa.Value)
				v1, _ := rt[2].(ssa.Value)
				e0, ok0 := v0.(*ssa.Extract)
				e1, ok1 := v1.(*ssa.Extract)
				verbatim := ok0 && ok1 && e0.Tuple == ssa.Value(c) && e1.Tuple == ssa.Value(c) && e0.Index == 0 && e1.Index == 1
				r.check(verbatim, rule, ap, "results handed back after the call of a Go function value", ret.Pos(), "the call's own value and error", "Apply answers with ("+describeVal(e, v0, 0)+", "+describeVal(e, v1, 0)+") instead of what the function it called answered: an error result or converted panic of a bound function reached through apply, map, update or swap! no longer wraps the original")
			}
		}
	}
	r.floor(rule, "calls of Go function values in Apply", n, 2)
}

// readStringTotalRule: read-string is the reader applied to a text. Which texts are read is the reader's business:
// the builtin hands its argument over without looking at what the text says (a test of the text's first
// characters - the keyword marker, say - refuses texts the printer writes for values the reader would read back).
func readStringTotalRule(w *World, r *Report, rule string) {
	r.rule(rule, "the read-string builtin (and the functions of its package it is built from) passes its argument to no function but the reader's entry point: no predicate or string function is asked about the text before it is read, so every text the printer can write is read")
	fn := w.builtin("read-string")
	rs := w.Fn("reader", "Read_str")
	if fn == nil || rs == nil {
		r.undecided(rule, nil, "read-string builtin / Read_str", token.NoPos, "function no longer resolves")
		return
	}
	n := 0
	for _, f := range w.withPkgHelpersOf(fn) {
		if f == nil || len(f.Params) == 0 {
			continue
		}
		fromArg := func(v ssa.Value) bool {
			for depth := 0; depth < 5; depth++ {
				switch x := v.(type) {
				case *ssa.Parameter:
					return x.Parent() == f && isMalType(x.Type())
				case *ssa.TypeAssert:
					v = x.X
				case *ssa.Extract:
					v = x.Tuple
				case *ssa.MakeInterface:
					v = x.X
				case *ssa.ChangeInterface:
					v = x.X
				default:
					return false
				}
			}
			return false
		}
		for _, b := range f.Blocks {
			for _, in := range b.Instrs {
				c, ok := in.(*ssa.Call)
				if !ok || c.Call.StaticCallee() == nil {
					continue
				}
				uses := false
				for _, a := range c.Call.Args {
					if fromArg(a) {
						uses = true
					}
				}
				if !uses {
					continue
				}
				n++
				callee := c.Call.StaticCallee()
				okCall := callee == rs || (callee.Pkg == f.Pkg && callee != f && len(callee.Blocks) > 0) || fnPkgPath(callee) == "fmt" || fnPkgPath(callee) == modPath+"/printer"
				r.check(okCall, rule, f, "function the text is handed to", c.Pos(), "the reader's entry point (or a function of the builtin's own package on the way there)", "the builtin asks "+callee.Name()+" about its argument before reading it: texts are refused by a test of their content that is not the reader's (a printed symbol or keyword text that starts with the keyword marker is no string for String_Q)")
			}
		}
	}
	r.floor(rule, "calls that are handed the text", n, 1)
}

// argLoopCompleteRule: a variadic collection builtin that walks its argument list walks all of it: the loop
// over the arguments is left before the last one only by a return, or on an error. A loop that is left on a
// property of one argument (an empty one, a nil) and then answers from what it has so far drops the arguments
// behind it.
func argLoopCompleteRule(w *World, r *Report, rule string) {
	r.rule(rule, "in the variadic builtins of lib/core (func(a ...MalType)) a loop bounded by len(a) is left for the code behind it only from its header (all arguments seen) or under a test of an error: no break on a property of a single argument, after which the answer is made from the arguments before it")
	n := 0
	for _, fn := range w.registeredFuncs() {
		if !strings.HasPrefix(fnPkgPath(fn), modPath+"/lib/core") || len(fn.Params) == 0 || len(fn.Blocks) == 0 || !fn.Signature.Variadic() {
			continue
		}
		a := fn.Params[len(fn.Params)-1]
		sl, ok := a.Type().Underlying().(*types.Slice)
		if !ok || !isMalType(sl.Elem()) {
			continue
		}
		isLenA := func(v ssa.Value) bool {
			c, ok := v.(*ssa.Call)
			if !ok {
				return false
			}
			b, ok := c.Call.Value.(*ssa.Builtin)
			return ok && b.Name() == "len" && len(c.Call.Args) == 1 && c.Call.Args[0] == ssa.Value(a)
		}
		for _, l := range naturalLoops(fn) {
			iff := blockIf(l.header)
			if iff == nil {
				continue
			}
			bo, ok := iff.Cond.(*ssa.BinOp)
			if !ok || !(isLenA(bo.X) || isLenA(bo.Y)) {
				continue
			}
			blocks := loopBlocks(l)
			var exit *ssa.BasicBlock
			for _, s := range l.header.Succs {
				if !blocks[s] {
					exit = s
				}
			}
			if exit == nil {
				continue
			}
			n++
			clean := true
			for _, p := range exit.Preds {
				if p == l.header || !blocks[p] {
					continue
				}
				// the test that decides this way out
				q := p
				for blockIf(q) == nil && len(q.Preds) == 1 && blocks[q.Preds[0]] {
					q = q.Preds[0]
				}
				onErr := false
				if qi := blockIf(q); qi != nil {
					for _, at := range condsOf(nil, qi.Cond, true) {
						if c, ok := at.v.(*ssa.BinOp); ok && (c.Op == token.EQL || c.Op == token.NEQ) && isNilConst(c.Y) && isErrorType(c.X.Type()) {
							onErr = true
						}
					}
					for _, at := range condsOf(nil, qi.Cond, false) {
						if c, ok := at.v.(*ssa.BinOp); ok && (c.Op == token.EQL || c.Op == token.NEQ) && isNilConst(c.Y) && isErrorType(c.X.Type()) {
							onErr = true
						}
					}
				}
				if onErr {
					continue
				}
				clean = false
				pos := fn.Pos()
				if qi := blockIf(q); qi != nil && qi.Cond.Pos().IsValid() {
					pos = qi.Cond.Pos()
				}
				r.bad(rule, fn, "loop over the arguments of "+fn.Name(), pos, "the loop over the argument list is left before its end on a test that is no error test, and the builtin goes on to answer: the arguments behind the one that met the test are dropped (the answer is not the one the model gives for all arguments)")
			}
			if clean {
				r.ok(rule, fn, "loop over the arguments of "+fn.Name(), l.header.Instrs[len(l.header.Instrs)-1].Pos(), "left only from its header, by a return or on an error")
			}
		}
	}
	r.floor(rule, "loops over the whole argument list in variadic builtins", n, 3)
}

// indexAsGivenRule: a position a program asks for is looked up as given, or refused. A builtin that re-bases a
// position before it reads the element (a negative one counted from the end) answers with a value where the
// model has none: the index that reaches an element read is never the merge of a value with that value plus a
// length.
func indexAsGivenRule(w *World, r *Report, rule string) {
	r.rule(rule, "in the collection builtins of lib/core the index of an element read is never the merge of a value v with v + len(...) (a position outside 0..len-1 is an error, not a position counted from the other end)")
	strip := func(v ssa.Value) ssa.Value {
		for {
			switch x := v.(type) {
			case *ssa.Convert:
				v = x.X
			case *ssa.ChangeType:
				v = x.X
			default:
				return v
			}
		}
	}
	isLen := func(v ssa.Value) bool {
		c, ok := strip(v).(*ssa.Call)
		if !ok {
			return false
		}
		b, ok := c.Call.Value.(*ssa.Builtin)
		return ok && b.Name() == "len"
	}
	n := 0
	seen := map[*ssa.Function]bool{}
	for _, root := range w.registeredFuncs() {
		if !strings.HasPrefix(fnPkgPath(root), modPath+"/lib/core") {
			continue
		}
		for _, fn := range w.withPkgHelpers(root) {
			if seen[fn] {
				continue
			}
			seen[fn] = true
			for _, b := range fn.Blocks {
				for _, in := range b.Instrs {
					ia, ok := in.(*ssa.IndexAddr)
					if !ok {
						continue
					}
					if _, isConst := ia.Index.(*ssa.Const); isConst {
						continue
					}
					n++
					phi, ok := strip(ia.Index).(*ssa.Phi)
					if !ok {
						continue
					}
					for _, e1 := range phi.Edges {
						bo, ok := strip(e1).(*ssa.BinOp)
						if !ok || bo.Op != token.ADD {
							continue
						}
						var base ssa.Value
						if isLen(bo.Y) {
							base = strip(bo.X)
						} else if isLen(bo.X) {
							base = strip(bo.Y)
						}
						if base == nil {
							continue
						}
						for _, e2 := range phi.Edges {
							if strip(e2) == base {
								r.bad(rule, fn, "index of the element read in "+fn.Name(), ia.Pos(), "the position is either the value asked for or that value plus a length: a position below zero is counted from the end and answered with an element, where the definition prescribes an error (index out of range)")
							}
						}
					}
				}
			}
		}
	}
	r.add(rule, nil, "element reads with a computed index", token.NoPos, "ok", fmt.Sprintf("%d examined", n))
	r.floor(rule, "element reads with a computed index in lib/core", n, 3)
}
