package main

import (
	"fmt"
	"go/constant"
	"go/token"
	"go/types"
	"strings"

	"golang.org/x/tools/go/ssa"
)

// exactArgsRule: "invoked with exactly the lisp arguments given ... if and only if every argument is assignable
// to its parameter".  The vector handed to reflect's Call is the one the argument builder made: what travels from
// the builder to the call passes only through functions that read it, and every slot of it is filled with the
// boxed argument itself (reflect.ValueOf) or the nil stand-in (reflect.Zero) - never with a value converted to
// the parameter's type, which would let an argument that is not assignable run the function.
func exactArgsRule(w *World, r *Report, e *Engine, rule string, callFn *ssa.Function, builders []*ssa.Function) {
	r.rule(rule, "the vector handed to reflect's Call is what the argument builder returned, carried only through functions that do not write it; every slot written anywhere in the binder holds reflect.ValueOf(x) or reflect.Zero(t) as it came back, never a converted or otherwise derived reflect.Value")
	isBuilder := map[*ssa.Function]bool{}
	for _, b := range builders {
		isBuilder[b] = true
	}
	isValueVec := func(t types.Type) bool {
		sl, ok := t.Underlying().(*types.Slice)
		if !ok {
			return false
		}
		n, ok := sl.Elem().(*types.Named)
		return ok && n.Obj().Pkg() != nil && n.Obj().Pkg().Path() == "reflect" && n.Obj().Name() == "Value"
	}
	// a parameter that is only read
	var readOnly func(v ssa.Value, depth int) (bool, token.Pos)
	readOnly = func(v ssa.Value, depth int) (bool, token.Pos) {
		if depth > 5 || v.Referrers() == nil {
			return false, v.Pos()
		}
		for _, ref := range *v.Referrers() {
			switch u := ref.(type) {
			case *ssa.Return, *ssa.DebugRef, *ssa.Range:
			case *ssa.Phi:
				if ok, p := readOnly(u, depth+1); !ok {
					return false, p
				}
			case *ssa.Slice:
				if ok, p := readOnly(u, depth+1); !ok {
					return false, p
				}
			case *ssa.IndexAddr:
				for _, u2 := range *u.Referrers() {
					switch x := u2.(type) {
					case *ssa.UnOp, *ssa.DebugRef:
					default:
						return false, x.Pos()
					}
				}
			case ssa.CallInstruction:
				c := u.Common()
				if bi, ok := c.Value.(*ssa.Builtin); ok {
					if bi.Name() == "len" || bi.Name() == "cap" {
						continue
					}
					return false, u.Pos()
				}
				g := c.StaticCallee()
				if g == nil {
					return false, u.Pos()
				}
				if g.Pkg == nil || !inModule(g) {
					// reflect's own Call reads the vector
					if g.Object() != nil && g.Object().Pkg() != nil && g.Object().Pkg().Path() == "reflect" {
						continue
					}
					return false, u.Pos()
				}
				off := 0
				if g.Signature.Recv() != nil {
					off = 0 // receiver is Args[0] and Params[0] alike
				}
				for i, a := range c.Args {
					if a == v && i+off < len(g.Params) {
						if ok, p := readOnly(g.Params[i+off], depth+1); !ok {
							return false, p
						}
					}
				}
			default:
				return false, ref.Pos()
			}
		}
		return true, token.NoPos
	}
	var fromBuilder func(v ssa.Value, depth int) (bool, string)
	fromBuilder = func(v ssa.Value, depth int) (bool, string) {
		if depth > 6 {
			return false, "origin of the vector not found"
		}
		switch x := v.(type) {
		case *ssa.Phi:
			for _, ed := range x.Edges {
				if ok, why := fromBuilder(ed, depth+1); !ok {
					return false, why
				}
			}
			return true, ""
		case *ssa.Call:
			g := x.Call.StaticCallee()
			if g == nil || !inModule(g) || len(g.Blocks) == 0 {
				return false, "the vector is the result of " + describeVal(e, v, 0) + ", not of the argument builder"
			}
			if isBuilder[g] {
				return true, ""
			}
			// a carrier: returns one of its parameters, which it only reads
			for _, rt := range (&evalModel{}).returns(g) {
				rv := rt[1].(ssa.Value)
				p, ok := rv.(*ssa.Parameter)
				if !ok {
					return false, w.fnName(g) + " stands between the builder and the call and returns a vector of its own making"
				}
				if ok, pos := readOnly(p, 0); !ok {
					return false, w.fnName(g) + " stands between the builder and the call and writes the vector (or hands it to something that may) at " + w.pos(pos)
				}
				idx := -1
				for i, q := range g.Params {
					if q == p {
						idx = i
					}
				}
				if idx < 0 || idx >= len(x.Call.Args) {
					return false, "parameter of " + w.fnName(g) + " not found at the call"
				}
				if ok, why := fromBuilder(x.Call.Args[idx], depth+1); !ok {
					return false, why
				}
			}
			return true, ""
		}
		return false, "the vector is " + describeVal(e, v, 0) + ", not the result of the argument builder"
	}
	fns := map[*ssa.Function]bool{}
	for _, f := range w.withPkgHelpers(callFn) {
		fns[f] = true
		for _, an := range allAnon(f) {
			fns[an] = true
		}
	}
	for _, b := range builders {
		for _, f := range w.withPkgHelpers(b) {
			fns[f] = true
		}
	}
	var ordered []*ssa.Function
	for _, f := range w.Funcs {
		if fns[f] {
			ordered = append(ordered, f)
		}
	}
	ncall, nslot := 0, 0
	for _, f := range ordered {
		for _, b := range f.Blocks {
			for _, in := range b.Instrs {
				switch x := in.(type) {
				case *ssa.Call:
					sc := x.Call.StaticCallee()
					if sc == nil || sc.Signature.Recv() == nil || sc.Object() == nil || sc.Object().Pkg() == nil || sc.Object().Pkg().Path() != "reflect" {
						continue
					}
					if (sc.Name() == "Call" || sc.Name() == "CallSlice") && len(x.Call.Args) == 2 {
						ncall++
						ok, why := fromBuilder(x.Call.Args[1], 0)
						r.check(ok, rule, f, "vector handed to reflect's Call", x.Pos(), "the argument builder's result, unwritten on the way", why+": the bound function is no longer entered with exactly the arguments given (an argument that is not assignable may be made to fit)")
					}
				case *ssa.Store:
					ia, ok := x.Addr.(*ssa.IndexAddr)
					if !ok || !isValueVec(ia.X.Type()) {
						continue
					}
					nslot++
					r.check(boxedAsIs(x.Val, 0), rule, f, "value put into a slot of the vector", x.Pos(), "reflect.ValueOf(x) or reflect.Zero(t), as returned", "a slot of the argument vector receives "+describeVal(e, x.Val, 0)+": something derived from the boxed argument (a conversion, another element) rather than the argument itself")
				}
			}
		}
	}
	r.floor(rule, "reflective calls of the bound function", ncall, 2)
	r.floor(rule, "slots of the argument vector written", nslot, 2)
}

func boxedAsIs(v ssa.Value, depth int) bool {
	if depth > 4 {
		return false
	}
	switch x := v.(type) {
	case *ssa.Phi:
		for _, ed := range x.Edges {
			if !boxedAsIs(ed, depth+1) {
				return false
			}
		}
		return true
	case *ssa.Call:
		sc := x.Call.StaticCallee()
		if sc == nil {
			return false
		}
		if sc.Signature.Recv() == nil && sc.Object() != nil && sc.Object().Pkg() != nil && sc.Object().Pkg().Path() == "reflect" && (sc.Name() == "ValueOf" || sc.Name() == "Zero") {
			return true
		}
		// a function of the module that does the boxing: every value it returns is boxed as it is
		if inModule(sc) && len(sc.Blocks) > 0 && sc.Signature.Results().Len() == 1 {
			n := 0
			for _, rt := range (&evalModel{}).returns(sc) {
				n++
				if !boxedAsIs(resolveRet(rt[1].(ssa.Value)), depth+1) {
					return false
				}
			}
			return n > 0
		}
	}
	return false
}

func isBoolResult(g *ssa.Function) bool {
	res := g.Signature.Results()
	return res.Len() == 1 && isBasic(res.At(0).Type(), types.Bool)
}

// okFlagUsedRule: "this argument is of that kind" is answered by the ok flag of the checked assertion. A builtin
// that asserts with the comma-ok form, drops the flag and goes on with the value treats every other kind of
// argument as the zero value of the asserted type (0, "", the empty list): a wrong value where an error is due.
func okFlagUsedRule(w *World, r *Report, e *Engine, rule string) {
	r.rule(rule, "in the collection builtins (registered functions of lib/core and the functions they are built from) every checked type assertion (v, ok := x.(T)) on a value not already known to be a T whose value is used also has its ok flag looked at: no builtin goes on with the zero value of T for an argument of another kind")
	seen := map[*ssa.Function]bool{}
	n := 0
	used := func(v ssa.Value) bool {
		if v == nil || v.Referrers() == nil {
			return false
		}
		for _, ref := range *v.Referrers() {
			if _, dbg := ref.(*ssa.DebugRef); !dbg {
				return true
			}
		}
		return false
	}
	for _, root := range w.registeredFuncs() {
		if !strings.HasPrefix(fnPkgPath(root), modPath+"/lib/core") {
			continue
		}
		for _, fn := range w.withPkgHelpers(root) {
			if seen[fn] {
				continue
			}
			seen[fn] = true
			for _, b := range fn.Blocks {
				for _, in := range b.Instrs {
					ta, ok := in.(*ssa.TypeAssert)
					if !ok || !ta.CommaOk {
						continue
					}
					if _, isIface := ta.AssertedType.Underlying().(*types.Interface); isIface {
						continue
					}
					val, flag := tupleExtract(ta, 0), tupleExtract(ta, 1)
					if !used(val) {
						continue
					}
					n++
					if used(flag) {
						r.ok(rule, fn, "checked assertion "+canonVal(e, ta.X)+".("+shortType(ta.AssertedType)+")", ta.Pos(), "ok flag used")
						continue
					}
					known, _ := e.hasType(ta.X, ta.AssertedType, b)
					r.check(known, rule, fn, "checked assertion "+canonVal(e, ta.X)+".("+shortType(ta.AssertedType)+")", ta.Pos(), "ok flag used, or the type already established", "the ok flag of the assertion is dropped and the value used: for an argument of another kind the builtin goes on with the zero value of "+shortType(ta.AssertedType)+" and answers with a wrong value, where it has to fail")
				}
			}
		}
	}
	r.floor(rule, "checked assertions in the collection builtins", n, 3)
}

func tupleExtract(t ssa.Value, idx int) ssa.Value {
	if t.Referrers() == nil {
		return nil
	}
	for _, ref := range *t.Referrers() {
		if ex, ok := ref.(*ssa.Extract); ok && ex.Index == idx {
			return ex
		}
	}
	return nil
}

// carrierNotBoundRule: the parameter binder is handed the arguments in a carrier (a list made by whoever calls:
// the evaluator, Apply with the callee's own position, a catch clause).  What it binds are the elements - each
// one, or a new list of the remaining ones for a rest parameter.  The carrier itself, with the position and the
// metadata its maker gave it, is bound to no name: a function or macro that hands its rest parameter back would
// otherwise produce a form positioned where the carrier says (the definition of the callee), and every error
// raised in that form is reported there.
func carrierNotBoundRule(w *World, r *Report, e *Engine, rule string) {
	r.rule(rule, "the parameter binder binds elements of the argument carrier only (each argument, or a newly made list of the remaining ones): no value stored into a scope's table is the carrier itself, whose position and metadata belong to its maker, not to the program's forms")
	fn := w.Fn("env", "_newSubordinateEnvWithBinds")
	if fn == nil {
		r.undecided(rule, nil, "binder", token.NoPos, "_newSubordinateEnvWithBinds no longer resolves")
		return
	}
	n := 0
	for _, f := range w.withPkgHelpers(fn) {
		// carriers: the lisp-value parameters of the binder and of the helpers it is built from
		carrier := map[ssa.Value]bool{}
		for _, p := range f.Params {
			if isMalType(p.Type()) || valueStruct(p.Type()) {
				carrier[p] = true
			}
		}
		var whole func(v ssa.Value, depth int) ssa.Value
		whole = func(v ssa.Value, depth int) ssa.Value {
			if depth > 8 {
				return nil
			}
			if carrier[v] {
				return v
			}
			switch x := v.(type) {
			case *ssa.MakeInterface:
				return whole(x.X, depth+1)
			case *ssa.ChangeInterface:
				return whole(x.X, depth+1)
			case *ssa.ChangeType:
				return whole(x.X, depth+1)
			case *ssa.TypeAssert:
				return whole(x.X, depth+1)
			case *ssa.Extract:
				if ta, ok := x.Tuple.(*ssa.TypeAssert); ok && x.Index == 0 {
					return whole(ta.X, depth+1)
				}
			case *ssa.Phi:
				for _, ed := range x.Edges {
					if c := whole(ed, depth+1); c != nil {
						return c
					}
				}
			case *ssa.UnOp:
				if al, ok := x.X.(*ssa.Alloc); ok && x.Op == token.MUL {
					for _, st := range e.storesTo(al) {
						if c := whole(st.Val, depth+1); c != nil {
							return c
						}
					}
				}
			}
			return nil
		}
		for _, b := range f.Blocks {
			for _, in := range b.Instrs {
				mu, ok := in.(*ssa.MapUpdate)
				if !ok || !types.IsInterface(mu.Value.Type()) {
					continue
				}
				n++
				c := whole(mu.Value, 0)
				r.check(c == nil, rule, f, "value bound to a name", mu.Pos(), "an element of the carrier, or a list newly made of elements", "the argument carrier itself ("+describeVal(e, mu.Value, 0)+") is bound to a name: it carries the position (and metadata) its maker gave it - Apply gives it the position of the callee's definition - so a form built from that parameter is reported where the callee was defined, not where the program wrote it")
			}
		}
	}
	r.floor(rule, "bindings made by the parameter binder", n, 2)
}

// releaseOnPanicRule: a lock released by a plain Unlock (not a deferred one) stays held when something between
// Lock and Unlock panics; under the binder's recover the builtin then answers with an error and every later
// operation on the object blocks forever.  Between a Lock and its plain Unlock only instructions that cannot
// panic are allowed.
func releaseOnPanicRule(w *World, r *Report, e *Engine, rule string, fns []*ssa.Function) {
	r.rule(rule, "in lib/concurrent, while a mutex is held that is released by a plain Unlock (not by a deferred one) nothing is executed that can panic: no == on lisp values (uncomparable dynamic types panic), no unchecked assertion, index, map write, send, function value or call out of the package - a panic there is turned into an error by the binder's recover while the lock stays held, and every later deref, swap! or reset! on the object blocks forever")
	var safeFn func(g *ssa.Function, depth int) bool
	var safe func(in ssa.Instruction, depth int) (bool, string)
	aud := &Audit{w: w, e: e}
	safe = func(in ssa.Instruction, depth int) (bool, string) {
		switch x := in.(type) {
		case *ssa.TypeAssert:
			if !x.CommaOk {
				if ok, _ := e.hasType(x.X, x.AssertedType, x.Block()); !ok {
					return false, "unchecked type assertion"
				}
			}
		case *ssa.IndexAddr, *ssa.Index, *ssa.Slice:
			return false, "index or slice expression"
		case *ssa.Lookup:
			if mt, ok := x.X.Type().Underlying().(*types.Map); ok && types.IsInterface(mt.Key()) {
				return false, "map lookup with a key of interface type"
			}
		case *ssa.MapUpdate:
			return false, "map write"
		case *ssa.Send:
			return false, "channel send"
		case *ssa.Panic:
			return false, "explicit panic"
		case *ssa.BinOp:
			if (x.Op == token.EQL || x.Op == token.NEQ) && types.IsInterface(x.X.Type()) && !isNilConst(x.X) && !isNilConst(x.Y) {
				okX, _ := aud.comparableValue(x.X, x.Block())
				okY, _ := aud.comparableValue(x.Y, x.Block())
				if !okX && !okY {
					return false, "comparison " + x.Op.String() + " of two lisp values (panics for two lists, maps, sets, vectors or functions)"
				}
			}
			if (x.Op == token.QUO || x.Op == token.REM) && isIntType(x.Type()) {
				if c, ok := x.Y.(*ssa.Const); !ok || c.Value == nil || constant.Sign(c.Value) == 0 {
					return false, "integer division"
				}
			}
		case ssa.CallInstruction:
			if _, isDefer := in.(*ssa.Defer); isDefer {
				return true, ""
			}
			c := x.Common()
			if _, isB := c.Value.(*ssa.Builtin); isB {
				return true, ""
			}
			if _, ok := e.mutexOp(c); ok {
				return true, ""
			}
			g := c.StaticCallee()
			if g == nil {
				return false, "call of a function value or interface method"
			}
			if depth > 2 || !safeFn(g, depth+1) {
				return false, "call of " + g.Name() + ", which may panic"
			}
		}
		return true, ""
	}
	memo := map[*ssa.Function]int{}
	safeFn = func(g *ssa.Function, depth int) bool {
		if v, ok := memo[g]; ok {
			return v == 1
		}
		memo[g] = 1 // optimistic for recursion
		if !inModule(g) || len(g.Blocks) == 0 {
			memo[g] = 2
			return false
		}
		for _, b := range g.Blocks {
			for _, in := range b.Instrs {
				if ok, _ := safe(in, depth); !ok {
					memo[g] = 2
					return false
				}
			}
		}
		return true
	}
	n := 0
	for _, fn := range fns {
		li := e.locks(fn)
		for _, b := range fn.Blocks {
			for _, in := range b.Instrs {
				held := li.before[in]
				plain := ""
				for k := range held {
					if !li.deferred[k] {
						plain = k
					}
				}
				if plain == "" {
					continue
				}
				if _, dbg := in.(*ssa.DebugRef); dbg {
					continue
				}
				n++
				if ok, what := safe(in, 0); !ok {
					r.bad(rule, fn, what+" under "+plain, in.Pos(), "executed while "+plain+" is held and released only by a plain Unlock further down: if it panics the lock is never released (the binder's recover turns the panic into an error), and every later operation on the object blocks forever")
				}
			}
		}
	}
	r.add(rule, nil, "instructions executed under plainly released locks", token.NoPos, "ok", fmt.Sprintf("%d instructions examined", n))
}

// constructorRule: (atom x) makes a new reference object holding x, whatever x is.
func atomConstructorRule(w *World, r *Report, e *Engine, rule string) {
	r.rule(rule, "the atom builtin returns, on every path without error, an Atom allocated in that call whose value field was assigned the argument: an argument that is itself an atom (or anything else) is stored, never handed back in place of a new object - two atoms are two objects with two states")
	fn := w.builtin("atom")
	if fn == nil {
		r.undecided(rule, nil, "atom builtin", token.NoPos, "the function registered as atom no longer resolves")
		return
	}
	n := 0
	var freshAtom func(v ssa.Value, arg ssa.Value, depth int) (bool, string)
	freshAtom = func(v ssa.Value, arg ssa.Value, depth int) (bool, string) {
		if depth > 4 {
			return false, "too deep"
		}
		switch x := v.(type) {
		case *ssa.MakeInterface:
			return freshAtom(x.X, arg, depth+1)
		case *ssa.ChangeType:
			return freshAtom(x.X, arg, depth+1)
		case *ssa.Phi:
			for _, ed := range x.Edges {
				if ok, why := freshAtom(ed, arg, depth+1); !ok {
					return false, why
				}
			}
			return true, ""
		case *ssa.Alloc:
			if _, name, ok := w.namedStruct(x.Type()); !ok || name != "Atom" {
				return false, "allocation of something else"
			}
			for _, ref := range *x.Referrers() {
				if fa, ok := ref.(*ssa.FieldAddr); ok && fieldName(fa.X.Type(), fa.Field) == "Val" {
					for _, u := range *fa.Referrers() {
						if st, ok := u.(*ssa.Store); ok && st.Addr == ssa.Value(fa) && st.Val == arg {
							return true, ""
						}
					}
				}
			}
			return false, "the new atom's value is not the argument"
		case *ssa.Call:
			g := x.Call.StaticCallee()
			if g == nil || !inModule(g) || len(g.Blocks) == 0 {
				return false, "result of " + describeVal(e, v, 0)
			}
			ai := -1
			for i, a := range x.Call.Args {
				if a == arg {
					ai = i
				}
			}
			if ai < 0 || ai >= len(g.Params) {
				return false, "the constructor helper is not given the argument"
			}
			for _, rt := range (&evalModel{}).returns(g) {
				if ok, why := freshAtom(rt[1].(ssa.Value), g.Params[ai], depth+1); !ok {
					return false, why
				}
			}
			return true, ""
		}
		return false, describeVal(e, v, 0) + " is not a newly allocated atom"
	}
	for _, rt := range (&evalModel{}).returns(fn) {
		ret := rt[0].(*ssa.Return)
		if len(ret.Results) == 2 {
			if ev, _ := rt[2].(ssa.Value); ev != nil && !isNilConst(ev) {
				continue
			}
		}
		if len(fn.Params) == 0 {
			continue
		}
		n++
		ok, why := freshAtom(rt[1].(ssa.Value), fn.Params[len(fn.Params)-1], 0)
		r.check(ok, rule, fn, "value returned by the atom builtin", ret.Pos(), "a newly allocated Atom holding the argument", "the atom builtin does not make a new object holding its argument on this path ("+why+"): what programs take for two atoms is one object, updates on one show on the other and deref of the outer one never returns the installed value")
	}
	r.floor(rule, "returns of the atom builtin", n, 1)
}

// setTotalRule: def and let bind through the scope's Set / SetNT.  Binding is total: whatever the name, the
// value is stored - on every path to a return, with the name's own spelling as key and the value as given.
func setTotalRule(w *World, r *Report, e *Engine, rule string) {
	r.rule(rule, "the scope methods that bind a name (the methods of Env taking a symbol and a value: Set, SetNT) store the value under the symbol's own name on every path to a return, directly or by calling another such method: no name is skipped, renamed or bound conditionally (def and let bind every symbol, _ included)")
	symT := w.ByPath[modPath+"/types"].Types.Scope().Lookup("Symbol")
	if symT == nil {
		r.undecided(rule, nil, "types.Symbol", token.NoPos, "type no longer resolves")
		return
	}
	var setters []*ssa.Function
	isSetter := map[*ssa.Function]bool{}
	for _, fn := range w.pkgFuncs("env") {
		if fn.Signature.Recv() == nil || fn.Parent() != nil || len(fn.Params) != 3 || len(fn.Blocks) == 0 {
			continue
		}
		if _, name, ok := w.namedStruct(fn.Signature.Recv().Type()); !ok || name != "Env" {
			continue
		}
		if !types.Identical(fn.Params[1].Type(), symT.Type()) || !types.IsInterface(fn.Params[2].Type()) {
			continue
		}
		setters = append(setters, fn)
		isSetter[fn] = true
	}
	for _, fn := range setters {
		var stores []ssa.Instruction
		for _, b := range fn.Blocks {
			for _, in := range b.Instrs {
				switch x := in.(type) {
				case *ssa.MapUpdate:
					// data[key.Val] = value
					keyOK := false
					switch k := x.Key.(type) {
					case *ssa.Field:
						keyOK = k.X == ssa.Value(fn.Params[1])
					case *ssa.UnOp:
						if fa, ok := k.X.(*ssa.FieldAddr); ok {
							if ld, ok := fa.X.(*ssa.Alloc); ok {
								// the spilled symbol parameter: its one store is the parameter itself
								nst := 0
								for _, ref := range *ld.Referrers() {
									if st, ok := ref.(*ssa.Store); ok && st.Addr == ssa.Value(ld) {
										nst++
										keyOK = st.Val == ssa.Value(fn.Params[1])
									}
								}
								keyOK = keyOK && nst == 1 && fieldName(fa.X.Type(), fa.Field) == "Val"
							}
						}
					}
					if keyOK && stripConv(x.Value) == ssa.Value(fn.Params[2]) {
						stores = append(stores, x)
					}
				case *ssa.Call:
					if g := x.Call.StaticCallee(); g != nil && isSetter[g] && g != fn && len(x.Call.Args) == 3 && x.Call.Args[0] == ssa.Value(fn.Params[0]) && x.Call.Args[1] == ssa.Value(fn.Params[1]) && x.Call.Args[2] == ssa.Value(fn.Params[2]) {
						stores = append(stores, x)
					}
				}
			}
		}
		for _, b := range fn.Blocks {
			if len(b.Instrs) == 0 || b == fn.Recover {
				continue
			}
			ret, ok := b.Instrs[len(b.Instrs)-1].(*ssa.Return)
			if !ok {
				continue
			}
			done := false
			for _, st := range stores {
				if st.Block() == b || st.Block().Dominates(b) {
					done = true
				}
			}
			r.check(done, rule, fn, "return of "+fn.Name(), ret.Pos(), "the value was stored under the symbol's name", "this return can be reached without the value having been stored under the name it was given (a name treated specially, a condition on the value): def or let of that name evaluates the expression and binds nothing, so the next use of the name finds an outer binding or none")
		}
	}
	r.floor(rule, "binding methods of Env", len(setters), 2)
}

func stripConv(v ssa.Value) ssa.Value {
	for {
		switch x := v.(type) {
		case *ssa.ChangeType:
			v = x.X
		case *ssa.ChangeInterface:
			v = x.X
		case *ssa.MakeInterface:
			v = x.X
		default:
			return v
		}
	}
}
