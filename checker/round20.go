package main

import (
	"fmt"
	"go/constant"
	"go/token"
	"go/types"
	"strings"

	"golang.org/x/tools/go/ssa"
)

// sharedObjectsRule: a package-level variable of the library that holds an object of a type from outside the
// module is shared by every evaluation; the only such objects the library may keep are of types documented as
// safe for concurrent use (compiled regular expressions, replacers, sync and atomic types, reflect types).
func sharedObjectsRule(w *World, r *Report, rule string) {
	r.rule(rule, "every package-level variable of the library whose type comes from outside the module (directly or behind a pointer) is of a type documented as safe for concurrent use - regexp.Regexp, strings.Replacer, os.File, log.Logger, time.Location, embed.FS, the types of sync and sync/atomic (objects of struct types only; what an interface variable holds is not judged): no generator, buffer, scanner or encoder is kept at package level, where every evaluation would use it at once")
	safe := func(t types.Type) (bool, string) {
		if p, ok := t.Underlying().(*types.Pointer); ok {
			t = p.Elem()
		}
		if p, ok := t.(*types.Pointer); ok {
			t = p.Elem()
		}
		nt, ok := t.(*types.Named)
		if !ok || nt.Obj().Pkg() == nil {
			return true, ""
		}
		path := nt.Obj().Pkg().Path()
		if strings.HasPrefix(path, modPath) {
			return true, ""
		}
		switch path {
		case "sync", "sync/atomic":
			return true, ""
		}
		name := path + "." + nt.Obj().Name()
		switch name {
		case "regexp.Regexp", "strings.Replacer", "reflect.rtype", "embed.FS", "time.Location", "time.Time", "os.File", "log.Logger", "log/slog.Logger", "net/http.Client", "text/template.Template", "html/template.Template", "errors.errorString":
			return true, ""
		}
		// (what an interface variable holds is not told by its type: only objects of struct types are judged)
		if _, isStruct := nt.Underlying().(*types.Struct); isStruct {
			return false, name
		}
		return true, ""
	}
	n := 0
	for _, pkg := range w.Prog.AllPackages() {
		if pkg.Pkg == nil || !libraryPkg(pkg.Pkg.Path()) {
			continue
		}
		for _, mem := range pkg.Members {
			g, ok := mem.(*ssa.Global)
			if !ok || strings.HasPrefix(g.Name(), "init$") {
				continue
			}
			pt, ok := g.Type().(*types.Pointer)
			if !ok {
				continue
			}
			n++
			if okT, name := safe(pt.Elem()); !okT {
				r.bad(rule, nil, "package-level variable "+pkg.Pkg.Path()+"."+g.Name(), g.Pos(), "the variable holds a "+name+", a type that is not documented as safe for concurrent use: every evaluation (futures, host goroutines) works on the one object at the same time")
			}
		}
	}
	r.add(rule, nil, "package-level variables of the library", token.NoPos, "ok", fmt.Sprintf("%d examined", n))
	r.floor(rule, "package-level variables of the library", n, 5)
}

// printDescendsRule: a LispPrint method prints the parts of its value; handing the value itself back to the
// printer (in any interface dress) makes the printer call the same method again, without end.
func printDescendsRule(w *World, r *Report, rule string) {
	r.rule(rule, "no LispPrint method hands its own receiver to the printer or to the print callback it was given: the printer asks a printable value to print itself first, so the method would be entered again with the same value until the stack is exhausted (a fatal error no recover stops)")
	n := 0
	for _, fn := range w.Funcs {
		if isTestFunc(w, fn) || !inModule(fn) || len(fn.Blocks) == 0 || fn.Signature.Recv() == nil || fn.Name() != "LispPrint" || len(fn.Params) < 2 {
			continue
		}
		n++
		recv := fn.Params[0]
		isRecv := func(v ssa.Value) bool {
			for i := 0; i < 6; i++ {
				switch x := v.(type) {
				case *ssa.MakeInterface:
					v = x.X
				case *ssa.ChangeInterface:
					v = x.X
				case *ssa.ChangeType:
					v = x.X
				case *ssa.UnOp:
					if x.Op != token.MUL {
						return false
					}
					if al, ok := x.X.(*ssa.Alloc); ok {
						// the local a value receiver is spilled into
						var stored ssa.Value
						cnt := 0
						for _, ref := range *al.Referrers() {
							if st, ok := ref.(*ssa.Store); ok && st.Addr == ssa.Value(al) {
								stored = st.Val
								cnt++
							}
						}
						if cnt != 1 {
							return false
						}
						v = stored
					} else {
						v = x.X
					}
				case *ssa.Parameter:
					return x == recv
				default:
					return false
				}
			}
			return false
		}
		clean := true
		for _, b := range fn.Blocks {
			for _, in := range b.Instrs {
				c, ok := in.(*ssa.Call)
				if !ok {
					continue
				}
				toPrinter := false
				if sc := c.Call.StaticCallee(); sc != nil {
					toPrinter = strings.HasSuffix(fnPkgPath(sc), "/printer")
				} else if p, isP := c.Call.Value.(*ssa.Parameter); isP && !c.Call.IsInvoke() {
					toPrinter = p.Parent() == fn
				}
				if !toPrinter {
					continue
				}
				for _, a := range c.Call.Args {
					if isRecv(a) {
						clean = false
						r.bad(rule, fn, "value handed to the printer by "+w.fnName(fn), c.Pos(), "the method hands its own receiver to the printer: the printer asks the value to print itself, which calls this method again with the same value - the recursion ends only when the stack is exhausted, a fatal error of the process")
					}
				}
			}
		}
		if clean {
			r.ok(rule, fn, "LispPrint method "+w.fnName(fn), fn.Pos(), "hands only parts of its value to the printer")
		}
	}
	r.floor(rule, "LispPrint methods", n, 2)
}

// inputFilterRule: the REPL's rune filter takes away nothing a program can be written with.
func inputFilterRule(w *World, r *Report, rule string) {
	r.rule(rule, "the rune filter of the REPL's line editor (func(rune) (rune, bool) in package repl) rejects only control characters - runes compared equal to a constant below 0x20 or 0x7f: every rune the reader knows reaches the line, so a text typed at the prompt is the text that is read (a filtered closer leaves every entry incomplete)")
	n := 0
	for _, fn := range w.pkgFuncs("repl") {
		if isTestFunc(w, fn) || len(fn.Blocks) == 0 || len(fn.Params) != 1 || fn.Signature.Results().Len() != 2 {
			continue
		}
		if b, ok := fn.Params[0].Type().Underlying().(*types.Basic); !ok || b.Kind() != types.Int32 {
			continue
		}
		if b, ok := fn.Signature.Results().At(1).Type().Underlying().(*types.Basic); !ok || b.Kind() != types.Bool {
			continue
		}
		if b, ok := fn.Signature.Results().At(0).Type().Underlying().(*types.Basic); !ok || b.Kind() != types.Int32 {
			continue
		}
		n++
		p := fn.Params[0]
		for _, b := range fn.Blocks {
			ret, ok := b.Instrs[len(b.Instrs)-1].(*ssa.Return)
			if !ok || len(ret.Results) != 2 {
				continue
			}
			k, isC := ret.Results[1].(*ssa.Const)
			if isC && k.Value != nil && k.Value.Kind() == constant.Bool && constant.BoolVal(k.Value) {
				continue // the rune is kept
			}
			// `return r, r != ctrl`: kept unless it is that control character
			if bo, isB := ret.Results[1].(*ssa.BinOp); isB && bo.Op == token.NEQ && bo.X == ssa.Value(p) {
				if kc, isK := bo.Y.(*ssa.Const); isK && kc.Value != nil && kc.Value.Kind() == constant.Int {
					if v, exact := constant.Int64Val(kc.Value); exact && (v < 0x20 || v == 0x7f) {
						r.ok(rule, fn, "rejection of a rune by "+fn.Name(), ret.Pos(), "only for a control character")
						continue
					}
				}
			}
			// a rejection (or an answer not known to keep the rune): every way here is the true edge of r == control character
			okAll := len(b.Preds) > 0 && isC
			for _, pb := range b.Preds {
				iff := blockIf(pb)
				if iff == nil {
					okAll = false
					continue
				}
				bo, isB := iff.Cond.(*ssa.BinOp)
				if !isB || bo.Op != token.EQL || bo.X != ssa.Value(p) || pb.Succs[0] != b {
					okAll = false
					continue
				}
				kc, isK := bo.Y.(*ssa.Const)
				if !isK || kc.Value == nil || kc.Value.Kind() != constant.Int {
					okAll = false
					continue
				}
				if v, exact := constant.Int64Val(kc.Value); !exact || !(v < 0x20 || v == 0x7f) {
					okAll = false
				}
			}
			r.check(okAll, rule, fn, "rejection of a rune by "+fn.Name(), ret.Pos(), "only for control characters", "the filter takes away a rune that is no control character: what is typed at the prompt is not what is read (a bracket or closer that never arrives leaves a complete entry incomplete for ever, or makes it malformed)")
		}
	}
	r.floor(rule, "rune filters of the REPL", n, 1)
}

// scannerOnlyRule: the tokenizer asks nothing about the text but what its scanner reports.
func scannerOnlyRule(w *World, r *Report, rule string) {
	r.rule(rule, "the function of the reader that sets the scanner up hands the source text to nothing but the constructor of the reader the scanner scans (strings.NewReader and the like) and functions of its own package: no test of the whole text (a search for a rune, a validity check) decides beforehand that a text cannot be read - every text the printer writes is scanned")
	n := 0
	for _, fn := range w.pkgFuncs("reader") {
		if isTestFunc(w, fn) || len(fn.Blocks) == 0 {
			continue
		}
		inits := false
		for _, b := range fn.Blocks {
			for _, in := range b.Instrs {
				if c, ok := in.(*ssa.Call); ok {
					if sc := c.Call.StaticCallee(); sc != nil && strings.HasSuffix(fnPkgPath(sc), "scanner") && sc.Name() == "Init" && sc.Signature.Recv() != nil {
						inits = true
					}
				}
			}
		}
		if !inits {
			continue
		}
		for _, p := range fn.Params {
			if !isStringVal(p) {
				continue
			}
			for _, ref := range *p.Referrers() {
				c, ok := ref.(*ssa.Call)
				if !ok {
					continue
				}
				sc := c.Call.StaticCallee()
				if sc == nil {
					if _, isB := c.Call.Value.(*ssa.Builtin); isB {
						continue
					}
				}
				n++
				okCall := sc != nil && (fnPkgPath(sc) == fnPkgPath(fn) || ((fnPkgPath(sc) == "strings" || fnPkgPath(sc) == "bytes" || fnPkgPath(sc) == "bufio") && strings.HasPrefix(sc.Name(), "New")))
				name := "a function value"
				if sc != nil {
					name = fnPkgPath(sc) + "." + sc.Name()
				}
				r.check(okCall, rule, fn, "function the source text is handed to", c.Pos(), "the constructor of the scanner's input", "the tokenizer asks "+name+" about the whole text before scanning it: a text is refused by a test that is not the scanner's (a correctly encoded U+FFFD, which the printer writes as it is, looks like an encoding error to a search for utf8.RuneError)")
			}
		}
	}
	r.floor(rule, "calls that are handed the source text", n, 1)
}

// tokenBlindRule: the token accessors hand out the token at the cursor, whatever its text.
func tokenBlindRule(w *World, r *Report, rule string) {
	r.rule(rule, "the token accessors of the reader (next, peek and the functions of the package they call) compare no token text with a constant: which token is handed out depends on the cursor alone, so no token the printer wrote (a lone ':' is the keyword with the empty name) is stepped over")
	next, peek := w.tokenAccessors()
	if next == nil || peek == nil {
		r.undecided(rule, nil, "token accessors", token.NoPos, "next / peek no longer resolve")
		return
	}
	n := 0
	seen := map[*ssa.Function]bool{}
	for _, root := range []*ssa.Function{next, peek} {
		for _, fn := range w.withPkgHelpers(root) {
			if fn == nil || seen[fn] || isReaderFn(fn) {
				continue
			}
			seen[fn] = true
			n++
			clean := true
			for _, b := range fn.Blocks {
				for _, in := range b.Instrs {
					bo, ok := in.(*ssa.BinOp)
					if !ok || (bo.Op != token.EQL && bo.Op != token.NEQ) || !isStringVal(bo.X) {
						continue
					}
					_, cx := bo.X.(*ssa.Const)
					_, cy := bo.Y.(*ssa.Const)
					if cx || cy {
						clean = false
						r.bad(rule, fn, "comparison of a token text in "+w.fnName(fn), bo.Pos(), "a token accessor looks at the text of the token it is about to hand out: tokens with that text are stepped over or treated apart, and a value whose printed form contains such a token (the keyword with the empty name prints as a lone ':') does not read back")
					}
				}
			}
			if clean {
				r.ok(rule, fn, "token accessor "+w.fnName(fn), fn.Pos(), "compares no token text")
			}
		}
	}
	r.floor(rule, "token accessors", n, 2)
}
