package main

// Field roles: the unexported fields the rules speak about are found by what they are (their type within
// their struct), not by what they are called, so renaming one of them changes no verdict.

import (
	"go/types"
)

type fieldRoles struct {
	atomMutex, atomVersion       string
	futureMu                     string
	envMu, envData, envOuter     string
	readerTokens, readerPosition string
}

var rolesCache *fieldRoles

func isSyncMutex(t types.Type) bool {
	if p, ok := t.(*types.Pointer); ok {
		t = p.Elem()
	}
	nt, ok := t.(*types.Named)
	return ok && nt.Obj().Pkg() != nil && nt.Obj().Pkg().Path() == "sync" && (nt.Obj().Name() == "Mutex" || nt.Obj().Name() == "RWMutex")
}

// uniqueField: the name of the only field of struct pkgRel.typ whose type satisfies pred; def when the struct
// does not resolve or the field is not unique.
func (w *World) uniqueField(pkgRel, typ, def string, pred func(t types.Type, owner *types.Named) bool) string {
	p := w.ByPath[modPath+"/"+pkgRel]
	if p == nil || p.Types == nil {
		return def
	}
	obj := p.Types.Scope().Lookup(typ)
	if obj == nil {
		return def
	}
	nt, ok := obj.Type().(*types.Named)
	if !ok {
		return def
	}
	st, ok := nt.Underlying().(*types.Struct)
	if !ok {
		return def
	}
	found := ""
	for i := 0; i < st.NumFields(); i++ {
		if pred(st.Field(i).Type(), nt) {
			if found != "" {
				return def
			}
			found = st.Field(i).Name()
		}
	}
	if found == "" {
		return def
	}
	return found
}

func (w *World) roles() *fieldRoles {
	if rolesCache != nil {
		return rolesCache
	}
	mutex := func(t types.Type, _ *types.Named) bool { return isSyncMutex(t) }
	r := &fieldRoles{}
	r.atomMutex = w.uniqueField("lib/concurrent", "Atom", "Mutex", mutex)
	r.atomVersion = w.uniqueField("lib/concurrent", "Atom", "version", func(t types.Type, _ *types.Named) bool {
		b, ok := t.Underlying().(*types.Basic)
		return ok && b.Info()&types.IsInteger != 0
	})
	r.futureMu = w.uniqueField("lib/concurrent", "Future", "mu", mutex)
	r.envMu = w.uniqueField("env", "Env", "mu", mutex)
	r.envData = w.uniqueField("env", "Env", "data", func(t types.Type, _ *types.Named) bool {
		_, ok := t.Underlying().(*types.Map)
		return ok
	})
	r.envOuter = w.uniqueField("env", "Env", "outer", func(t types.Type, owner *types.Named) bool {
		p, ok := t.(*types.Pointer)
		return ok && types.Identical(p.Elem(), owner)
	})
	r.readerTokens = w.uniqueField("reader", "tokenReader", "tokens", func(t types.Type, _ *types.Named) bool {
		_, ok := t.Underlying().(*types.Slice)
		return ok
	})
	r.readerPosition = w.uniqueField("reader", "tokenReader", "position", func(t types.Type, _ *types.Named) bool {
		b, ok := t.Underlying().(*types.Basic)
		return ok && b.Info()&types.IsInteger != 0
	})
	rolesCache = r
	return r
}
