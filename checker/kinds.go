package main

// Which kinds of value a function accepts for one of its parameters: for each kind of lisp value the control
// flow of the function is followed with every test of that parameter's dynamic type decided (type
// assertions and switches, comparison with nil, calls of helpers that take the parameter and answer with an
// error or an ok flag); the kind is accepted when a return without error can be reached. Used to compare
// sibling builtins, which must agree on what they take for a sequence.

import (
	"go/token"
	"go/types"
	"sort"
	"strings"

	"golang.org/x/tools/go/ssa"
)

type kindAnalysis struct {
	w     *World
	kinds map[string]types.Type // nil -> nil type
	memo  map[string]map[string]bool
	busy  map[string]bool
}

func newKindAnalysis(w *World) *kindAnalysis {
	ka := &kindAnalysis{w: w, kinds: map[string]types.Type{"nil": nil}, memo: map[string]map[string]bool{}, busy: map[string]bool{}}
	sc := w.ByPath[modPath+"/types"].Types.Scope()
	for _, n := range []string{"List", "Vector", "HashMap", "Set", "Symbol"} {
		if o := sc.Lookup(n); o != nil {
			ka.kinds[n] = o.Type()
		}
	}
	ka.kinds["string"] = types.Typ[types.String]
	ka.kinds["int"] = types.Typ[types.Int]
	return ka
}

// feasibleReturns: the returns of fn reachable when parameter idx has dynamic kind k.
func (ka *kindAnalysis) feasibleReturns(fn *ssa.Function, idx int, k string, depth int) []*ssa.Return {
	p := fn.Params[idx]
	kt := ka.kinds[k]
	assign := map[ssa.Value]bool{}
	isP := func(v ssa.Value) bool {
		for {
			switch x := v.(type) {
			case *ssa.MakeInterface:
				v = x.X
				continue
			case *ssa.ChangeInterface:
				v = x.X
				continue
			}
			break
		}
		return v == ssa.Value(p)
	}
	for _, b := range fn.Blocks {
		for _, in := range b.Instrs {
			switch x := in.(type) {
			case *ssa.Extract:
				if ta, ok := x.Tuple.(*ssa.TypeAssert); ok && ta.CommaOk && x.Index == 1 && isP(ta.X) {
					if _, isIface := ta.AssertedType.Underlying().(*types.Interface); !isIface {
						assign[x] = kt != nil && types.Identical(ta.AssertedType, kt)
					}
				}
				// ok flag / error of a helper the parameter is handed to
				if c, ok := x.Tuple.(*ssa.Call); ok && depth < 3 {
					callee := c.Call.StaticCallee()
					if callee == nil || !inModule(callee) || len(callee.Blocks) == 0 {
						continue
					}
					for i, a := range c.Call.Args {
						if !isP(a) || i >= len(callee.Params) {
							continue
						}
						rets := ka.feasibleReturns(callee, i, k, depth+1)
						if isErrorType(x.Type()) {
							mayOK, mayFail := false, false
							for _, ret := range rets {
								if isNilConst(resolveRet(ret.Results[x.Index])) {
									mayOK = true
								} else {
									mayFail = true
								}
							}
							for _, ref := range *x.Referrers() {
								if bo, ok := ref.(*ssa.BinOp); ok && isNilConst(bo.Y) && (bo.Op == token.NEQ || bo.Op == token.EQL) && mayOK != mayFail {
									assign[bo] = (bo.Op == token.NEQ) == mayFail
								}
							}
						} else if isBoolType(x.Type()) {
							t, f := false, false
							for _, ret := range rets {
								if c, ok := resolveRet(ret.Results[x.Index]).(*ssa.Const); ok && c.Value != nil {
									if c.Value.String() == "true" {
										t = true
									} else {
										f = true
									}
								} else {
									t, f = true, true
								}
							}
							if t != f {
								assign[x] = t
							}
						}
					}
				}
			case *ssa.BinOp:
				if (x.Op == token.EQL || x.Op == token.NEQ) && isNilConst(x.Y) && isP(x.X) {
					assign[x] = (x.Op == token.EQL) == (k == "nil")
				}
			case *ssa.Call:
				// a predicate of the module on the parameter (Q[List](x), List_Q(x)) is left undecided
			}
		}
	}
	var out []*ssa.Return
	seen := map[*ssa.BasicBlock]bool{}
	stack := []*ssa.BasicBlock{fn.Blocks[0]}
	for len(stack) > 0 {
		b := stack[len(stack)-1]
		stack = stack[:len(stack)-1]
		if seen[b] {
			continue
		}
		seen[b] = true
		if ret, ok := b.Instrs[len(b.Instrs)-1].(*ssa.Return); ok {
			out = append(out, ret)
			continue
		}
		if iff := blockIf(b); iff != nil {
			cond, neg := iff.Cond, false
			if u, ok := cond.(*ssa.UnOp); ok && u.Op == token.NOT {
				cond, neg = u.X, true
			}
			if val, ok := assign[cond]; ok {
				if val != neg {
					stack = append(stack, b.Succs[0])
				} else {
					stack = append(stack, b.Succs[1])
				}
				continue
			}
		}
		stack = append(stack, b.Succs...)
	}
	return out
}

// testsKind: the function decides something by the dynamic type of the parameter (an assertion or type switch on
// it, or a helper of the module it hands the parameter to that does).
func (ka *kindAnalysis) testsKind(fn *ssa.Function, idx int, depth int) bool {
	if idx >= len(fn.Params) || depth > 3 {
		return false
	}
	p := ssa.Value(fn.Params[idx])
	strip := func(v ssa.Value) ssa.Value {
		for {
			switch x := v.(type) {
			case *ssa.MakeInterface:
				v = x.X
				continue
			case *ssa.ChangeInterface:
				v = x.X
				continue
			}
			return v
		}
	}
	for _, b := range fn.Blocks {
		for _, in := range b.Instrs {
			switch x := in.(type) {
			case *ssa.TypeAssert:
				if _, isIface := x.AssertedType.Underlying().(*types.Interface); !isIface && strip(x.X) == p {
					return true
				}
			case *ssa.Call:
				callee := x.Call.StaticCallee()
				if callee == nil || !inModule(callee) || len(callee.Blocks) == 0 {
					continue
				}
				for i, a := range x.Call.Args {
					if strip(a) == p && ka.testsKind(callee, i, depth+1) {
						return true
					}
				}
			}
		}
	}
	return false
}

// accepted: the kinds for which fn can return without an error.
func (ka *kindAnalysis) accepted(fn *ssa.Function, idx int) []string {
	ei := hasErrorResult(fn)
	var out []string
	for k := range ka.kinds {
		for _, ret := range ka.feasibleReturns(fn, idx, k, 0) {
			if ei < 0 || ei >= len(ret.Results) || isNilConst(resolveRet(ret.Results[ei])) {
				out = append(out, k)
				break
			}
		}
	}
	sort.Strings(out)
	return out
}

// siblingDomainRule: builtins of one family take the same kinds of value for their sequence argument: the
// count-taking sequence builtins (an int and a sequence in, a value and an error out: take, take-last, drop,
// drop-last) are compared pairwise. Where one of them refuses a kind another accepts - nil, the empty
// sequence of the language, say - one of the two is outside the documented model.
func siblingDomainRule(w *World, r *Report, rule string) {
	r.rule(rule, "the registered builtins of lib/core with the Go signature (int, MalType) (MalType, error) - the count-taking sequence builtins take, take-last, drop, drop-last - that answer for both lists and vectors and test the kind of their argument accept the same kinds (lists, vectors, nil - and refuse the same: maps, sets, plain values) for their sequence argument (decided per kind by following each function's control flow with the argument's dynamic type fixed, through the helpers it hands the argument to): none of them fails on nil or on a vector where its siblings answer")
	ka := newKindAnalysis(w)
	type sib struct {
		fn    *ssa.Function
		kinds string
	}
	var sibs []sib
	for _, fn := range w.registeredFuncs() {
		if !strings.HasSuffix(fnPkgPath(fn), "/lib/core") || fn.Parent() != nil || len(fn.Params) != 2 || len(fn.Blocks) == 0 {
			continue
		}
		if !isIntType(fn.Params[0].Type()) || !isMalType(fn.Params[1].Type()) || hasErrorResult(fn) != 1 {
			continue
		}
		// a sequence consumer: it answers for lists and for vectors and looks at the kind of its argument
		// (a builtin of the same Go signature that takes any value as it is - a repeat, say - is no sibling)
		acc := ka.accepted(fn, 1)
		has := map[string]bool{}
		for _, k := range acc {
			has[k] = true
		}
		if !has["List"] || !has["Vector"] || !ka.testsKind(fn, 1, 0) {
			continue
		}
		sibs = append(sibs, sib{fn, strings.Join(acc, ",")})
	}
	sort.Slice(sibs, func(i, j int) bool { return sibs[i].fn.Name() < sibs[j].fn.Name() })
	groups := map[string][]string{}
	for _, s := range sibs {
		groups[s.kinds] = append(groups[s.kinds], s.fn.Name())
	}
	if len(groups) <= 1 {
		for _, s := range sibs {
			r.ok(rule, s.fn, "kinds accepted for the sequence argument", s.fn.Pos(), s.kinds)
		}
	} else {
		var desc []string
		for k, names := range groups {
			desc = append(desc, strings.Join(names, "/")+" accept {"+k+"}")
		}
		sort.Strings(desc)
		for _, s := range sibs {
			r.bad(rule, s.fn, "kinds accepted for the sequence argument", s.fn.Pos(), "the count-taking sequence builtins disagree on what they take: "+strings.Join(desc, "; ")+": for a kind one family member answers and another fails, one of them is outside the model (nil is the empty sequence for all of them)")
		}
	}
	r.floor(rule, "count-taking sequence builtins", len(sibs), 4)
}
