package main

// Which kinds of value a function accepts for one of its parameters: for each kind of lisp value the control
// flow of the function is followed with every test of that parameter's dynamic type decided (type
// assertions and switches, comparison with nil, calls of helpers that take the parameter and answer with an
// error or an ok flag); the kind is accepted when a return without error can be reached. Used to compare
// sibling builtins, which must agree on what they take for a sequence.

import (
	"fmt"
	"go/constant"
	"go/token"
	"go/types"
	"sort"
	"strings"

	"golang.org/x/tools/go/ssa"
)

type kindAnalysis struct {
	w        *World
	kinds    map[string]types.Type // nil -> nil type
	memo     map[string]map[string]bool
	busy     map[string]bool
	verdicts map[string]int
	e        *Engine
}

func newKindAnalysis(w *World) *kindAnalysis {
	ka := &kindAnalysis{w: w, kinds: map[string]types.Type{"nil": nil}, memo: map[string]map[string]bool{}, busy: map[string]bool{}}
	sc := w.ByPath[modPath+"/types"].Types.Scope()
	for _, n := range []string{"List", "Vector", "HashMap", "Set", "Symbol"} {
		if o := sc.Lookup(n); o != nil {
			ka.kinds[n] = o.Type()
		}
	}
	ka.kinds["string"] = types.Typ[types.String]
	ka.kinds["int"] = types.Typ[types.Int]
	return ka
}

// feasibleReturns: the returns of fn reachable when parameter idx has dynamic kind k.
func (ka *kindAnalysis) feasibleReturns(fn *ssa.Function, idx int, k string, depth int) []*ssa.Return {
	p := fn.Params[idx]
	kt := ka.kinds[k]
	assign := map[ssa.Value]bool{}
	isP := func(v ssa.Value) bool {
		for {
			switch x := v.(type) {
			case *ssa.MakeInterface:
				v = x.X
				continue
			case *ssa.ChangeInterface:
				v = x.X
				continue
			}
			break
		}
		return v == ssa.Value(p)
	}
	for _, b := range fn.Blocks {
		for _, in := range b.Instrs {
			switch x := in.(type) {
			case *ssa.Extract:
				if ta, ok := x.Tuple.(*ssa.TypeAssert); ok && ta.CommaOk && x.Index == 1 && isP(ta.X) {
					if _, isIface := ta.AssertedType.Underlying().(*types.Interface); !isIface {
						assign[x] = kt != nil && types.Identical(ta.AssertedType, kt)
					}
				}
				// ok flag / error of a helper the parameter is handed to
				if c, ok := x.Tuple.(*ssa.Call); ok && depth < 3 {
					callee := c.Call.StaticCallee()
					if callee == nil || !inModule(callee) || len(callee.Blocks) == 0 {
						continue
					}
					for i, a := range c.Call.Args {
						if !isP(a) || i >= len(callee.Params) {
							continue
						}
						rets := ka.feasibleReturns(callee, i, k, depth+1)
						if isErrorType(x.Type()) {
							mayOK, mayFail := false, false
							for _, ret := range rets {
								if isNilConst(resolveRet(ret.Results[x.Index])) {
									mayOK = true
								} else {
									mayFail = true
								}
							}
							for _, ref := range *x.Referrers() {
								if bo, ok := ref.(*ssa.BinOp); ok && isNilConst(bo.Y) && (bo.Op == token.NEQ || bo.Op == token.EQL) && mayOK != mayFail {
									assign[bo] = (bo.Op == token.NEQ) == mayFail
								}
							}
						} else if isBoolType(x.Type()) {
							t, f := false, false
							for _, ret := range rets {
								if c, ok := resolveRet(ret.Results[x.Index]).(*ssa.Const); ok && c.Value != nil {
									if c.Value.String() == "true" {
										t = true
									} else {
										f = true
									}
								} else {
									t, f = true, true
								}
							}
							if t != f {
								assign[x] = t
							}
						}
					}
				}
			case *ssa.BinOp:
				if (x.Op == token.EQL || x.Op == token.NEQ) && isNilConst(x.Y) && isP(x.X) {
					assign[x] = (x.Op == token.EQL) == (k == "nil")
				}
			case *ssa.Call:
				// a predicate of the module on the parameter (Q[List](x), List_Q(x)) is left undecided
			}
		}
	}
	var out []*ssa.Return
	seen := map[*ssa.BasicBlock]bool{}
	stack := []*ssa.BasicBlock{fn.Blocks[0]}
	for len(stack) > 0 {
		b := stack[len(stack)-1]
		stack = stack[:len(stack)-1]
		if seen[b] {
			continue
		}
		seen[b] = true
		if ret, ok := b.Instrs[len(b.Instrs)-1].(*ssa.Return); ok {
			out = append(out, ret)
			continue
		}
		if iff := blockIf(b); iff != nil {
			cond, neg := iff.Cond, false
			if u, ok := cond.(*ssa.UnOp); ok && u.Op == token.NOT {
				cond, neg = u.X, true
			}
			if val, ok := assign[cond]; ok {
				if val != neg {
					stack = append(stack, b.Succs[0])
				} else {
					stack = append(stack, b.Succs[1])
				}
				continue
			}
		}
		stack = append(stack, b.Succs...)
	}
	return out
}

// testsKind: the function decides something by the dynamic type of the parameter (an assertion or type switch on
// it, or a helper of the module it hands the parameter to that does).
func (ka *kindAnalysis) testsKind(fn *ssa.Function, idx int, depth int) bool {
	if idx >= len(fn.Params) || depth > 3 {
		return false
	}
	p := ssa.Value(fn.Params[idx])
	strip := func(v ssa.Value) ssa.Value {
		for {
			switch x := v.(type) {
			case *ssa.MakeInterface:
				v = x.X
				continue
			case *ssa.ChangeInterface:
				v = x.X
				continue
			}
			return v
		}
	}
	for _, b := range fn.Blocks {
		for _, in := range b.Instrs {
			switch x := in.(type) {
			case *ssa.TypeAssert:
				if _, isIface := x.AssertedType.Underlying().(*types.Interface); !isIface && strip(x.X) == p {
					return true
				}
			case *ssa.Call:
				callee := x.Call.StaticCallee()
				if callee == nil || !inModule(callee) || len(callee.Blocks) == 0 {
					continue
				}
				for i, a := range x.Call.Args {
					if strip(a) == p && ka.testsKind(callee, i, depth+1) {
						return true
					}
				}
			}
		}
	}
	return false
}

// accepted: the kinds for which fn can return without an error.
func (ka *kindAnalysis) accepted(fn *ssa.Function, idx int) []string {
	ei := hasErrorResult(fn)
	var out []string
	for k := range ka.kinds {
		for _, ret := range ka.feasibleReturns(fn, idx, k, 0) {
			if ei < 0 || ei >= len(ret.Results) || isNilConst(resolveRet(ret.Results[ei])) {
				out = append(out, k)
				break
			}
		}
	}
	sort.Strings(out)
	return out
}

// siblingDomainRule: builtins of one family take the same kinds of value for their sequence argument: the
// count-taking sequence builtins (an int and a sequence in, a value and an error out: take, take-last, drop,
// drop-last) are compared pairwise. Where one of them refuses a kind another accepts - nil, the empty
// sequence of the language, say - one of the two is outside the documented model.
func siblingDomainRule(w *World, r *Report, rule string) {
	r.rule(rule, "the registered builtins of lib/core with the Go signature (int, MalType) (MalType, error) - the count-taking sequence builtins take, take-last, drop, drop-last - that answer for both lists and vectors and test the kind of their argument accept the same kinds (lists, vectors, nil - and refuse the same: maps, sets, plain values) for their sequence argument (decided per kind by following each function's control flow with the argument's dynamic type fixed, through the helpers it hands the argument to): none of them fails on nil or on a vector where its siblings answer")
	ka := newKindAnalysis(w)
	type sib struct {
		fn    *ssa.Function
		kinds string
	}
	var sibs []sib
	for _, fn := range w.registeredFuncs() {
		if !strings.HasSuffix(fnPkgPath(fn), "/lib/core") || fn.Parent() != nil || len(fn.Params) != 2 || len(fn.Blocks) == 0 {
			continue
		}
		if !isIntType(fn.Params[0].Type()) || !isMalType(fn.Params[1].Type()) || hasErrorResult(fn) != 1 {
			continue
		}
		// a sequence consumer: it answers for lists and for vectors and looks at the kind of its argument
		// (a builtin of the same Go signature that takes any value as it is - a repeat, say - is no sibling)
		acc := ka.accepted(fn, 1)
		has := map[string]bool{}
		for _, k := range acc {
			has[k] = true
		}
		if !has["List"] || !has["Vector"] || !ka.testsKind(fn, 1, 0) {
			continue
		}
		sibs = append(sibs, sib{fn, strings.Join(acc, ",")})
	}
	sort.Slice(sibs, func(i, j int) bool { return sibs[i].fn.Name() < sibs[j].fn.Name() })
	groups := map[string][]string{}
	for _, s := range sibs {
		groups[s.kinds] = append(groups[s.kinds], s.fn.Name())
	}
	if len(groups) <= 1 {
		for _, s := range sibs {
			r.ok(rule, s.fn, "kinds accepted for the sequence argument", s.fn.Pos(), s.kinds)
		}
	} else {
		var desc []string
		for k, names := range groups {
			desc = append(desc, strings.Join(names, "/")+" accept {"+k+"}")
		}
		sort.Strings(desc)
		for _, s := range sibs {
			r.bad(rule, s.fn, "kinds accepted for the sequence argument", s.fn.Pos(), "the count-taking sequence builtins disagree on what they take: "+strings.Join(desc, "; ")+": for a kind one family member answers and another fails, one of them is outside the model (nil is the empty sequence for all of them)")
		}
	}
	r.floor(rule, "count-taking sequence builtins", len(sibs), 4)
}

// acceptedKindsTable: for every registered builtin of lib/core and each of its lisp-value parameters, the kinds of
// value for which a return without error is reachable (one line per parameter).
func acceptedKindsTable(w *World) []string {
	ka := newKindAnalysis(w)
	var out []string
	var kinds []string
	for k := range ka.kinds {
		kinds = append(kinds, k)
	}
	sort.Strings(kinds)
	for _, fn := range w.registeredFuncs() {
		if !strings.HasSuffix(fnPkgPath(fn), "/lib/core") || fn.Parent() != nil || len(fn.Blocks) == 0 {
			continue
		}
		for i, p := range fn.Params {
			if !isMalType(p.Type()) {
				continue
			}
			var acc, rej []string
			for _, k := range kinds {
				switch ka.verdict(fn, i, k, 0) {
				case kindAccept:
					acc = append(acc, k)
				case kindReject:
					rej = append(rej, k)
				}
			}
			out = append(out, fmt.Sprintf("\t%q: {%q, %q},", fn.Name()+"#"+itoa(i), strings.Join(acc, ","), strings.Join(rej, ",")))
		}
	}
	sort.Strings(out)
	return out
}

// ---------------------------------------------------------------------------
// Three-valued verdicts: does fn accept a value of kind k for parameter idx?

const (
	kindUnknown = 0
	kindAccept  = 1 // a return without error is reachable, and every test on the way was decided by the kind
	kindReject  = 2 // every reachable return reports an error
)

// verdict: follows the control flow of fn with the dynamic kind of parameter idx fixed to k. Tests of the
// parameter's type are decided; a test that mentions the parameter in another way (a predicate that could not be
// decided) makes the verdict unknown. A return that hands on the results of a function of the module the
// parameter was passed to is judged by that function.
func (ka *kindAnalysis) verdict(fn *ssa.Function, idx int, k string, depth int) int {
	key := fn.String() + "#" + itoa(idx) + "#" + k
	if ka.verdicts == nil {
		ka.verdicts = map[string]int{}
	}
	if v, ok := ka.verdicts[key]; ok {
		return v
	}
	ka.verdicts[key] = kindUnknown // recursion guard
	v := ka.verdictUncached(fn, idx, k, depth)
	ka.verdicts[key] = v
	return v
}

func (ka *kindAnalysis) verdictUncached(fn *ssa.Function, idx int, k string, depth int) int {
	if depth > 4 || len(fn.Blocks) == 0 || idx >= len(fn.Params) {
		return kindUnknown
	}
	p := fn.Params[idx]
	kt := ka.kinds[k]
	isP := func(v ssa.Value) bool {
		for {
			switch x := v.(type) {
			case *ssa.MakeInterface:
				v = x.X
				continue
			case *ssa.ChangeInterface:
				v = x.X
				continue
			case *ssa.ChangeType:
				v = x.X
				continue
			}
			break
		}
		return v == ssa.Value(p)
	}
	assign := map[ssa.Value]bool{}
	// values that depend on the parameter in a way the analysis cannot decide
	murky := map[ssa.Value]bool{}
	argIndex := func(c *ssa.CallCommon) int {
		for i, a := range c.Args {
			if isP(a) {
				return i
			}
		}
		return -1
	}
	for _, b := range fn.Blocks {
		for _, in := range b.Instrs {
			switch x := in.(type) {
			case *ssa.Extract:
				if ta, ok := x.Tuple.(*ssa.TypeAssert); ok && ta.CommaOk && x.Index == 1 && isP(ta.X) {
					if _, isIface := ta.AssertedType.Underlying().(*types.Interface); !isIface {
						assign[x] = kt != nil && types.Identical(ta.AssertedType, kt)
					} else {
						murky[x] = true
					}
				}
				if c, ok := x.Tuple.(*ssa.Call); ok {
					callee := c.Call.StaticCallee()
					ai := argIndex(&c.Call)
					if ai < 0 {
						continue
					}
					if callee == nil || !inModule(callee) || len(callee.Blocks) == 0 || ai >= len(callee.Params) {
						murky[x] = true
						continue
					}
					switch {
					case isErrorType(x.Type()):
						if ka.verdict(callee, ai, k, depth+1) == kindReject {
							for _, ref := range *x.Referrers() {
								if bo, ok := ref.(*ssa.BinOp); ok && isNilConst(bo.Y) && (bo.Op == token.NEQ || bo.Op == token.EQL) {
									assign[bo] = bo.Op == token.NEQ
								}
							}
						}
						// otherwise the callee may fail for other reasons too: its error decides nothing about
						// the kind, and is no test of the parameter either
					case isBoolType(x.Type()):
						t, f := ka.boolResult(callee, ai, k, x.Index, depth+1)
						if t != f {
							assign[x] = t
						} else {
							murky[x] = true
						}
					}
				}
			case *ssa.BinOp:
				if (x.Op == token.EQL || x.Op == token.NEQ) && isNilConst(x.Y) && isP(x.X) {
					assign[x] = (x.Op == token.EQL) == (k == "nil")
				}
			case *ssa.Call:
				// a predicate on the parameter: Q[List](x), List_Q(x), Sequential_Q(x)
				if !isBoolType(x.Type()) {
					continue
				}
				ai := argIndex(&x.Call)
				if ai < 0 {
					continue
				}
				callee := x.Call.StaticCallee()
				if callee == nil || !inModule(callee) || len(callee.Blocks) == 0 || ai >= len(callee.Params) {
					murky[x] = true
					continue
				}
				t, f := ka.boolResult(callee, ai, k, 0, depth+1)
				if t != f {
					assign[x] = t
				} else {
					murky[x] = true
				}
			}
		}
	}
	// walk
	success, failure, unknown := false, false, false
	seen := map[*ssa.BasicBlock]bool{}
	stack := []*ssa.BasicBlock{fn.Blocks[0]}
	ei := hasErrorResult(fn)
	for len(stack) > 0 {
		b := stack[len(stack)-1]
		stack = stack[:len(stack)-1]
		if seen[b] {
			continue
		}
		seen[b] = true
		last := b.Instrs[len(b.Instrs)-1]
		if ret, ok := last.(*ssa.Return); ok {
			if ei < 0 || ei >= len(ret.Results) {
				success = true
				continue
			}
			ev := resolveRet(ret.Results[ei])
			if isNilConst(ev) {
				success = true
				continue
			}
			// the results of a callee handed on as they are
			if ex, ok := ev.(*ssa.Extract); ok {
				if c, ok := ex.Tuple.(*ssa.Call); ok {
					callee := c.Call.StaticCallee()
					ai := argIndex(&c.Call)
					if callee != nil && ai >= 0 && inModule(callee) && len(callee.Blocks) > 0 && hasErrorResult(callee) == ex.Index {
						switch ka.verdict(callee, ai, k, depth+1) {
						case kindAccept:
							success = true
						case kindReject:
							failure = true
						default:
							unknown = true
						}
						continue
					}
					// an error of a call that does not get the parameter: a failure where it is known to be
					// non-nil (returned under `if err != nil`), otherwise it may be nil
					if ka.engine().nonNilFact(ev, b) {
						failure = true
					} else {
						success, failure = true, true
					}
					continue
				}
			}
			failure = true
			continue
		}
		if _, isPanic := last.(*ssa.Panic); isPanic {
			failure = true
			continue
		}
		if iff := blockIf(b); iff != nil {
			cond, neg := iff.Cond, false
			if u, ok := cond.(*ssa.UnOp); ok && u.Op == token.NOT {
				cond, neg = u.X, true
			}
			if val, ok := assign[cond]; ok {
				if val != neg {
					stack = append(stack, b.Succs[0])
				} else {
					stack = append(stack, b.Succs[1])
				}
				continue
			}
			if ka.mentions(cond, murky, map[ssa.Value]bool{}, 0) {
				unknown = true
			}
		}
		stack = append(stack, b.Succs...)
	}
	switch {
	case unknown:
		return kindUnknown
	case success:
		return kindAccept
	case failure:
		return kindReject
	}
	return kindUnknown
}

// mentions: the condition is computed from one of the murky values (through boolean merges and negations).
func (ka *kindAnalysis) mentions(v ssa.Value, murky map[ssa.Value]bool, seen map[ssa.Value]bool, depth int) bool {
	if depth > 6 || seen[v] {
		return false
	}
	seen[v] = true
	if murky[v] {
		return true
	}
	switch x := v.(type) {
	case *ssa.Phi:
		for _, ed := range x.Edges {
			if ka.mentions(ed, murky, seen, depth+1) {
				return true
			}
		}
	case *ssa.UnOp:
		return ka.mentions(x.X, murky, seen, depth+1)
	case *ssa.BinOp:
		return ka.mentions(x.X, murky, seen, depth+1) || ka.mentions(x.Y, murky, seen, depth+1)
	}
	return false
}

// boolResult: can result number ri of fn be true / false when parameter idx has kind k?
func (ka *kindAnalysis) boolResult(fn *ssa.Function, idx int, k string, ri int, depth int) (canTrue, canFalse bool) {
	if depth > 4 {
		return true, true
	}
	for _, ret := range ka.feasibleReturns(fn, idx, k, depth) {
		if ri >= len(ret.Results) {
			return true, true
		}
		v := resolveRet(ret.Results[ri])
		if c, ok := v.(*ssa.Const); ok && c.Value != nil && c.Value.Kind() == constant.Bool {
			if constant.BoolVal(c.Value) {
				canTrue = true
			} else {
				canFalse = true
			}
			continue
		}
		// `return x == nil`
		if bo, ok := v.(*ssa.BinOp); ok && (bo.Op == token.EQL || bo.Op == token.NEQ) && isNilConst(bo.Y) {
			inner := bo.X
			for {
				if mi, ok := inner.(*ssa.MakeInterface); ok {
					inner = mi.X
					continue
				}
				if ci, ok := inner.(*ssa.ChangeInterface); ok {
					inner = ci.X
					continue
				}
				break
			}
			if inner == ssa.Value(fn.Params[idx]) {
				if (bo.Op == token.EQL) == (k == "nil") {
					canTrue = true
				} else {
					canFalse = true
				}
				continue
			}
		}
		// `_, ok := x.(T); return ok`
		if ex, ok := v.(*ssa.Extract); ok && ex.Index == 1 {
			if ta, ok := ex.Tuple.(*ssa.TypeAssert); ok && ta.CommaOk {
				inner := ta.X
				for {
					if mi, ok := inner.(*ssa.MakeInterface); ok {
						inner = mi.X
						continue
					}
					break
				}
				if inner == ssa.Value(fn.Params[idx]) {
					kt := ka.kinds[k]
					if _, isIface := ta.AssertedType.Underlying().(*types.Interface); !isIface {
						if kt != nil && types.Identical(ta.AssertedType, kt) {
							canTrue = true
						} else {
							canFalse = true
						}
						continue
					}
				}
			}
		}
		return true, true
	}
	return
}

// domainTableRule: the kinds of argument each collection builtin takes are part of its definition ("outside their
// domain they return an error instead of a wrong value"). For every parameter the verdict per kind is compared
// with the table confirmed on the reviewed tree: a kind that was refused and is now answered for (a wrong value
// where an error is due), or was answered for and is now refused, is reported. Where the analysis cannot decide
// (a test on the argument it cannot follow), nothing is said.
func domainTableRule(w *World, r *Report, rule string) {
	r.rule(rule, "for every lisp-value parameter of the registered builtins of lib/core and each kind of value (nil, list, vector, hash-map, set, symbol, string, int) the builtin still answers without error exactly where the confirmed table says it does and still refuses where the table says it refuses (decided by following the control flow with the argument's dynamic kind fixed, through the helpers and predicates the argument is handed to; undecidable cases give no verdict)")
	ka := newKindAnalysis(w)
	var kinds []string
	for k := range ka.kinds {
		kinds = append(kinds, k)
	}
	sort.Strings(kinds)
	n, decided := 0, 0
	for _, fn := range w.registeredFuncs() {
		if !strings.HasSuffix(fnPkgPath(fn), "/lib/core") || fn.Parent() != nil || len(fn.Blocks) == 0 {
			continue
		}
		for i, p := range fn.Params {
			if !isMalType(p.Type()) {
				continue
			}
			row, ok := confirmedArgKinds[w.roleName(fn)+"#"+itoa(i)]
			if !ok {
				row, ok = confirmedArgKinds[fn.Name()+"#"+itoa(i)]
			}
			if !ok {
				continue // a builtin added later: no reference
			}
			n++
			acc, rej := map[string]bool{}, map[string]bool{}
			for _, k := range strings.Split(row[0], ",") {
				acc[k] = true
			}
			for _, k := range strings.Split(row[1], ",") {
				rej[k] = true
			}
			var widened, narrowed []string
			for _, k := range kinds {
				switch ka.verdict(fn, i, k, 0) {
				case kindAccept:
					decided++
					if rej[k] {
						widened = append(widened, k)
					}
				case kindReject:
					decided++
					if acc[k] {
						narrowed = append(narrowed, k)
					}
				}
			}
			what := fmt.Sprintf("kinds taken for parameter %d of %s", i, fn.Name())
			switch {
			case len(widened) > 0:
				r.bad(rule, fn, what, fn.Pos(), "the builtin now answers without error for an argument of kind "+strings.Join(widened, ", ")+", which it refused: outside its domain it returns a value where the definition prescribes an error")
			case len(narrowed) > 0:
				r.bad(rule, fn, what, fn.Pos(), "the builtin now refuses an argument of kind "+strings.Join(narrowed, ", ")+", which it answered for: inside its domain it fails where the model gives a value")
			default:
				r.ok(rule, fn, what, fn.Pos(), "accepts {"+row[0]+"}, refuses {"+row[1]+"}")
			}
		}
	}
	r.floor(rule, "parameters compared with the confirmed table", n, 30)
	r.floor(rule, "kind verdicts decided", decided, 150)
}

func (ka *kindAnalysis) engine() *Engine {
	if ka.e == nil {
		ka.e = newEngine(ka.w)
	}
	return ka.e
}
