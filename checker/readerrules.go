package main

// Reader rules added after the third round of seeded changes: token text verbatim, a single top-level
// form per text, integer conversion as the inverse of the printer's.

import (
	"fmt"
	"go/constant"
	"go/token"
	"go/types"
	"strings"

	"golang.org/x/tools/go/ssa"
)

// tokenVerbatimRule: read_form and read_list classify a token by its text alone (brackets, reader macros,
// placeholders).  That is only sound when the tokenizer stores the scanner's text of every token unmodified, so a
// string, keyword or raw string can never be mistaken for syntax; otherwise the dispatch has to consult the
// token's type.
func tokenVerbatimRule(w *World, r *Report, rule string) {
	r.rule(rule, "the tokenizer stores the scanner's text of every token unmodified (TokenText()), unless the dispatch of read_form consults the token type: the reader classifies tokens by their text alone, so a delimiter-less string or keyword would be taken for syntax")
	tok := w.Fn("reader", "tokenize")
	rf := w.Fn("reader", "read_form")
	if tok == nil || rf == nil {
		r.undecided(rule, nil, "tokenize/read_form", token.NoPos, "function no longer resolves")
		return
	}
	consultsType := false
	for _, f := range w.withPkgHelpers(rf) {
		for _, b := range f.Blocks {
			for _, in := range b.Instrs {
				switch x := in.(type) {
				case *ssa.FieldAddr:
					if isTokenStruct(x.X.Type()) && fieldName(x.X.Type(), x.Field) == "Type" && f != w.Fn("reader", "read_atom") {
						consultsType = true
					}
				case *ssa.Field:
					if isTokenStruct(x.X.Type()) && fieldName(x.X.Type(), x.Field) == "Type" && f != w.Fn("reader", "read_atom") {
						consultsType = true
					}
				}
			}
		}
	}
	n := 0
	for _, f := range w.withPkgHelpers(tok) {
		for _, b := range f.Blocks {
			for _, in := range b.Instrs {
				st, ok := in.(*ssa.Store)
				if !ok {
					continue
				}
				fa, ok := st.Addr.(*ssa.FieldAddr)
				if !ok || !isTokenStruct(fa.X.Type()) || fieldName(fa.X.Type(), fa.Field) != "Value" {
					continue
				}
				n++
				verbatim := isTokenText(st.Val, 0)
				r.check(verbatim || consultsType, rule, f, "text stored in a token", st.Pos(), "the scanner's TokenText(), unmodified", "the tokenizer alters the token text ("+describeVal(nil, st.Val, 0)+") but the reader classifies tokens by text alone: a string/keyword whose remaining text looks like a bracket, reader macro or placeholder is read as syntax")
			}
		}
	}
	r.floor(rule, "stores of a token's text", n, 1)
}

func isTokenStruct(t types.Type) bool {
	if p, ok := t.Underlying().(*types.Pointer); ok {
		t = p.Elem()
	}
	n, ok := t.(*types.Named)
	return ok && n.Obj().Name() == "Token" && n.Obj().Pkg() != nil && strings.HasSuffix(n.Obj().Pkg().Path(), "/types")
}

func isTokenText(v ssa.Value, depth int) bool {
	if depth > 6 {
		return false
	}
	switch x := v.(type) {
	case *ssa.Call:
		if x.Call.StaticCallee() != nil && x.Call.StaticCallee().Name() == "TokenText" {
			return true
		}
		if isStringsFn(x, "Clone") {
			return isTokenText(x.Call.Args[0], depth+1)
		}
	case *ssa.Phi:
		for _, op := range x.Edges {
			if !isTokenText(op, depth+1) {
				return false
			}
		}
		return len(x.Edges) > 0
	}
	return false
}

// singleFormRule: Read_str reads exactly one form; what is left over is rejected with its own error, never
// parsed again (a second parse would report a cut trailing form as "incomplete input").
func singleFormRule(w *World, r *Report, rule string) {
	r.rule(rule, "Read_str (with the unexported functions it is built from) calls read_form exactly once: trailing tokens are rejected with their own error and never run through the parser, whose end-of-input errors mean 'incomplete'")
	rs := w.Fn("reader", "Read_str")
	rf := w.Fn("reader", "read_form")
	if rs == nil || rf == nil {
		r.undecided(rule, nil, "Read_str/read_form", token.NoPos, "function no longer resolves")
		return
	}
	n := 0
	var first token.Pos
	for _, f := range w.withPkgHelpers(rs) {
		if f == rf || callsFnTransitively(rf, f, map[*ssa.Function]bool{}) {
			continue // the parser itself
		}
		for _, b := range f.Blocks {
			for _, in := range b.Instrs {
				if ci, ok := in.(ssa.CallInstruction); ok && ci.Common().StaticCallee() == rf {
					n++
					if n == 2 {
						first = in.Pos()
					}
				}
			}
		}
	}
	r.check(n == 1, rule, rs, "calls of read_form", first, "exactly one", fmt.Sprintf("%d calls of read_form: trailing text is parsed again, so malformed trailing input is classified by the parser's end-of-input error", n))
}

// callsFnTransitively: f is reachable from root through static calls inside the package.
func callsFnTransitively(root, f *ssa.Function, seen map[*ssa.Function]bool) bool {
	if root == f {
		return true
	}
	if seen[root] {
		return false
	}
	seen[root] = true
	for _, b := range root.Blocks {
		for _, in := range b.Instrs {
			if ci, ok := in.(ssa.CallInstruction); ok {
				if c := ci.Common().StaticCallee(); c != nil && c.Pkg == root.Pkg && callsFnTransitively(c, f, seen) {
					return true
				}
			}
		}
	}
	return false
}

// intInverseRule: the printer writes integers with the standard decimal formatter over the whole int range; the
// reader must hand the token text to the inverse standard parser for signed integers and return its result as is.
func intInverseRule(w *World, r *Report, rule string) {
	r.rule(rule, "an integer token is converted by strconv.ParseInt/Atoi applied to the token text itself and the result is returned converted to int with no arithmetic in between (the inverse of the printer's decimal formatting over the whole range, including the minimum integer)")
	ra := w.Fn("reader", "read_atom")
	if ra == nil {
		r.undecided(rule, nil, "read_atom", token.NoPos, "function no longer resolves")
		return
	}
	n := 0
	for _, f := range w.withPkgHelpers(ra) {
		for _, b := range f.Blocks {
			if len(b.Instrs) == 0 || b == f.Recover {
				continue
			}
			ret, ok := b.Instrs[len(b.Instrs)-1].(*ssa.Return)
			if !ok || len(ret.Results) == 0 {
				continue
			}
			mi, ok := resolveRet(ret.Results[0]).(*ssa.MakeInterface)
			if !ok {
				continue
			}
			bt, ok := mi.X.Type().Underlying().(*types.Basic)
			if !ok || bt.Kind() != types.Int {
				continue
			}
			n++
			okInt, detail := parsedIntVerbatim(mi.X, 0)
			r.check(okInt, rule, f, "integer value returned by the reader", ret.Pos(), "result of strconv.ParseInt/Atoi on the token text", "the integer is not the unmodified result of the signed standard parser on the token text ("+detail+"): some printed integers (the minimum integer, values near the range limits) do not read back")
		}
	}
	r.floor(rule, "integer results of read_atom", n, 1)
	// an integer token yields an integer or an error, nothing else: whatever is returned with a nil error after
	// the integer parser was tried on the token (in the branch of that token kind) is the parsed int - a value of
	// another kind (a float for a literal out of range) prints as a text of another token kind and does not read
	// back equal
	np := 0
	for _, f := range w.withPkgHelpers(ra) {
		for _, b := range f.Blocks {
			for _, in := range b.Instrs {
				c, ok := in.(*ssa.Call)
				if !ok || c.Call.StaticCallee() == nil || fnPkgPath(c.Call.StaticCallee()) != "strconv" {
					continue
				}
				if nm := c.Call.StaticCallee().Name(); nm != "ParseInt" && nm != "Atoi" {
					continue
				}
				if !tokenTextArg(c.Call.Args[0], 0) {
					continue
				}
				np++
				for _, rt := range (&evalModel{}).returns(f) {
					ret := rt[0].(*ssa.Return)
					if !(ret.Block() == b || b.Dominates(ret.Block())) || len(ret.Results) < 2 {
						continue
					}
					ev, _ := rt[2].(ssa.Value)
					if ev == nil || !isNilConst(ev) {
						continue
					}
					isInt := false
					if mi, ok := resolveRet(ret.Results[0]).(*ssa.MakeInterface); ok {
						if bt, ok := mi.X.Type().Underlying().(*types.Basic); ok && bt.Kind() == types.Int {
							isInt = true
						}
					}
					r.check(isInt, rule, f, "value read from an integer token", ret.Pos(), "an int", "an integer token is read as a value of another kind on this path: it prints as a text of another token kind, which does not read back equal (a literal without a decimal point must read back as what it was read as)")
				}
			}
		}
	}
	r.floor(rule, "integer parses of the token text", np, 1)
}

func parsedIntVerbatim(v ssa.Value, depth int) (bool, string) {
	if depth > 6 {
		return false, "too deep"
	}
	switch x := v.(type) {
	case *ssa.Convert:
		return parsedIntVerbatim(x.X, depth+1)
	case *ssa.ChangeType:
		return parsedIntVerbatim(x.X, depth+1)
	case *ssa.Extract:
		c, ok := x.Tuple.(*ssa.Call)
		if !ok || x.Index != 0 || c.Call.StaticCallee() == nil || fnPkgPath(c.Call.StaticCallee()) != "strconv" {
			return false, "not a strconv result"
		}
		switch c.Call.StaticCallee().Name() {
		case "ParseInt", "Atoi":
			if !tokenTextArg(c.Call.Args[0], 0) {
				return false, "the parser is not given the token text itself"
			}
			return true, ""
		}
		return false, "strconv." + c.Call.StaticCallee().Name() + " instead of the signed parser"
	case *ssa.Phi:
		for _, op := range x.Edges {
			if ok, d := parsedIntVerbatim(op, depth+1); !ok {
				return false, d
			}
		}
		return len(x.Edges) > 0, ""
	case *ssa.BinOp:
		return false, "arithmetic " + x.Op.String() + " on the parsed value"
	case *ssa.UnOp:
		return false, "operator " + x.Op.String() + " on the parsed value"
	}
	return false, "unrecognised origin"
}

// tokenTextArg: the value is the Value field of a token (possibly through a pointer to it), unmodified.
func tokenTextArg(v ssa.Value, depth int) bool {
	if depth > 6 {
		return false
	}
	switch x := v.(type) {
	case *ssa.UnOp:
		if x.Op != token.MUL {
			return false
		}
		if fa, ok := x.X.(*ssa.FieldAddr); ok {
			return isTokenStruct(fa.X.Type()) && fieldName(fa.X.Type(), fa.Field) == "Value"
		}
		// load of a local cell holding &tok.Value
		if al, ok := x.X.(*ssa.Alloc); ok {
			for _, ref := range *al.Referrers() {
				if st, ok := ref.(*ssa.Store); ok && st.Addr == ssa.Value(al) {
					return tokenTextArg(st.Val, depth+1)
				}
			}
		}
		return tokenTextArg(x.X, depth+1)
	case *ssa.FieldAddr:
		return isTokenStruct(x.X.Type()) && fieldName(x.X.Type(), x.Field) == "Value"
	case *ssa.Field:
		return isTokenStruct(x.X.Type()) && fieldName(x.X.Type(), x.Field) == "Value"
	case *ssa.Phi:
		for _, op := range x.Edges {
			if !tokenTextArg(op, depth+1) {
				return false
			}
		}
		return len(x.Edges) > 0
	case *ssa.Parameter:
		// the parameter of an unexported function of the reader that is handed the token text at every call
		fn := x.Parent()
		if fn == nil || fn.Pkg == nil || fn.Object() == nil || fn.Object().Exported() {
			return false
		}
		idx := -1
		for i, p := range fn.Params {
			if p == x {
				idx = i
			}
		}
		n := 0
		var scan func(g *ssa.Function) bool
		scan = func(g *ssa.Function) bool {
			for _, b := range g.Blocks {
				for _, in := range b.Instrs {
					for _, op := range in.Operands(nil) {
						if *op == ssa.Value(fn) {
							ci, isCall := in.(ssa.CallInstruction)
							if !isCall || ci.Common().Value != ssa.Value(fn) {
								return false // used as a value: call sites unknown
							}
						}
					}
					if ci, ok := in.(ssa.CallInstruction); ok && ci.Common().StaticCallee() == fn && idx < len(ci.Common().Args) {
						n++
						if !tokenTextArg(ci.Common().Args[idx], depth+1) {
							return false
						}
					}
				}
			}
			for _, an := range g.AnonFuncs {
				if !scan(an) {
					return false
				}
			}
			return true
		}
		for _, mem := range fn.Pkg.Members {
			if g, ok := mem.(*ssa.Function); ok && !scan(g) {
				return false
			}
		}
		return n > 0
	}
	return false
}

// textIntactRule: the characters the scanner sees are the characters the caller passed: Read_str hands its text
// to the tokenizer unchanged, and the tokenizer feeds its parameter to the scanner unchanged.  (Any rewriting
// here also rewrites the inside of string literals, and shifts every position.)
func textIntactRule(w *World, r *Report, rule string) {
	r.rule(rule, "the text given to Read_str reaches the scanner unchanged: Read_str passes its own parameter to the tokenizer, and the tokenizer initialises the scanner with a reader over its own parameter (no replacement, trimming or normalisation of the source text on the way; string literals would be rewritten with it)")
	rs, tk := w.Fn("reader", "Read_str"), w.Fn("reader", "tokenize")
	if rs == nil || tk == nil {
		r.undecided(rule, nil, "Read_str/tokenize", token.NoPos, "function no longer resolves")
		return
	}
	n := 0
	// identity up to the parameters of unexported helpers in between
	var isParamOf func(v ssa.Value, root *ssa.Function, depth int) bool
	isParamOf = func(v ssa.Value, root *ssa.Function, depth int) bool {
		p, ok := v.(*ssa.Parameter)
		if !ok || depth > 4 {
			return false
		}
		if p.Parent() == root {
			return isStringVal(p)
		}
		args := w.callSiteArgs(p)
		if len(args) == 0 {
			return false
		}
		for _, a := range args {
			if !isParamOf(a, root, depth+1) {
				return false
			}
		}
		return true
	}
	for _, f := range w.withPkgHelpers(rs) {
		for _, c := range staticCallsTo(f, tk) {
			n++
			r.check(isParamOf(c.Call.Args[0], rs, 0), rule, f, "text handed to the tokenizer", c.Pos(), "the text given to Read_str, unchanged", "the text is altered before it is tokenized ("+describeVal(nil, c.Call.Args[0], 0)+"): characters inside string literals change with it and positions are counted in the altered text")
		}
	}
	for _, f := range w.withPkgHelpers(tk) {
		for _, b := range f.Blocks {
			for _, in := range b.Instrs {
				c, ok := in.(*ssa.Call)
				if !ok || c.Call.StaticCallee() == nil || c.Call.StaticCallee().Name() != "NewReader" || fnPkgPath(c.Call.StaticCallee()) != "strings" {
					continue
				}
				n++
				r.check(isParamOf(c.Call.Args[0], tk, 0), rule, f, "text the scanner reads", c.Pos(), "the tokenizer's own parameter, unchanged", "the tokenizer rewrites the source text before scanning ("+describeVal(nil, c.Call.Args[0], 0)+"): the replacement also applies inside string and raw-string literals")
			}
		}
	}
	// the entry points of the root package that take a source text hand it to the reader as it is (the one
	// that decodes a preamble cuts lines off the front and is judged by C15's rules)
	readers := map[*ssa.Function]bool{rs: true}
	for _, name := range []string{"READ", "READWithPreamble"} {
		if f := w.Fn("", name); f != nil {
			readers[f] = true
		}
	}
	// (the preamble decoder and the functions only it calls read pieces of the text: lines, values)
	cutGroup := map[*ssa.Function]bool{}
	for _, f := range w.Funcs {
		if fnPkgPath(f) != modPath || isTestFunc(w, f) {
			continue
		}
		for _, b := range f.Blocks {
			for _, in := range b.Instrs {
				if c, ok := in.(*ssa.Call); ok && c.Call.StaticCallee() != nil && fnPkgPath(c.Call.StaticCallee()) == "strings" && c.Call.StaticCallee().Name() == "Cut" {
					cutGroup[f] = true
				}
			}
		}
	}
	eng := newEngine(w)
	for changed := true; changed; {
		changed = false
		for _, f := range w.Funcs {
			if cutGroup[f] || fnPkgPath(f) != modPath || isTestFunc(w, f) || f.Parent() != nil {
				continue
			}
			sites := eng.callSites(f)
			all := len(sites) > 0
			for _, cs := range sites {
				if !cutGroup[cs.Parent()] {
					all = false
				}
			}
			if all {
				cutGroup[f] = true
				changed = true
			}
		}
	}
	for _, f := range w.Funcs {
		if f.Parent() != nil || isTestFunc(w, f) || fnPkgPath(f) != modPath || len(f.Blocks) == 0 || cutGroup[f] {
			continue
		}
		cuts := false
		var calls []*ssa.Call
		for _, b := range f.Blocks {
			for _, in := range b.Instrs {
				c, ok := in.(*ssa.Call)
				if !ok || c.Call.StaticCallee() == nil {
					continue
				}
				if fnPkgPath(c.Call.StaticCallee()) == "strings" && c.Call.StaticCallee().Name() == "Cut" {
					cuts = true
				}
				if readers[c.Call.StaticCallee()] && len(c.Call.Args) > 0 && isStringVal(c.Call.Args[0]) {
					calls = append(calls, c)
				}
			}
		}
		if cuts {
			continue
		}
		for _, c := range calls {
			n++
			r.check(isParamOf(c.Call.Args[0], f, 0), rule, f, "text handed to "+c.Call.StaticCallee().Name(), c.Pos(), "the function's own text parameter, unchanged", "the text is altered before it is read ("+describeVal(nil, c.Call.Args[0], 0)+"): a line put in front of it, or anything else that moves its characters, shifts every position the reader records, so run-time errors point at the wrong rows")
		}
	}
	// ... and the scanner reads from that reader itself, not from one wrapped around it (a limiting, skipping
	// or transcoding reader shows the scanner another text than the one that was given)
	for _, f := range w.withPkgHelpers(tk) {
		for _, b := range f.Blocks {
			for _, in := range b.Instrs {
				c, ok := in.(*ssa.Call)
				if !ok || c.Call.StaticCallee() == nil || c.Call.StaticCallee().Name() != "Init" || c.Call.StaticCallee().Signature.Recv() == nil || len(c.Call.Args) < 2 {
					continue
				}
				if !strings.Contains(c.Call.StaticCallee().Signature.Recv().Type().String(), "scanner.Scanner") {
					continue
				}
				n++
				src := unboxed(c.Call.Args[1])
				direct := false
				if sc, ok := src.(*ssa.Call); ok && sc.Call.StaticCallee() != nil && sc.Call.StaticCallee().Name() == "NewReader" && fnPkgPath(sc.Call.StaticCallee()) == "strings" {
					direct = true
				}
				r.check(direct, rule, f, "reader the scanner is initialised with", c.Pos(), "strings.NewReader(text) itself", "the scanner does not read the text's own reader but "+describeVal(nil, src, 0)+": what it sees can be shorter than or different from the text (a text cut at a size limit is reported as incomplete, or its rest is silently dropped)")
			}
		}
	}
	r.floor(rule, "hand-overs of the source text", n, 2)
}

// keywordInjectiveRule: the keyword constructor prepends the marker to every name, also to a name that itself
// begins with the marker (otherwise two different keywords share one representation and print/read merges them).
func keywordInjectiveRule(w *World, r *Report, rule string) {
	r.rule(rule, "NewKeyword returns the marker followed by its argument on every path (an injective encoding): the reader can hand it any name, including one that begins with the marker letter")
	fn := w.Fn("types", "NewKeyword")
	if fn == nil {
		r.undecided(rule, nil, "NewKeyword", token.NoPos, "function no longer resolves")
		return
	}
	n := 0
	for _, b := range fn.Blocks {
		if len(b.Instrs) == 0 {
			continue
		}
		ret, ok := b.Instrs[len(b.Instrs)-1].(*ssa.Return)
		if !ok || len(ret.Results) != 1 {
			continue
		}
		n++
		okV := false
		if bo, ok := ret.Results[0].(*ssa.BinOp); ok && bo.Op == token.ADD {
			if k, ok := constString(bo.X); ok && k != "" && bo.Y == ssa.Value(fn.Params[0]) {
				okV = true
			}
		}
		r.check(okV, rule, fn, "value returned by NewKeyword", ret.Pos(), "marker + name", "a path returns something other than the marker followed by the name ("+describeVal(nil, ret.Results[0], 0)+"): the keyword whose name starts with the marker and the keyword without it get the same representation")
	}
	r.floor(rule, "returns of NewKeyword", n, 1)
}

// scannerErrorRule: the reader relies on the scanner for well-formed tokens (string, raw-string and keyword
// tokens that include their delimiters).  The scanner only promises that for tokens it scanned without raising
// its error count, so the tokenizer must give up on the first error: nothing resets the count, and no path from
// the "count != 0" branch hands a token on.
func scannerErrorRule(w *World, r *Report, rule string) {
	r.rule(rule, "the tokenizer returns an error as soon as the scanner's error count is non-zero: no assignment to the count, and no path from the error branch reaches the place where a token is appended (the slices the reader takes of string tokens are only in range for tokens the scanner accepted)")
	tk := w.Fn("reader", "tokenize")
	if tk == nil {
		r.undecided(rule, nil, "tokenize", token.NoPos, "function no longer resolves")
		return
	}
	n := 0
	isErrCount := func(v ssa.Value) bool {
		ld, ok := v.(*ssa.UnOp)
		if !ok || ld.Op != token.MUL {
			return false
		}
		fa, ok := ld.X.(*ssa.FieldAddr)
		return ok && fieldName(fa.X.Type(), fa.Field) == "ErrorCount"
	}
	// blocks that hand a token on: stores into Token structs / appends of tokens
	tokenBlocks := map[*ssa.BasicBlock]bool{}
	for _, f := range w.withPkgHelpers(tk) {
		for _, b := range f.Blocks {
			for _, in := range b.Instrs {
				if st, ok := in.(*ssa.Store); ok {
					if fa, ok := st.Addr.(*ssa.FieldAddr); ok && isTokenStruct(fa.X.Type()) && fieldName(fa.X.Type(), fa.Field) == "Value" {
						tokenBlocks[b] = true
					}
					if fa, ok := st.Addr.(*ssa.FieldAddr); ok && fieldName(fa.X.Type(), fa.Field) == "ErrorCount" {
						n++
						r.bad(rule, f, "assignment to the scanner's error count", st.Pos(), "the error count is reset: tokens of input the scanner rejected (unterminated or malformed literals) reach the reader, whose slices assume well-formed tokens")
					}
				}
			}
		}
	}
	for _, b := range tk.Blocks {
		iff := blockIf(b)
		if iff == nil {
			continue
		}
		bo, ok := iff.Cond.(*ssa.BinOp)
		if !ok || (bo.Op != token.NEQ && bo.Op != token.EQL && bo.Op != token.GTR) {
			continue
		}
		if !isErrCount(bo.X) && !isErrCount(bo.Y) {
			continue
		}
		n++
		errEdge := 0
		if bo.Op == token.EQL {
			errEdge = 1
		}
		// no path from the error edge to a token block
		leak := false
		seen := map[*ssa.BasicBlock]bool{}
		work := []*ssa.BasicBlock{b.Succs[errEdge]}
		for len(work) > 0 {
			cur := work[len(work)-1]
			work = work[:len(work)-1]
			if seen[cur] {
				continue
			}
			seen[cur] = true
			if tokenBlocks[cur] {
				leak = true
				break
			}
			work = append(work, cur.Succs...)
		}
		r.check(!leak, rule, tk, "branch taken when the scanner reported an error", iff.Pos(), "always ends in an error return", "after the scanner reported an error a token can still be handed to the reader: the reader's slices of string tokens are out of range for a token that is just an opening quote")
	}
	r.floor(rule, "tests of the scanner's error count", n, 1)
}

// printerRules: (1) one escaper: every string that is part of a printed value - top level, element, map key,
// set member - is printed by Pr_str's own string branch; no other quoting function (strconv.Quote, %q) and no
// key printed without passing through Pr_str; (2) the printer keeps no state: it assigns no package-level variable.
func printerRules(w *World, r *Report, rule string) {
	r.rule(rule, "strings inside printed values are all printed by the one string branch of Pr_str whose escapes the reader undoes: hash-map keys and set members reach the output only through Pr_str, no function of package printer uses another quoting routine (strconv.Quote*, %q), and the printer assigns no package-level variable (PRINT may run in several evaluations at once)")
	prStr := w.Fn("printer", "Pr_str")
	if prStr == nil {
		r.undecided(rule, nil, "Pr_str", token.NoPos, "function no longer resolves")
		return
	}
	n := 0
	for _, fn := range w.pkgFuncs("printer") {
		for _, b := range fn.Blocks {
			for _, in := range b.Instrs {
				switch x := in.(type) {
				case *ssa.Store:
					if g, ok := x.Addr.(*ssa.Global); ok && fn.Name() != "init" && !strings.HasPrefix(g.Name(), "init$") {
						n++
						r.bad(rule, fn, "assignment to package variable "+g.Name(), x.Pos(), "the printer keeps state in a package-level variable: concurrent PRINTs share and overwrite it")
					}
					if ia, ok := x.Addr.(*ssa.IndexAddr); ok {
						if ld, ok := ia.X.(*ssa.UnOp); ok {
							if g, ok := ld.X.(*ssa.Global); ok {
								n++
								r.bad(rule, fn, "write into package variable "+g.Name(), x.Pos(), "the printer writes into storage held by a package-level variable: concurrent PRINTs share and overwrite it")
							}
						}
					}
				case *ssa.Call:
					if c := x.Call.StaticCallee(); c != nil {
						if fnPkgPath(c) == "strconv" && strings.Contains(c.Name(), "Quote") {
							n++
							r.bad(rule, fn, "call of strconv."+c.Name(), x.Pos(), "Go quoting escapes tab, CR, control and non-printable characters in ways the reader does not undo: such strings do not read back")
						}
						if fnPkgPath(c) == "fmt" && len(x.Call.Args) > 0 {
							if f, ok := constString(x.Call.Args[0]); ok && strings.Contains(f, "%q") {
								n++
								r.bad(rule, fn, "format verb %q", x.Pos(), "Go quoting is not the reader's escape table")
							}
						}
					}
				case *ssa.Next:
					// range over a map with string keys: the key goes to the output only through Pr_str
					if x.IsString {
						continue
					}
					for _, ref := range *x.Referrers() {
						ex, ok := ref.(*ssa.Extract)
						if !ok || ex.Index != 1 || !isStringVal(ex) {
							continue
						}
						for _, u := range *ex.Referrers() {
							n++
							okUse := false
							switch uu := u.(type) {
							case *ssa.MakeInterface:
								okUse = true
								for _, u2 := range *uu.Referrers() {
									c, isCall := u2.(*ssa.Call)
									if _, isDbg := u2.(*ssa.DebugRef); isDbg {
										continue
									}
									if !isCall || c.Call.StaticCallee() != prStr {
										okUse = false
									}
								}
							case *ssa.DebugRef, *ssa.Lookup:
								okUse = true
							}
							r.check(okUse, rule, fn, "use of a map key / set member while printing", instrPos(u), "handed to Pr_str", "a key or member is printed without going through Pr_str's string branch: its escaping is not the reader's")
						}
					}
				}
			}
		}
	}
	r.floor(rule, "uses of map keys and set members in the printer", n, 2)
}

// readerLimitRule: the reader refuses a text for what it says, never for how much of it there is: no branch of
// the reading code compares a count (a depth, a number of lines, tokens or forms) with a fixed limit.  Values of
// any size must read back (C06), placeholder tables of any size must be transported (C15).
func readerLimitRule(w *World, r *Report, rule string) {
	r.rule(rule, "no branch of the reading code (package reader, READ, READWithPreamble) compares an integer count with a constant limit: whether a text is read does not depend on how many collections, lines or tokens it has (a counter that is decremented wrongly - through a value receiver, a defer that captured the incremented value - then turns a nesting limit into a size limit)")
	var fns []*ssa.Function
	fns = append(fns, w.pkgFuncs("reader")...)
	for _, name := range []string{"READ", "READWithPreamble"} {
		if f := w.Fn("", name); f != nil {
			fns = append(fns, w.withPkgHelpers(f)...)
		}
	}
	countLimitScan(w, r, rule, fns, "the reading code")
}

// countLimitScan: no order comparison of an integer count with a constant limit (beyond small arities) in fns.
func countLimitScan(w *World, r *Report, rule string, fns []*ssa.Function, what string, wide ...bool) {
	seen := map[*ssa.Function]bool{}
	n := 0
	for _, root := range fns {
		for _, f := range append([]*ssa.Function{root}, allAnon(root)...) {
			if seen[f] || isTestFunc(w, f) {
				continue
			}
			seen[f] = true
			for _, b := range f.Blocks {
				for _, in := range b.Instrs {
					bo, ok := in.(*ssa.BinOp)
					if !ok {
						continue
					}
					switch bo.Op {
					case token.LSS, token.LEQ, token.GTR, token.GEQ:
					default:
						continue
					}
					n++
					for _, side := range [][2]ssa.Value{{bo.X, bo.Y}, {bo.Y, bo.X}} {
						k, ok := side[1].(*ssa.Const)
						if !ok || k.Value == nil || k.Value.Kind() != constant.Int {
							continue
						}
						bt, ok := side[0].Type().Underlying().(*types.Basic)
						if !ok || (bt.Kind() != types.Int && !(len(wide) > 0 && wide[0] && bt.Info()&types.IsInteger != 0 && bt.Kind() != types.Uint8)) {
							continue // runes, bytes, durations: not counts
						}
						if nt, isNamed := side[0].Type().(*types.Named); isNamed && nt.Obj().Pkg() != nil && nt.Obj().Pkg().Path() == "time" {
							continue
						}
						if v := k.Int64(); v > 8 || v < -8 {
							r.bad(rule, f, "count compared with a fixed limit", bo.Pos(), fmt.Sprintf("%s is compared with the constant %d: a text is treated differently once a count passes a fixed limit, so sufficiently large values (or preambles) are refused or cut short although they are well-formed", describeVal(nil, side[0], 0), v))
						}
					}
				}
			}
		}
	}
	r.add(rule, nil, "order comparisons in "+what, token.NoPos, "ok", fmt.Sprintf("%d comparisons examined", n))
	r.floor(rule, "order comparisons in "+what, n, 1)
}

// atomSiteRule: what a single token means is decided in one place, the atom reader, case by case on the token's
// type - the cases the printer's forms are matched against. No other function of the reader turns token text
// into a number, a string, a boolean or nil: an identifier token that the dispatcher decodes on its own (an
// explicit plus sign, say) is a symbol the printer writes bare and the reader no longer gives back.
func atomSiteRule(w *World, r *Report, rule string) {
	r.rule(rule, "among the parsing functions of the reader only the atom reader (and the functions it is built from) returns values of basic Go kinds - int, float, string, bool - boxed from what it decoded: the dispatcher and the collection readers hand back what the functions they call returned, or collections built from it")
	ra := w.Fn("reader", "read_atom")
	if ra == nil {
		r.undecided(rule, nil, "read_atom", token.NoPos, "function no longer resolves")
		return
	}
	atomFns := map[*ssa.Function]bool{}
	for _, f := range w.withPkgHelpers(ra) {
		atomFns[f] = true
	}
	n := 0
	for _, fn := range w.pkgFuncs("reader") {
		if !isReaderFn(fn) || atomFns[fn] {
			continue
		}
		for _, rt := range (&evalModel{}).returns(fn) {
			ret := rt[0].(*ssa.Return)
			v, _ := rt[1].(ssa.Value)
			if v == nil {
				continue
			}
			n++
			mi, ok := v.(*ssa.MakeInterface)
			if !ok {
				continue
			}
			if bt, isBasic := mi.X.Type().Underlying().(*types.Basic); isBasic && bt.Kind() != types.UntypedNil {
				if _, isConst := mi.X.(*ssa.Const); isConst {
					continue // a fixed value, not something decoded from the token
				}
				r.bad(rule, fn, "basic value decoded outside the atom reader", ret.Pos(), w.fnName(fn)+" returns a "+bt.Name()+" it decoded itself: the token would otherwise have been read by the atom reader (as a symbol, typically), which is how the printer's output for that value is read back - values the printer writes as that token no longer round-trip")
			}
		}
	}
	r.floor(rule, "returns of the reader's parsing functions outside the atom reader", n, 10)
}

// keyContentRule: which strings can be keys of a hash-map or members of a set is a matter of type only
// (strings and keywords are Go strings). The collection builders the reader calls therefore refuse a key by
// its dynamic type, never by what the string contains: a builder that answers an error on the edge of a
// comparison of string contents (with a constant, or of a length) refuses some string the printer wrote.
func keyContentRule(w *World, r *Report, rule string) {
	r.rule(rule, "in the collection builders of the types package that the reader's functions call (hash-map, set) no error return lies behind a comparison of string contents or of a string's length with a constant: every string - the empty one included - is accepted as a key, so what the printer wrote is read back")
	builders := map[*ssa.Function]bool{}
	for _, f := range w.pkgFuncs("reader") {
		if !isReaderFn(f) {
			continue
		}
		for _, b := range f.Blocks {
			for _, in := range b.Instrs {
				if c, ok := in.(*ssa.Call); ok {
					if sc := c.Call.StaticCallee(); sc != nil && fnPkgPath(sc) == modPath+"/types" && hasErrorResult(sc) >= 0 && len(sc.Blocks) > 0 {
						for _, h := range w.withPkgHelpers(sc) {
							builders[h] = true
						}
					}
				}
			}
		}
	}
	isStr := func(v ssa.Value) bool {
		bt, ok := v.Type().Underlying().(*types.Basic)
		return ok && bt.Info()&types.IsString != 0
	}
	isStrLen := func(v ssa.Value) bool {
		c, ok := v.(*ssa.Call)
		if !ok {
			return false
		}
		bi, ok := c.Call.Value.(*ssa.Builtin)
		return ok && bi.Name() == "len" && isStr(c.Call.Args[0])
	}
	n := 0
	for fn := range builders {
		if hasErrorResult(fn) < 0 {
			continue
		}
		n++
		for _, d := range fn.Blocks {
			iff := blockIf(d)
			if iff == nil {
				continue
			}
			// "this key is in the table already" is a judgement on the key's content too
			if ex, isEx := iff.Cond.(*ssa.Extract); isEx && ex.Index == 1 {
				if lk, isLk := ex.Tuple.(*ssa.Lookup); isLk && lk.CommaOk {
					for _, rt := range errorReturns(fn) {
						ret := rt[0].(*ssa.Return)
						ev, _ := rt[2].(ssa.Value)
						if ev != nil && !isNilConst(ev) && isErrorType(ev.Type()) && edgeDominates(d, 0, ret.Block()) {
							r.bad(rule, fn, "key refused because it is present already", lk.Pos(), "an error is returned when the key is found in the table being built: a repeated key takes the last value (the printer never writes one twice, but two keys a table of names confuses - the keyword :a and the string \"a\" - are refused)")
						}
					}
				}
			}
			bo, ok := iff.Cond.(*ssa.BinOp)
			if !ok {
				continue
			}
			// the size of the table built so far says how many *different* keys came, not how many were valid
			isMapLen := func(v ssa.Value) bool {
				c, ok := v.(*ssa.Call)
				if !ok {
					return false
				}
				bi, ok := c.Call.Value.(*ssa.Builtin)
				if !ok || bi.Name() != "len" {
					return false
				}
				_, isMap := c.Call.Args[0].Type().Underlying().(*types.Map)
				return isMap
			}
			if isMapLen(bo.X) || isMapLen(bo.Y) {
				for _, rt := range errorReturns(fn) {
					ret := rt[0].(*ssa.Return)
					ev, _ := rt[2].(ssa.Value)
					if ev != nil && !isNilConst(ev) && isErrorType(ev.Type()) && (edgeDominates(d, 0, ret.Block()) || edgeDominates(d, 1, ret.Block())) {
						r.bad(rule, fn, "items judged by the size of the table built", bo.Pos(), "an error is returned depending on "+describeVal(nil, bo, 0)+": a repeated key or member makes the table smaller than the item list although every item is valid, so (set [:a :a]) or a literal with a repeated member is refused")
					}
				}
			}
			_, cx := bo.X.(*ssa.Const)
			_, cy := bo.Y.(*ssa.Const)
			content := (isStr(bo.X) && cy) || (isStr(bo.Y) && cx) || (isStrLen(bo.X) && cy) || (isStrLen(bo.Y) && cx)
			if !content {
				continue
			}
			for _, rt := range errorReturns(fn) {
				ret := rt[0].(*ssa.Return)
				ev, _ := rt[2].(ssa.Value)
				if ev == nil || isNilConst(ev) || !isErrorType(ev.Type()) {
					continue
				}
				if edgeDominates(d, 0, ret.Block()) || edgeDominates(d, 1, ret.Block()) {
					r.bad(rule, fn, "key refused for what it contains", bo.Pos(), "an error is returned depending on "+describeVal(nil, bo, 0)+": a string with that content is a value the printer writes and the reader then refuses (or, for the empty string, the whole collection is unreadable)")
				}
			}
		}
	}
	r.add(rule, nil, "collection builders called by the reader", token.NoPos, "ok", fmt.Sprintf("%d functions examined", n))
	r.floor(rule, "collection builders called by the reader", n, 2)
}

// peekNextRule: every decision of the reader (is this the closer? the end of the text? a stray closer?) is
// taken on the token peek shows, and the token is then taken with next. The two must show the same token:
// both hand out the element at the cursor position they were entered with - next moves the cursor only
// after it has read that element, by one, and neither of them loops (skipping tokens in one of them makes
// the other's answer a lie: a closer that was never tested is handed out as an atom).
func peekNextRule(w *World, r *Report, rule string) {
	r.rule(rule, "the advancing and the non-advancing token accessor hand out the same token: each indexes the token list with the cursor position as it was on entry; the advancing one stores position+1 exactly once, after reading the element; neither contains a loop (no token is skipped by one and seen by the other)")
	next, peek := w.tokenAccessors()
	if next == nil || peek == nil {
		r.undecided(rule, nil, "token accessors", token.NoPos, "the advancing / non-advancing accessors of the token reader are not found")
		return
	}
	n := 0
	for _, f := range []*ssa.Function{next, peek} {
		for _, g := range w.withPkgHelpers(f) {
			n++
			r.check(len(naturalLoops(g)) == 0, rule, g, "straight-line accessor", g.Pos(), "no loop", "a token accessor loops over tokens: the tokens it skips are seen by the other accessor (or the other way round), so what the reader tested is not what it consumes")
		}
		// position stores
		var stores []*ssa.Store
		var posField *ssa.FieldAddr
		for _, b := range f.Blocks {
			for _, in := range b.Instrs {
				if st, ok := in.(*ssa.Store); ok {
					if fa, ok := st.Addr.(*ssa.FieldAddr); ok && fa.X == ssa.Value(f.Params[0]) && isIntType(st.Val.Type()) {
						stores = append(stores, st)
						posField = fa
					}
				}
			}
		}
		if f == next {
			n++
			okStep := len(stores) == 1
			if okStep {
				bo, ok := stores[0].Val.(*ssa.BinOp)
				okStep = ok && bo.Op == token.ADD
				if okStep {
					k, isK := bo.Y.(*ssa.Const)
					okStep = isK && k.Value != nil && k.Int64() == 1
				}
			}
			r.check(okStep, rule, f, "cursor advance", f.Pos(), "one store of position+1", fmt.Sprintf("the advancing accessor moves the cursor %d times or by something other than one: it consumes tokens the reader never looked at", len(stores)))
		}
		// the element handed out is read before the cursor moves
		for _, b := range f.Blocks {
			for _, in := range b.Instrs {
				ia, ok := in.(*ssa.IndexAddr)
				if !ok {
					continue
				}
				n++
				before := true
				for _, st := range stores {
					if st.Block() == b {
						for _, x := range b.Instrs {
							if x == ssa.Instruction(st) {
								before = false
							}
							if x == in {
								break
							}
						}
					} else if st.Block().Dominates(b) || blockReaches(st.Block(), b, false) {
						before = false
					}
				}
				_ = posField
				r.check(before, rule, f, "token handed out", ia.Pos(), "the element at the entry position", "the cursor is moved before the token is read: the accessor hands out a different token from the one the other accessor shows")
			}
		}
	}
	r.floor(rule, "checks on the token accessors", n, 4)
}

// collectionReaderErrorsRule: a reader function for a bracketed collection (a caller of the bracket matcher
// that is not the dispatcher) fails only with the error of the bracket matcher or of the collection builder
// it hands the elements to. An error of its own making refuses a well-bracketed collection for what is in
// it - and whatever it refuses, the printer can have written.
func collectionReaderErrorsRule(w *World, r *Report, rule string, readers []*ssa.Function) {
	r.rule(rule, "the reader functions for bracketed collections (list, vector, hash-map, set) return, when they fail, the error of the function they called (the bracket matcher, the collection builder of package types), never an error constructed on the spot (other than one decided by element counts alone): no collection the printer can write is refused by its reader for its contents")
	n := 0
	for _, fn := range readers {
		// (the reader for constructor forms «name …» applies a function it looks up: not a data collection)
		applies := false
		for _, b := range fn.Blocks {
			for _, in := range b.Instrs {
				if c, ok := in.(ssa.CallInstruction); ok {
					if c.Common().IsInvoke() && strings.HasSuffix(c.Common().Value.Type().String(), "types.EnvType") {
						applies = true
					}
					if sc := c.Common().StaticCallee(); sc != nil && sc == w.Fn("types", "Apply") {
						applies = true
					}
				}
			}
		}
		if applies {
			continue
		}
		for _, rt := range errorReturns(fn) {
			ret := rt[0].(*ssa.Return)
			ev, _ := rt[2].(ssa.Value)
			if ev == nil || isNilConst(ev) || !isErrorType(ev.Type()) {
				continue
			}
			n++
			passed := false
			switch x := ev.(type) {
			case *ssa.Extract:
				_, passed = x.Tuple.(*ssa.Call)
			case *ssa.Call:
				passed = x.Call.StaticCallee() != nil && inModule(x.Call.StaticCallee()) && x.Call.StaticCallee().Name() != "NewLispError"
			case *ssa.Phi:
				passed = true
				for _, ed := range x.Edges {
					if exx, ok := ed.(*ssa.Extract); !ok {
						passed = passed && isNilConst(ed)
					} else if _, isCall := exx.Tuple.(*ssa.Call); !isCall {
						passed = false
					}
				}
			}
			if !passed {
				// an error of its own is still no judgement on the contents when it is decided by counts alone
				// (an odd number of forms in a map literal, say)
				byCount, nc := true, 0
				for _, a := range knownConds(ret.Block()) {
					bo, ok := a.v.(*ssa.BinOp)
					if !ok {
						byCount = false
						continue
					}
					if isErrorType(bo.X.Type()) && isNilConst(bo.Y) {
						continue // the test of a callee's error
					}
					nc++
					if !isIntType(bo.X.Type()) || !isIntType(bo.Y.Type()) {
						byCount = false
					}
				}
				passed = byCount && nc > 0
			}
			r.check(passed, rule, fn, "error answered by a collection reader", ret.Pos(), "the error of the function it called", "the reader of a bracketed collection makes an error of its own ("+describeVal(nil, ev, 0)+"): a collection whose brackets match is refused because of its elements, so a value the printer wrote cannot be read back")
		}
	}
	r.floor(rule, "error answers of the collection readers", n, 3)
}

// textVerdictRule: whether a text is read is decided by its tokens and their structure. The reader's entry
// point returns an error only once the tokenizer has run (the tokenizer's own error, the parser's, the
// left-over check), and none of its error returns depends on a search of the raw text (strings.Index…,
// Contains…, a regular expression, unicode classes): no text is refused for the characters it contains.
func textVerdictRule(w *World, r *Report, rule string) {
	r.rule(rule, "reader.Read_str answers with an error only after it has called the tokenizer, and no error it returns is control-dependent on a strings / regexp / unicode test of the source text: strings and symbols of any Unicode content inside a well-formed text are read, whatever characters they hold (values a placeholder carries are read by the same entry point)")
	rs := w.Fn("reader", "Read_str")
	if rs == nil {
		r.undecided(rule, nil, "reader.Read_str", token.NoPos, "function no longer resolves")
		return
	}
	// the tokenizer: the function of the package Read_str calls that returns the token slice
	var tok *ssa.Call
	for _, b := range rs.Blocks {
		for _, in := range b.Instrs {
			if c, ok := in.(*ssa.Call); ok && c.Call.StaticCallee() != nil && fnPkgPath(c.Call.StaticCallee()) == fnPkgPath(rs) {
				res := c.Call.StaticCallee().Signature.Results()
				if res.Len() >= 1 {
					if sl, ok := res.At(0).Type().Underlying().(*types.Slice); ok && isTokenStruct(sl.Elem()) && tok == nil {
						tok = c
					}
				}
			}
		}
	}
	if tok == nil {
		r.undecided(rule, rs, "call of the tokenizer", rs.Pos(), "Read_str calls no function of its package that returns the token list")
		return
	}
	textTest := func(v ssa.Value) string {
		found := ""
		seen := map[ssa.Value]bool{}
		var walk func(v ssa.Value, depth int)
		walk = func(v ssa.Value, depth int) {
			if v == nil || seen[v] || depth > 6 || found != "" {
				return
			}
			seen[v] = true
			switch x := v.(type) {
			case *ssa.Call:
				if sc := x.Call.StaticCallee(); sc != nil {
					switch fnPkgPath(sc) {
					case "strings", "regexp", "unicode", "unicode/utf8", "bytes":
						found = fnPkgPath(sc) + "." + sc.Name()
						return
					}
				}
				for _, a := range x.Call.Args {
					walk(a, depth+1)
				}
			case *ssa.BinOp:
				walk(x.X, depth+1)
				walk(x.Y, depth+1)
			case *ssa.UnOp:
				walk(x.X, depth+1)
			case *ssa.Phi:
				for _, ed := range x.Edges {
					walk(ed, depth+1)
				}
			case *ssa.Extract:
				walk(x.Tuple, depth+1)
			}
		}
		walk(v, 0)
		return found
	}
	n := 0
	for _, rt := range errorReturns(rs) {
		ret := rt[0].(*ssa.Return)
		ev, _ := rt[2].(ssa.Value)
		if ev == nil || isNilConst(ev) {
			continue
		}
		n++
		after := tok.Block() == ret.Block() || tok.Block().Dominates(ret.Block())
		r.check(after, rule, rs, "error answered by the reader's entry point", ret.Pos(), "after the tokenizer has run", "Read_str refuses a text before it has been tokenized: the verdict rests on something other than the tokens (a scan of the raw text, say), so texts with certain characters inside strings are unreadable although they are well-formed")
		for _, a := range knownConds(ret.Block()) {
			if t := textTest(a.v); t != "" {
				r.bad(rule, rs, "error decided by a scan of the text", ret.Pos(), "an error return of Read_str depends on "+t+": the raw text is judged beside its tokens, and a value (a string with those characters) that the printer writes is refused when it is read back")
			}
		}
	}
	// the root package's READ adds no verdict of its own: what it answers is what the reader's entry point answered
	if rd := w.Fn("", "READ"); rd != nil {
		for _, rt := range errorReturns(rd) {
			ret := rt[0].(*ssa.Return)
			ev, _ := rt[2].(ssa.Value)
			if ev == nil || isNilConst(ev) {
				continue
			}
			n++
			passed := false
			if ex, ok := ev.(*ssa.Extract); ok {
				if c, ok := ex.Tuple.(*ssa.Call); ok && c.Call.StaticCallee() == rs {
					passed = true
				}
			}
			r.check(passed, rule, rd, "error answered by READ", ret.Pos(), "the error of reader.Read_str", "READ makes an error of its own ("+describeVal(nil, ev, 0)+") instead of answering what the reader answered: a text is refused by a test outside the tokenizer and parser (for the characters it contains, say), so a value PRINT wrote cannot be read back")
		}
	}
	r.floor(rule, "error returns of Read_str", n, 3)
}

// printEntryRule: PRINT is the printer: what it returns is what printer.Pr_str made of its argument in
// readable mode - all of it. (The preamble writer puts PRINT's text on a line the reader must get back the
// value from; a text cut at a size limit, or decorated, is no longer the value's text.)
func printEntryRule(w *World, r *Report, rule string) {
	r.rule(rule, "every return of the root package's PRINT is the result of printer.Pr_str applied to PRINT's own argument in readable mode, unchanged: nothing is cut off, appended or replaced between the printer and the caller")
	pf, ps := w.Fn("", "PRINT"), w.Fn("printer", "Pr_str")
	if pf == nil || ps == nil {
		r.undecided(rule, nil, "PRINT / printer.Pr_str", token.NoPos, "function no longer resolves")
		return
	}
	n := 0
	for _, b := range pf.Blocks {
		ret, ok := b.Instrs[len(b.Instrs)-1].(*ssa.Return)
		if !ok || len(ret.Results) != 1 || b == pf.Recover {
			continue
		}
		n++
		v := resolveRet(ret.Results[0])
		okV := false
		if c, isC := v.(*ssa.Call); isC && c.Call.StaticCallee() == ps && len(c.Call.Args) == 2 && unboxed(c.Call.Args[0]) == ssa.Value(pf.Params[0]) {
			if k, isK := c.Call.Args[1].(*ssa.Const); isK && k.Value != nil && k.Value.String() == "true" {
				okV = true
			}
		}
		r.check(okV, rule, pf, "text returned by PRINT", ret.Pos(), "Pr_str(argument, true) itself", "PRINT returns "+describeVal(nil, v, 0)+" instead of the printer's text for its argument: a value whose text is altered on the way out (cut at a size limit, say) cannot be read back, and a placeholder that carries it silently reads as something else")
	}
	r.floor(rule, "returns of PRINT", n, 1)
}

// preambleValueVerbatimRule: the writer of the preamble prints each value of the table it was given, as it is:
// the value that arrives at the reader is the caller's data, not a normalised, compacted or converted form of it.
func preambleValueVerbatimRule(w *World, r *Report, rule string) {
	r.rule(rule, "every value AddPreamble (and the functions of the package it is built from) hands to PRINT is an entry of the table it was given - read by the range over the table or by a lookup in it - and nothing computed from one: placeholder values are inserted as the data the caller supplied")
	ap, pf := w.Fn("", "AddPreamble"), w.Fn("", "PRINT")
	if ap == nil || pf == nil {
		r.undecided(rule, nil, "AddPreamble / PRINT", token.NoPos, "function no longer resolves")
		return
	}
	n := 0
	for _, fn := range w.withPkgHelpers(ap) {
		if fn == nil {
			continue
		}
		for _, c := range staticCallsTo(fn, pf) {
			n++
			v := unboxed(c.Call.Args[0])
			okV := false
			var walk func(x ssa.Value, depth int) bool
			walk = func(x ssa.Value, depth int) bool {
				if depth > 4 {
					return false
				}
				switch y := x.(type) {
				case *ssa.Extract:
					_, isNext := y.Tuple.(*ssa.Next)
					_, isLk := y.Tuple.(*ssa.Lookup)
					return isNext || isLk
				case *ssa.Lookup:
					return true
				case *ssa.Parameter:
					// a value handed on to a function of the package that prints it: what its callers hand over
					if y.Parent() != ap && y.Parent() != nil {
						for _, a := range w.callSiteArgs(y) {
							if !walk(unboxed(a), depth+1) {
								return false
							}
						}
						return len(w.callSiteArgs(y)) > 0
					}
				case *ssa.Phi:
					for _, op := range y.Edges {
						if !walk(unboxed(op), depth+1) {
							return false
						}
					}
					return len(y.Edges) > 0
				}
				return false
			}
			okV = walk(v, 0)
			r.check(okV, rule, fn, "value printed into the preamble", c.Pos(), "an entry of the caller's table, as it is", "the preamble line is made from "+describeVal(nil, c.Call.Args[0], 0)+", not from the table's entry itself: the value the program receives is a rewritten form of the data the caller supplied")
		}
	}
	r.floor(rule, "values printed into the preamble", n, 1)
}

// atomLastRule: a token is an atom only when the dispatcher has found it to be nothing else: the atom reader
// is called from the dispatcher alone, on the path where the token's text has been compared with every
// opening bracket and matched none. (A short cut that sends "identifier-like" tokens straight to the atom
// reader swallows `#{`, which the scanner classes as an identifier, as a symbol: the set's closer is then
// matched against the enclosing bracket.)
func atomLastRule(w *World, r *Report, rule string) {
	r.rule(rule, "every call of the atom reader is made by the dispatcher (read_form), in a block where the token's text is known to differ from each of the opening brackets ( [ { #{ : no other function of the reader decides that a token is an atom")
	ra, rf := w.Fn("reader", "read_atom"), w.Fn("reader", "read_form")
	if ra == nil || rf == nil {
		r.undecided(rule, nil, "read_atom / read_form", token.NoPos, "function no longer resolves")
		return
	}
	n := 0
	for _, fn := range w.pkgFuncs("reader") {
		for _, c := range staticCallsTo(fn, ra) {
			n++
			if fn != rf {
				r.bad(rule, fn, "call of the atom reader outside the dispatcher", c.Pos(), w.fnName(fn)+" takes a token for an atom without the dispatcher having looked at it: a token that opens a collection (the scanner classes #{ as an identifier) is read as a symbol, and the bracket structure of the text is judged wrongly")
				continue
			}
			excluded := map[string]bool{}
			for _, a := range knownConds(c.Block()) {
				if _, s, ok := strEq(a.v); ok && !a.pol {
					excluded[s] = true
				}
			}
			var missing []string
			for _, op := range []string{"(", "[", "{", "#{"} {
				if !excluded[op] {
					missing = append(missing, op)
				}
			}
			r.check(len(missing) == 0, rule, fn, "call of the atom reader", c.Pos(), "after the token was compared with every opening bracket", "the atom reader is called where the token can still be "+strings.Join(missing, " ")+": an opening bracket is read as a symbol")
		}
	}
	r.floor(rule, "calls of the atom reader", n, 1)
}

// valueErrorRule: the preamble's values are texts of their own. The error of reading one of them says nothing
// about the text that carries the preamble: it is never what READWithPreamble answers (an unfinished value
// would make a complete program "incomplete", with a closer no amount of typing can supply).
func valueErrorRule(w *World, r *Report, rule string) {
	r.rule(rule, "the error of the per-line read of a preamble value (the call of Read_str without a placeholder table) does not flow into a result of READWithPreamble: the verdict on a text - complete, incomplete, malformed - comes from reading its code part only")
	rwp, rs := w.Fn("", "READWithPreamble"), w.Fn("reader", "Read_str")
	if rwp == nil || rs == nil {
		r.undecided(rule, nil, "READWithPreamble / Read_str", token.NoPos, "function no longer resolves")
		return
	}
	n := 0
	for _, fn := range w.withPkgHelpers(rwp) {
		for _, c := range staticCallsTo(fn, rs) {
			if len(c.Call.Args) < 3 || !isNilConst(c.Call.Args[2]) {
				continue
			}
			n++
			errEx := extractOf(c, 1)
			leaks := false
			seen := map[ssa.Value]bool{}
			var follow func(v ssa.Value, depth int)
			follow = func(v ssa.Value, depth int) {
				if v == nil || seen[v] || depth > 5 || v.Referrers() == nil {
					return
				}
				seen[v] = true
				for _, ref := range *v.Referrers() {
					switch u := ref.(type) {
					case *ssa.Return:
						leaks = true
					case *ssa.Store:
						if u.Val == v {
							leaks = true
						}
					case *ssa.Phi:
						follow(u, depth+1)
					case *ssa.MakeInterface:
						follow(u, depth+1)
					case *ssa.ChangeInterface:
						follow(u, depth+1)
					case *ssa.Call:
						// handed to an error constructor whose result is returned
						follow(u, depth+1)
					}
				}
			}
			if errEx != nil {
				follow(errEx, 0)
			}
			r.check(!leaks, rule, fn, "error of reading a preamble value", c.Pos(), "not handed to the caller", "the error of reading one placeholder value is returned as the answer for the whole text: an unfinished value makes a complete program 'expected …, got EOF' (the REPL waits for input that cannot help), and the closer named belongs to the value, not to the code")
		}
	}
	r.floor(rule, "per-line reads of preamble values", n, 1)
}

// goQuotedSourceRule: program text that Go code puts together (the (load-file "…") form the command line
// builds around a file name) is read by the lisp reader, whose string escapes are \\ \" and \n only. Text
// quoted the Go way (%q, %#v, strconv.Quote) also writes \t, \a,   … which the reader leaves as they
// are: a program in a file with such a name is not found, while the same program by any other route runs.
func goQuotedSourceRule(w *World, r *Report, rule string) {
	r.rule(rule, "no (load-file …) form handed to READ, REPL, READWithPreamble or Read_str by the module's own Go code (the file route of the command line) is assembled with Go-syntax quoting (%q, %#v, strconv.Quote / AppendQuote): the reader understands only the escapes its own printer writes")
	targets := map[*ssa.Function]bool{}
	for _, n := range []string{"READ", "REPL", "READWithPreamble", "REPLWithPreamble", "ReadEvalWithPreamble"} {
		if f := w.Fn("", n); f != nil {
			targets[f] = true
		}
	}
	if f := w.Fn("reader", "Read_str"); f != nil {
		targets[f] = true
	}
	var goQuoted func(v ssa.Value, depth int, seen map[ssa.Value]bool) string
	goQuoted = func(v ssa.Value, depth int, seen map[ssa.Value]bool) string {
		if v == nil || seen[v] || depth > 6 {
			return ""
		}
		seen[v] = true
		switch x := v.(type) {
		case *ssa.BinOp:
			if s := goQuoted(x.X, depth+1, seen); s != "" {
				return s
			}
			return goQuoted(x.Y, depth+1, seen)
		case *ssa.Phi:
			for _, ed := range x.Edges {
				if s := goQuoted(ed, depth+1, seen); s != "" {
					return s
				}
			}
		case *ssa.Call:
			sc := x.Call.StaticCallee()
			if sc == nil {
				return ""
			}
			switch fnPkgPath(sc) + "." + sc.Name() {
			case "strconv.Quote", "strconv.QuoteToASCII", "strconv.AppendQuote", "strconv.QuoteToGraphic":
				return "strconv." + sc.Name()
			case "fmt.Sprintf", "fmt.Sprint", "fmt.Sprintln":
				if len(x.Call.Args) > 0 {
					if f, ok := constString(x.Call.Args[0]); ok && (strings.Contains(f, "%q") || strings.Contains(f, "%#v") || strings.Contains(f, "%+q")) {
						return "fmt." + sc.Name() + " with " + f
					}
				}
				return ""
			}
			if inModule(sc) && len(sc.Blocks) > 0 {
				for _, b := range sc.Blocks {
					if ret, ok := b.Instrs[len(b.Instrs)-1].(*ssa.Return); ok && len(ret.Results) > 0 {
						if s := goQuoted(ret.Results[0], depth+1, seen); s != "" {
							return s
						}
					}
				}
			}
		}
		return ""
	}
	n := 0
	for _, fn := range w.Funcs {
		if isTestFunc(w, fn) || !inModule(fn) {
			continue
		}
		for _, b := range fn.Blocks {
			for _, in := range b.Instrs {
				c, ok := in.(*ssa.Call)
				if !ok || !targets[c.Call.StaticCallee()] {
					continue
				}
				for _, a := range c.Call.Args {
					if !isStringVal(a) {
						continue
					}
					n++
					if how := goQuoted(a, 0, map[ssa.Value]bool{}); how != "" {
						// the file route: the text is the form that loads the program's file (other generated
						// definitions, such as the test parameters of the command line, are not program text)
						if !strings.Contains(how, "(load-file") {
							r.add(rule, fn, "generated definition quoted the Go way", c.Pos(), "info", "not a load form ("+how+"): outside the file route")
							break
						}
						r.bad(rule, fn, "program text quoted the Go way", c.Pos(), "the text handed to "+c.Call.StaticCallee().Name()+" contains a piece quoted with "+how+": Go writes tabs, control and non-printing characters as escapes the lisp reader does not undo, so the program meant (a file of that name, say) is not the program read")
					}
					break
				}
			}
		}
	}
	r.add(rule, nil, "texts handed to the reading entry points by Go code of the module", token.NoPos, "ok", fmt.Sprintf("%d examined", n))
	r.floor(rule, "texts handed to the reading entry points", n, 5)
}

// preambleEntryReadRule: the read side of the preamble. Every value READWithPreamble (and the functions of the
// package it is built from) stores into the placeholder table is what the reader made of the entry's text: the
// first result of a call of the reader, on every path - never the text itself or something else decided by a
// test of the text. Otherwise a value that PRINT wrote comes back as another value.
func preambleEntryReadRule(w *World, r *Report, rule string) {
	r.rule(rule, "every value READWithPreamble (and the functions of its package it is built from) stores into the placeholder table is the first result of a call of the reader's entry point on the entry's text, on every path: no entry is taken as a string, or as anything else, by a test of its text")
	rp := w.Fn("", "READWithPreamble")
	if rp == nil {
		r.undecided(rule, nil, "READWithPreamble", token.NoPos, "function no longer resolves")
		return
	}
	n := 0
	for _, fn := range w.withPkgHelpers(rp) {
		if fn == nil {
			continue
		}
		for _, b := range fn.Blocks {
			for _, in := range b.Instrs {
				mu, ok := in.(*ssa.MapUpdate)
				if !ok {
					continue
				}
				mt, ok := mu.Map.Type().Underlying().(*types.Map)
				if !ok || !isMalType(mt.Elem()) {
					continue
				}
				n++
				var walk func(x ssa.Value, depth int) bool
				walk = func(x ssa.Value, depth int) bool {
					if depth > 5 {
						return false
					}
					switch y := x.(type) {
					case *ssa.Extract:
						if c, isCall := y.Tuple.(*ssa.Call); isCall {
							sc := c.Call.StaticCallee()
							if sc != nil && fnPkgPath(sc) == modPath+"/reader" {
								return y.Index == 0
							}
							// a function of the package that hands on what the reader answered (in the same result
							// position; the returns that report an error of their own hand on no value)
							if sc != nil && fnPkgPath(sc) == fnPkgPath(rp) && len(sc.Blocks) > 0 {
								all, some := true, false
								for _, rt := range (&evalModel{}).returns(sc) {
									ret := rt[0].(*ssa.Return)
									if y.Index >= len(ret.Results) {
										return false
									}
									if last := ret.Results[len(ret.Results)-1]; len(ret.Results) > 1 && isErrorType(last.Type()) && !isNilConst(resolveRet(last)) && isNilConst(resolveRet(ret.Results[y.Index])) {
										continue
									}
									some = true
									if !walk(unboxed(resolveRet(ret.Results[y.Index])), depth+1) {
										all = false
									}
								}
								return all && some
							}
						}
					case *ssa.Phi:
						for _, op := range y.Edges {
							if !walk(unboxed(op), depth+1) {
								return false
							}
						}
						return len(y.Edges) > 0
					case *ssa.Parameter:
						if y.Parent() != rp && y.Parent() != nil {
							args := w.callSiteArgs(y)
							for _, a := range args {
								if !walk(unboxed(a), depth+1) {
									return false
								}
							}
							return len(args) > 0
						}
					}
					return false
				}
				okV := walk(unboxed(mu.Value), 0)
				r.check(okV, rule, fn, "value stored into the placeholder table", mu.Pos(), "what the reader made of the entry's text", "the table entry is "+describeVal(nil, mu.Value, 0)+" on some path, not the reader's result for the entry's text: a value written by AddPreamble (PRINT of the value) comes back as something else")
			}
		}
	}
	r.floor(rule, "stores into the placeholder table", n, 1)
}
