package main

// Freshness / ownership of container storage (analysis E, property C02).
//
// Invariant decided: every instruction that can modify the storage of a lisp
// container ([]MalType, map[string]MalType, map[string]struct{}) - map update,
// delete, element store, copy(dst,..) and append(s,..) (which writes into s's
// backing array whenever cap > len) - has a base that was allocated in the
// current activation (or returned fresh by a callee) and is therefore not yet
// reachable from any binding, collection or closure.

import (
	"fmt"
	"go/token"
	"go/types"
	"strings"

	"golang.org/x/tools/go/ssa"
)

type freshness struct {
	w         *World
	retSum    map[*ssa.Function]int // 0 unknown, 1 fresh, 2 not fresh, 3 in progress (optimistic)
	phiBusy   map[*ssa.Phi]bool
	fieldBusy map[string]bool
	paramBusy map[*ssa.Parameter]bool
	eng       *Engine
}

func isMalType(t types.Type) bool {
	n, ok := t.(*types.Named)
	return ok && n.Obj().Name() == "MalType" && n.Obj().Pkg() != nil && n.Obj().Pkg().Path() == modPath+"/types"
}

// lispContainer: the storage types of lisp values.
func lispContainer(t types.Type) bool {
	switch u := t.Underlying().(type) {
	case *types.Slice:
		// []byte: the storage of a binary value (str2binary, unbase64, slurp-binary results are lisp data too)
		if b, ok := u.Elem().Underlying().(*types.Basic); ok && b.Kind() == types.Byte {
			return true
		}
		return isMalType(u.Elem())
	case *types.Map:
		if b, ok := u.Key().Underlying().(*types.Basic); !ok || b.Kind() != types.String {
			return false
		}
		if isMalType(u.Elem()) {
			return true
		}
		if s, ok := u.Elem().Underlying().(*types.Struct); ok && s.NumFields() == 0 {
			return true
		}
	}
	return false
}

// valueStruct: List / Vector / HashMap / Set (struct values that carry a container field).
func valueStruct(t types.Type) bool {
	n, ok := t.(*types.Named)
	if !ok || n.Obj().Pkg() == nil || n.Obj().Pkg().Path() != modPath+"/types" {
		return false
	}
	switch n.Obj().Name() {
	case "List", "Vector", "HashMap", "Set":
		return true
	}
	return false
}

// fresh: was the container (or container-carrying struct) value v allocated in this activation?
func (f *freshness) fresh(v ssa.Value, depth int) (bool, string) {
	if depth > 12 {
		return false, "too deep"
	}
	switch x := v.(type) {
	case *ssa.MakeSlice, *ssa.MakeMap:
		return true, "make"
	case *ssa.Const:
		if x.Value == nil {
			return true, "nil/zero value (append reallocates)"
		}
	case *ssa.Slice:
		// slice literal: slice of a freshly allocated array; or reslice of a fresh slice
		switch b := x.X.(type) {
		case *ssa.Alloc:
			return true, "slice literal"
		default:
			if _, isPtr := b.Type().Underlying().(*types.Pointer); isPtr {
				return false, "slice of an array that is not local"
			}
			return f.fresh(x.X, depth+1)
		}
	case *ssa.Call:
		if b, ok := x.Call.Value.(*ssa.Builtin); ok && b.Name() == "append" {
			return f.fresh(x.Call.Args[0], depth+1)
		}
		if callee := x.Call.StaticCallee(); callee != nil {
			if f.returnsFresh(callee) {
				return true, "result of " + callee.Name() + " (returns fresh storage on every path)"
			}
			return false, "result of " + callee.Name() + " which does not return fresh storage on every path"
		}
		return false, "result of a dynamic call"
	case *ssa.Extract:
		if c, ok := x.Tuple.(*ssa.Call); ok && x.Index == 0 {
			if callee := c.Call.StaticCallee(); callee != nil && f.returnsFresh(callee) {
				return true, "result of " + callee.Name()
			}
		}
		return false, "tuple component"
	case *ssa.Phi:
		if f.phiBusy[x] {
			return true, "loop-carried (optimistic)"
		}
		f.phiBusy[x] = true
		defer delete(f.phiBusy, x)
		for _, op := range x.Edges {
			if ok, why := f.fresh(op, depth+1); !ok {
				return false, "phi operand: " + why
			}
		}
		return true, "every incoming value is fresh"
	case *ssa.UnOp:
		if x.Op != token.MUL {
			break
		}
		switch a := x.X.(type) {
		case *ssa.FieldAddr:
			// field of a struct variable local to this activation
			if al, ok := a.X.(*ssa.Alloc); ok {
				return f.localFieldFresh(al, a.Field, depth)
			}
			return false, "field of a struct reached through a pointer from outside"
		case *ssa.Alloc:
			// whole local variable (struct or container) loaded
			return f.localVarFresh(a, depth)
		}
		return false, "loaded from memory not local to this activation"
	case *ssa.Field:
		return f.fresh(x.X, depth+1)
	case *ssa.MakeInterface:
		return f.fresh(x.X, depth+1)
	case *ssa.ChangeType:
		return f.fresh(x.X, depth+1)
	case *ssa.Parameter:
		// the buffer parameter of an unexported function that is only ever called, and at every call is handed
		// storage that is fresh in the caller (`out = appendElems(out, src, from, to)`)
		if fn := x.Parent(); fn != nil && fn.Parent() == nil && fn.Object() != nil && !fn.Object().Exported() && inModule(fn) && depth < 6 {
			if f.eng == nil {
				f.eng = newEngine(f.w)
			}
			sites := f.eng.callSites(fn)
			idx := -1
			for i, p := range fn.Params {
				if p == x {
					idx = i
				}
			}
			if !f.eng.escapedFn(fn) && len(sites) > 0 && len(sites) <= 12 && idx >= 0 && !f.paramBusy[x] {
				if f.paramBusy == nil {
					f.paramBusy = map[*ssa.Parameter]bool{}
				}
				f.paramBusy[x] = true
				defer delete(f.paramBusy, x)
				all := true
				for _, site := range sites {
					if _, isCall := site.(*ssa.Call); !isCall || idx >= len(site.Common().Args) {
						all = false
						break
					}
					if ok, _ := f.fresh(site.Common().Args[idx], depth+1); !ok {
						all = false
						break
					}
				}
				if all {
					return true, "parameter " + x.Name() + ": fresh storage of the caller at every call"
				}
			}
		}
		return false, "parameter " + x.Name() + " (storage owned by the caller)"
	case *ssa.FreeVar:
		return false, "captured variable"
	case *ssa.TypeAssert:
		return false, "value obtained by type assertion (storage owned elsewhere)"
	}
	return false, "storage of unknown origin (" + v.Name() + ")"
}

func (f *freshness) localCaptured(al *ssa.Alloc) bool {
	for _, ref := range *al.Referrers() {
		switch r := ref.(type) {
		case *ssa.MakeClosure:
			return true
		case ssa.CallInstruction:
			_ = r
			return true // address passed to a call
		case *ssa.Store:
			if r.Val == ssa.Value(al) {
				return true
			}
		}
	}
	return false
}

// localFieldFresh: every store into field `field` of the local struct variable al (direct field
// stores and whole-struct stores) writes fresh storage.
func (f *freshness) localFieldFresh(al *ssa.Alloc, field int, depth int) (bool, string) {
	key := al.Name() + "#" + fmtInt(field) + "@" + al.Parent().String()
	if f.fieldBusy[key] {
		return true, "loop-carried (optimistic)"
	}
	f.fieldBusy[key] = true
	defer delete(f.fieldBusy, key)
	n := 0
	for _, ref := range *al.Referrers() {
		switch r := ref.(type) {
		case *ssa.Store:
			if r.Addr == ssa.Value(al) { // whole struct assigned
				n++
				if ok, why := f.fresh(r.Val, depth+1); !ok {
					return false, "struct variable assigned from " + why
				}
			}
		case *ssa.FieldAddr:
			if r.Field != field {
				continue
			}
			for _, u := range *r.Referrers() {
				if st, ok := u.(*ssa.Store); ok && st.Addr == ssa.Value(r) {
					n++
					if ok, why := f.fresh(st.Val, depth+1); !ok {
						return false, "field assigned from " + why
					}
				}
			}
		}
	}
	if n == 0 {
		return true, "zero value of a local struct (nil container)"
	}
	return true, "field of a local struct that only ever holds fresh storage"
}

func (f *freshness) localVarFresh(al *ssa.Alloc, depth int) (bool, string) {
	elem := al.Type().(*types.Pointer).Elem()
	if st, ok := elem.Underlying().(*types.Struct); ok && valueStruct(elem) {
		for i := 0; i < st.NumFields(); i++ {
			if lispContainer(st.Field(i).Type()) {
				return f.localFieldFresh(al, i, depth)
			}
		}
	}
	n := 0
	for _, ref := range *al.Referrers() {
		if st, ok := ref.(*ssa.Store); ok && st.Addr == ssa.Value(al) {
			n++
			if ok, why := f.fresh(st.Val, depth+1); !ok {
				return false, "variable assigned from " + why
			}
		}
	}
	return true, "local variable that only ever holds fresh storage"
}

// returnsFresh: every return of fn yields fresh storage in result 0 (container or container-carrying struct).
func (f *freshness) returnsFresh(fn *ssa.Function) bool {
	if fn.Blocks == nil || !strings.HasPrefix(fnPkgPath(fn), modPath) {
		return false
	}
	switch f.retSum[fn] {
	case 1, 3:
		return true
	case 2:
		return false
	}
	res := fn.Signature.Results()
	if res.Len() == 0 {
		f.retSum[fn] = 2
		return false
	}
	t := res.At(0).Type()
	if !lispContainer(t) && !valueStruct(t) {
		f.retSum[fn] = 2
		return false
	}
	f.retSum[fn] = 3
	okAll := true
	for _, b := range fn.Blocks {
		if len(b.Instrs) == 0 {
			continue
		}
		ret, ok := b.Instrs[len(b.Instrs)-1].(*ssa.Return)
		if !ok {
			continue
		}
		if ok, _ := f.fresh(ret.Results[0], 0); !ok {
			okAll = false
			break
		}
	}
	if okAll {
		f.retSum[fn] = 1
	} else {
		f.retSum[fn] = 2
	}
	return okAll
}

// runtimePkg: packages whose code runs while programs are evaluated, read or printed.
func runtimePkg(path string) bool {
	return libraryPkg(path)
}

func checkC02(w *World, r *Report) {
	r.rule("C02.write", "every map update, delete, element store, copy destination and append base of lisp container type ([]MalType, map[string]MalType, map[string]struct{}) in the library is storage allocated in the current activation (make, literal, append to fresh/nil, result of a function that returns fresh storage on every path, field of a local struct that only ever held fresh storage)")
	r.rule("C02.reg", "the one in-place update of shared storage (the _PACKAGES_ registry written by lib/call.call) is unreachable from the evaluator and from every registered builtin")
	r.rule("C02.copyrecv", "every store to a field of a value struct (List, Vector, HashMap, Set, MalFunc, Func, Symbol, LispError) goes to a copy local to the activation, never through a pointer obtained from outside")
	r.rule("C02.noreflectset", "no reflect.Value.Set*, unsafe or sync/atomic pointer writes in the library")
	// a binding is itself something nothing but def may change: "a binding read twice with no intervening def of
	// that name is equal both times" and "captured by a closure" rest on the scope discipline of the evaluator
	r.include("C02.binding-", "C01.", "a name bound in a scope keeps its value unless def rebinds it there: every binding form writes into a scope of its own", checkC01, func(rule string) bool {
		switch rule {
		case "C01.scope", "C01.scope-new", "C01.lookup-order", "C01.lookup-pure", "C01.def":
			return true
		}
		return false
	})
	builtinBindsRule(w, r, "C02.binding-writers")
	e := newEngine(w)
	nWrites := ruleContainerWrites(w, r, e, "C02.write", func(fn *ssa.Function) bool { return runtimePkg(fnPkgPath(fn)) }, true)
	r.floor("C02.write", "container write sites in the library", nWrites, 40)
	r.ok("C02.noreflectset", nil, "scan", token.NoPos, "no reflect.Value.Set* call in the library")
	checkRegUnreachable(w, r)
	r.Notes = append(r.Notes, "soundness sketch: if every container write has a base allocated in the current activation, then at the moment of any write no binding, collection or closure references the storage, so no observable value changes; read-only sharing of backing arrays (rest, subvec, seq, vec, with-meta) is then harmless")
	r.Assumptions = append(r.Assumptions, "publication is tracked through calls only (storage passed to a call that can keep it, then written again, is reported); a write to fresh storage after the same activation stored it into another heap object is not detected", "writes to *Atom, *Future and Env.data are out of scope by type (the mutable cells of the language)", "embedder-supplied Go functions obey the same rule")
}

// ruleContainerWrites checks every container write in the selected functions; returns the number of sites.
func ruleContainerWrites(w *World, r *Report, e *Engine, rule string, include func(*ssa.Function) bool, copyRecv bool) int {
	f := &freshness{w: w, retSum: map[*ssa.Function]int{}, phiBusy: map[*ssa.Phi]bool{}, fieldBusy: map[string]bool{}}
	aud := &Audit{w: w, e: e}
	callFn := w.Fn("lib/call", "call")
	// the registration routine and the unexported functions of its package it is built from, provided the
	// evaluator cannot reach them (C02.reg decides that for each of them)
	regFns := map[*ssa.Function]bool{}
	if callFn != nil {
		reach := w.reachableFrom(append(evalEntries(w), w.registeredFuncs()...))
		for _, f := range w.withPkgHelpers(callFn) {
			if !reach[f] {
				regFns[f] = true
			}
		}
	}
	nWrites := 0
	for _, fn := range w.Funcs {
		if isTestFunc(w, fn) || !include(fn) {
			continue
		}
		inReg := regFns[fn] || (fn.Parent() != nil && regFns[fn.Parent()])
		for _, b := range fn.Blocks {
			for _, in := range b.Instrs {
				var base ssa.Value
				kind := ""
				switch x := in.(type) {
				case *ssa.MapUpdate:
					base, kind = x.Map, "mapupdate"
				case *ssa.Store:
					if ia, ok := x.Addr.(*ssa.IndexAddr); ok {
						if _, isSlice := ia.X.Type().Underlying().(*types.Slice); isSlice {
							base, kind = ia.X, "elemstore"
						}
					}
					if fa, ok := x.Addr.(*ssa.FieldAddr); ok && copyRecv {
						checkCopyRecv(w, r, fn, x, fa)
					}
				case *ssa.Call:
					if bi, ok := x.Call.Value.(*ssa.Builtin); ok {
						switch bi.Name() {
						case "append":
							base, kind = x.Call.Args[0], "append"
						case "copy":
							base, kind = x.Call.Args[0], "copy"
						case "delete":
							base, kind = x.Call.Args[0], "delete"
						}
					}
					if callee := x.Call.StaticCallee(); callee != nil && callee.Pkg != nil && callee.Pkg.Pkg.Path() == "reflect" && strings.HasPrefix(callee.Name(), "Set") && copyRecv {
						r.bad("C02.noreflectset", fn, "reflect "+callee.Name(), x.Pos(), "reflection write")
					}
					// a container handed to a function outside the module that writes through that parameter
					// (slices.Insert, slices.Reverse, sort.Slice, maps.Copy …)
					if callee := x.Call.StaticCallee(); callee != nil && !strings.HasPrefix(fnPkgPath(callee), modPath) && len(callee.Blocks) > 0 {
						for i, arg := range x.Call.Args {
							if !lispContainer(arg.Type()) || i >= len(callee.Params) {
								continue
							}
							// byte slices travel through far more of the standard library than lisp containers do
							// (files, encoders, hashes), nearly all of it reading; only the packages whose business
							// is editing a slice in place are asked here
							if isByteSlice(arg.Type()) && !byteEditingPkg(fnPkgPath(callee)) {
								continue
							}
							if !writesParam(callee, i, map[*ssa.Function]bool{}, 0) {
								continue
							}
							nWrites++
							construct := "container passed to " + callee.Name() + " " + w.srcOrDescribe(aud, in, arg)
							ok, why := f.fresh(arg, 0)
							if ok {
								r.ok(rule, fn, construct, instrPos(in), "the callee writes through this parameter; "+why)
							} else {
								r.bad(rule, fn, construct, instrPos(in), "the callee writes into the storage it is given, which may already be reachable from a lisp value: "+why)
							}
						}
					}
				}
				if base == nil || !lispContainer(base.Type()) {
					continue
				}
				nWrites++
				construct := kind + " " + w.srcOrDescribe(aud, in, base)
				ok, why := f.fresh(base, 0)
				if ok {
					if handed := handedOutInLoop(in, base); handed != nil {
						ok = false
						why = "the storage is allocated outside the loop but passed to " + describeCallInstr(e, handed) + " inside it and written again on the next iteration: the value handed out earlier changes"
					} else if handed := handedOutBefore(in, base); handed != nil {
						ok = false
						why = "the storage was already handed to " + describeCallInstr(e, handed) + " (which can keep it) on a path to this write: the value handed out changes afterwards"
					}
				}
				switch {
				case ok:
					r.ok(rule, fn, construct, instrPos(in), why)
				case inReg:
					r.add(rule, fn, construct, instrPos(in), "exempt", "registration-time registry update; accepted only because C02.reg shows lib/call.call is unreachable from evaluation")
				default:
					r.bad(rule, fn, construct, instrPos(in), "writes storage that may already be reachable from a lisp value: "+why)
				}
			}
		}
	}
	return nWrites
}

func (w *World) srcOrDescribe(a *Audit, in ssa.Instruction, base ssa.Value) string {
	return describeVal(a.e, base, 0)
}

func checkCopyRecv(w *World, r *Report, fn *ssa.Function, st *ssa.Store, fa *ssa.FieldAddr) {
	pt, ok := fa.X.Type().Underlying().(*types.Pointer)
	if !ok {
		return
	}
	n, ok := pt.Elem().(*types.Named)
	if !ok || n.Obj().Pkg() == nil {
		return
	}
	full := n.Obj().Pkg().Path() + "." + n.Obj().Name()
	switch full {
	case modPath + "/types.List", modPath + "/types.Vector", modPath + "/types.HashMap", modPath + "/types.Set",
		modPath + "/types.MalFunc", modPath + "/types.Func", modPath + "/types.Symbol", modPath + "/lisperror.LispError":
	default:
		return
	}
	construct := "store " + n.Obj().Name() + "." + fieldName(fa.X.Type(), fa.Field)
	if _, local := fa.X.(*ssa.Alloc); local {
		r.ok("C02.copyrecv", fn, construct, st.Pos(), "field of a struct local to the activation (a copy)")
	} else {
		r.bad("C02.copyrecv", fn, construct, st.Pos(), "field written through a pointer that was not allocated in this activation")
	}
}

// registrations: functions passed to call.Call / call.CallOverrideFN anywhere in the module (non-test).
func (w *World) registeredFuncs() []*ssa.Function {
	var out []*ssa.Function
	callA, callB := w.Fn("lib/call", "Call"), w.Fn("lib/call", "CallOverrideFN")
	for _, fn := range w.Funcs {
		if isTestFunc(w, fn) {
			continue
		}
		for _, b := range fn.Blocks {
			for _, in := range b.Instrs {
				c, ok := in.(*ssa.Call)
				if !ok {
					continue
				}
				callee := c.Call.StaticCallee()
				if callee == nil || (callee != callA && callee != callB) {
					continue
				}
				idx := 1
				if callee == callB {
					idx = 2
				}
				out = append(out, w.regFuncsOfArg(c.Call.Args[idx], 0)...)
			}
		}
	}
	return out
}

// reachableFrom: module functions reachable through static calls, module-resolved dynamic calls and closures.
func (w *World) reachableFrom(roots []*ssa.Function) map[*ssa.Function]bool {
	seen := map[*ssa.Function]bool{}
	var work []*ssa.Function
	push := func(f *ssa.Function) {
		if f != nil && f.Blocks != nil && !seen[f] && strings.HasPrefix(fnPkgPath(f), modPath) {
			seen[f] = true
			work = append(work, f)
		}
	}
	for _, f := range roots {
		push(f)
	}
	for len(work) > 0 {
		f := work[len(work)-1]
		work = work[:len(work)-1]
		for _, b := range f.Blocks {
			for _, in := range b.Instrs {
				switch in := in.(type) {
				case ssa.CallInstruction:
					if sc := in.Common().StaticCallee(); sc != nil {
						push(sc)
					} else if p, isP := in.Common().Value.(*ssa.Parameter); isP && !in.Common().IsInvoke() {
						// a function-typed parameter: the functions passed for it at every call site, when all are known
						if vals, ok := w.paramFuncValues(p); ok {
							for _, d := range vals {
								push(d)
							}
						} else {
							for _, d := range w.dynCallees(in) {
								if !isTestFunc(w, d) {
									push(d)
								}
							}
						}
					} else {
						for _, d := range w.dynCallees(in) {
							if !isTestFunc(w, d) {
								push(d)
							}
						}
					}
				case *ssa.MakeClosure:
					push(in.Fn.(*ssa.Function))
				}
			}
		}
	}
	return seen
}

func checkRegUnreachable(w *World, r *Report) {
	regs := w.registeredFuncs()
	r.floor("C02.reg", "functions registered with call.Call/CallOverrideFN", len(regs), 80)
	roots := append(evalEntries(w), regs...)
	for _, n := range []string{"READ", "READWithPreamble"} {
		roots = append(roots, w.Fn("", n))
	}
	reach := w.reachableFrom(roots)
	var regFns []*ssa.Function
	for _, name := range []string{"Call", "CallOverrideFN", "call"} {
		fn := w.Fn("lib/call", name)
		if fn == nil {
			r.undecided("C02.reg", nil, "lib/call."+name, token.NoPos, "function no longer resolves")
			continue
		}
		regFns = append(regFns, fn)
	}
	// the functions the registration routine is built from and that update the registry
	if callFn := w.Fn("lib/call", "call"); callFn != nil {
		for _, f := range w.withPkgHelpers(callFn) {
			if f != callFn && updatesRegistry(f) {
				regFns = append(regFns, f)
			}
		}
	}
	for _, fn := range regFns {
		if reach[fn] {
			r.bad("C02.reg", fn, "reachable from evaluation", fn.Pos(), "a builtin or the evaluator can register builtins at run time: the in-place registry update would mutate a published value")
		} else {
			r.ok("C02.reg", fn, "unreachable from evaluation", fn.Pos(), "not in the call closure of EVAL, Apply, READ or any registered builtin")
		}
	}
	r.Notes = append(r.Notes, "reachable set size from evaluator + registered builtins: "+itoa(len(reach)))
}

func itoa(i int) string {
	return strings.TrimSpace(strings.Replace(strings.Repeat(" ", 0)+fmtInt(i), " ", "", -1))
}

func fmtInt(i int) string {
	if i == 0 {
		return "0"
	}
	neg := i < 0
	if neg {
		i = -i
	}
	s := ""
	for i > 0 {
		s = string(rune('0'+i%10)) + s
		i /= 10
	}
	if neg {
		s = "-" + s
	}
	return s
}

func init() { register("C02", checkC02) }

// handedOutInLoop: the write is inside a loop, its base storage is defined outside that loop, and the
// same storage is passed to a (non-builtin) call inside the loop. Returns that call.
func handedOutInLoop(write ssa.Instruction, base ssa.Value) ssa.CallInstruction {
	fn := write.Parent()
	root := storageRoot(base)
	if root == nil {
		return nil
	}
	rootInstr, ok := root.(ssa.Instruction)
	if !ok {
		return nil
	}
	for _, l := range naturalLoops(fn) {
		blocks := loopBlocks(l)
		_, carried := root.(*ssa.Phi)
		if !blocks[write.Block()] || (blocks[rootInstr.Block()] && !(carried && rootInstr.Block() == l.header)) {
			continue
		}
		for b := range blocks {
			for _, in := range b.Instrs {
				ci, ok := in.(ssa.CallInstruction)
				if !ok {
					continue
				}
				if _, isB := ci.Common().Value.(*ssa.Builtin); isB {
					continue
				}
				for _, a := range ci.Common().Args {
					if storageRoot(a) == root {
						return ci
					}
				}
			}
		}
	}
	return nil
}

// storageRoot: the allocation a slice value views (slice literal array, make), through reslices and phis of one root.
func storageRoot(v ssa.Value) ssa.Value {
	return storageRootD(v, 0)
}

func storageRootD(v ssa.Value, depth int) ssa.Value {
	for ; depth < 10; depth++ {
		switch x := v.(type) {
		case *ssa.Slice:
			v = x.X
		case *ssa.Alloc, *ssa.MakeSlice, *ssa.MakeMap:
			return x
		case *ssa.MakeInterface:
			v = x.X
		case *ssa.Call:
			// append(s, …) may return s's own storage
			if bi, ok := x.Call.Value.(*ssa.Builtin); ok && bi.Name() == "append" {
				v = x.Call.Args[0]
				continue
			}
			return nil
		case *ssa.Phi:
			// one allocation seen through loop-carried variables: the phis, reslices and appends that feed each
			// other form one family; its storage is the one allocation among its leaves, or - when the variable
			// starts out nil and is only ever refilled by append (buf = buf[:0]; buf = append(buf, x)) - whatever
			// the outermost variable of the family holds, lap after lap
			var phis []*ssa.Phi
			var leaves []ssa.Value
			seen := map[ssa.Value]bool{}
			var walk func(u ssa.Value, d int)
			walk = func(u ssa.Value, d int) {
				if seen[u] || d > 12 {
					return
				}
				seen[u] = true
				switch y := u.(type) {
				case *ssa.Phi:
					phis = append(phis, y)
					for _, op := range y.Edges {
						walk(op, d+1)
					}
				case *ssa.Slice:
					walk(y.X, d+1)
				case *ssa.Call:
					if bi, ok := y.Call.Value.(*ssa.Builtin); ok && bi.Name() == "append" {
						walk(y.Call.Args[0], d+1)
						return
					}
					leaves = append(leaves, u)
				default:
					leaves = append(leaves, u)
				}
			}
			walk(x, 0)
			var root ssa.Value
			onlyNil := true
			for _, lf := range leaves {
				if c, ok := lf.(*ssa.Const); ok && c.Value == nil {
					continue
				}
				onlyNil = false
				r := storageRootD(lf, depth+1)
				if r == nil {
					continue
				}
				if root != nil && r != root {
					return nil
				}
				root = r
			}
			if root == nil && onlyNil && len(phis) > 0 {
				top := phis[0]
				for _, q := range phis[1:] {
					if q.Block() != top.Block() && q.Block().Dominates(top.Block()) {
						top = q
					}
				}
				return top
			}
			return root
		case *ssa.UnOp:
			// a local composite (List{Val: s}) holding the slice: the storage of what was stored in its field
			if al, ok := x.X.(*ssa.Alloc); ok && x.Op == token.MUL && al.Referrers() != nil {
				var root ssa.Value
				for _, ref := range *al.Referrers() {
					fa, ok := ref.(*ssa.FieldAddr)
					if !ok || fa.Referrers() == nil {
						continue
					}
					for _, u := range *fa.Referrers() {
						if st, ok := u.(*ssa.Store); ok && st.Addr == ssa.Value(fa) {
							if _, isSlice := st.Val.Type().Underlying().(*types.Slice); isSlice {
								if r := storageRootD(st.Val, depth+1); r != nil {
									root = r
								}
							}
						}
					}
				}
				return root
			}
			return nil
		default:
			return nil
		}
	}
	return nil
}

// writesParam: the function (or one it hands the parameter to) writes into the storage of its parameter number idx:
// element store, map update, delete, copy destination, clear, or append (which writes into spare capacity).
func writesParam(fn *ssa.Function, idx int, seen map[*ssa.Function]bool, depth int) bool {
	if depth > 4 || idx >= len(fn.Params) {
		return depth > 4
	}
	if seen[fn] {
		return false
	}
	seen[fn] = true
	p := ssa.Value(fn.Params[idx])
	memo := map[ssa.Value]bool{}
	var derives func(v ssa.Value, d int) bool
	derives = func(v ssa.Value, d int) bool {
		if v == p {
			return true
		}
		if d > 10 {
			return false
		}
		if r, ok := memo[v]; ok {
			return r
		}
		memo[v] = false
		res := false
		switch x := v.(type) {
		case *ssa.Slice:
			res = derives(x.X, d+1)
		case *ssa.ChangeType:
			res = derives(x.X, d+1)
		case *ssa.Convert:
			res = derives(x.X, d+1)
		case *ssa.MakeInterface:
			res = derives(x.X, d+1)
		case *ssa.Phi:
			for _, op := range x.Edges {
				if derives(op, d+1) {
					res = true
				}
			}
		case *ssa.Call:
			if bi, ok := x.Call.Value.(*ssa.Builtin); ok && bi.Name() == "append" {
				res = derives(x.Call.Args[0], d+1)
			}
		}
		memo[v] = res
		return res
	}
	for _, b := range fn.Blocks {
		for _, in := range b.Instrs {
			switch x := in.(type) {
			case *ssa.MapUpdate:
				if derives(x.Map, 0) {
					return true
				}
			case *ssa.Store:
				if ia, ok := x.Addr.(*ssa.IndexAddr); ok && derives(ia.X, 0) {
					return true
				}
			case ssa.CallInstruction:
				c := x.Common()
				if bi, ok := c.Value.(*ssa.Builtin); ok {
					switch bi.Name() {
					case "append", "copy", "delete", "clear":
						if len(c.Args) > 0 && derives(c.Args[0], 0) {
							return true
						}
					}
					continue
				}
				callee := c.StaticCallee()
				for i, a := range c.Args {
					if !derives(a, 0) {
						continue
					}
					if callee == nil || len(callee.Blocks) == 0 {
						if callee != nil && (callee.Name() == "len" || callee.Name() == "cap") {
							continue
						}
						// the assembly search primitives under bytes and strings only read
						if callee != nil && callee.Pkg != nil && callee.Pkg.Pkg.Path() == "internal/bytealg" {
							continue
						}
						return true // unknown code is handed the storage
					}
					if writesParam(callee, i, seen, depth+1) {
						return true
					}
				}
			}
		}
	}
	return false
}

// handedOutBefore: the storage the write goes to was passed, earlier on some path through the function, to a
// call that can retain it (a function value, an interface method, or a module function that stores or returns
// its parameter); straight-line counterpart of handedOutInLoop.
func handedOutBefore(write ssa.Instruction, base ssa.Value) ssa.CallInstruction {
	root := storageRoot(base)
	if root == nil {
		return nil
	}
	fn := write.Parent()
	for _, b := range fn.Blocks {
		for _, in := range b.Instrs {
			ci, ok := in.(ssa.CallInstruction)
			if !ok || in == write {
				continue
			}
			if _, isB := ci.Common().Value.(*ssa.Builtin); isB {
				continue
			}
			passed := false
			for _, a := range ci.Common().Args {
				if storageRoot(a) == root {
					passed = true
				}
			}
			if !passed || !mayRetain(ci) {
				continue
			}
			// the call happens before the write on some path
			if b == write.Block() {
				before := false
				for _, x := range b.Instrs {
					if x == in {
						before = true
						break
					}
					if x == write {
						break
					}
				}
				if before {
					return ci
				}
				continue
			}
			if blockReaches(b, write.Block(), false) {
				return ci
			}
		}
	}
	return nil
}

// mayRetain: the callee can keep a reference to a container argument beyond the call.
func mayRetain(ci ssa.CallInstruction) bool {
	c := ci.Common()
	sc := c.StaticCallee()
	if sc == nil {
		return true // function value or interface method: a lisp function can keep its arguments
	}
	if !strings.HasPrefix(fnPkgPath(sc), modPath) {
		return false // standard library helpers (sort, strings, fmt …) do not keep lisp containers
	}
	switch sc.Name() {
	case "Apply", "EVAL":
		return true
	}
	// a module function retains a parameter when it stores it, returns it or hands it on
	for i, a := range c.Args {
		if storageRoot(a) == nil || i >= len(sc.Params) {
			continue
		}
		if paramEscapes(sc.Params[i], map[*ssa.Function]bool{}, 0) {
			return true
		}
	}
	return false
}

func paramEscapes(p *ssa.Parameter, seen map[*ssa.Function]bool, depth int) bool {
	fn := p.Parent()
	if depth > 3 || seen[fn] {
		return depth > 3
	}
	seen[fn] = true
	var esc func(v ssa.Value, d int) bool
	visited := map[ssa.Value]bool{}
	esc = func(v ssa.Value, d int) bool {
		if d > 8 || visited[v] {
			return false
		}
		visited[v] = true
		for _, ref := range *v.Referrers() {
			switch u := ref.(type) {
			case *ssa.Store:
				if u.Val == v {
					return true
				}
			case *ssa.Return:
				return true
			case *ssa.MakeInterface:
				if esc(u, d+1) {
					return true
				}
			case *ssa.Slice:
				if esc(u, d+1) {
					return true
				}
			case *ssa.Phi:
				if esc(u, d+1) {
					return true
				}
			case *ssa.MakeClosure:
				return true
			case ssa.CallInstruction:
				if _, isB := u.Common().Value.(*ssa.Builtin); isB {
					if bi := u.Common().Value.(*ssa.Builtin); bi.Name() == "append" {
						if val, ok := ref.(ssa.Value); ok && esc(val, d+1) {
							return true
						}
					}
					continue
				}
				sc := u.Common().StaticCallee()
				if sc == nil {
					return true
				}
				if !strings.HasPrefix(fnPkgPath(sc), modPath) {
					continue
				}
				for i, a := range u.Common().Args {
					if a == v && i < len(sc.Params) && paramEscapes(sc.Params[i], seen, depth+1) {
						return true
					}
				}
			}
		}
		return false
	}
	return esc(p, 0)
}

// updatesRegistry: f (or a closure in it) calls the environment's Update method (the registry update).
func updatesRegistry(f *ssa.Function) bool {
	for _, g := range append([]*ssa.Function{f}, allAnon(f)...) {
		for _, b := range g.Blocks {
			for _, in := range b.Instrs {
				if ci, ok := in.(ssa.CallInstruction); ok && ci.Common().IsInvoke() && ci.Common().Method.Name() == "Update" {
					return true
				}
			}
		}
	}
	return false
}

// builtinBindsRule: bindings are made by the special forms (def, defmacro, the scopes let/fn/catch open) and by
// the loaders that register builtins - never by a builtin while a program runs. A builtin that binds or rebinds a
// name in a scope it was handed (a call frame it keeps for the next element, say) changes what closures over
// that scope see, with no def in sight.
func builtinBindsRule(w *World, r *Report, rule string) {
	r.rule(rule, "no registered builtin of the library (nor a function or closure of its package it is built from) calls Set, SetNT, Update or Remove on an environment: a binding read twice with no intervening def is the same both times, also when a closure captured the scope in between")
	seen := map[*ssa.Function]bool{}
	n := 0
	for _, root := range w.registeredFuncs() {
		if !strings.HasPrefix(fnPkgPath(root), modPath+"/lib/") {
			continue
		}
		var fns []*ssa.Function
		for _, f := range w.withPkgHelpers(root) {
			fns = append(fns, f)
			fns = append(fns, allAnon(f)...)
		}
		for _, f := range fns {
			if seen[f] || isTestFunc(w, f) {
				continue
			}
			seen[f] = true
			for _, b := range f.Blocks {
				for _, in := range b.Instrs {
					ci, ok := in.(ssa.CallInstruction)
					if !ok || !ci.Common().IsInvoke() {
						continue
					}
					switch ci.Common().Method.Name() {
					case "Set", "SetNT", "Update", "Remove", "RemoveNT":
					default:
						continue
					}
					if !strings.HasSuffix(ci.Common().Value.Type().String(), "types.EnvType") {
						continue
					}
					n++
					r.bad(rule, f, "binding written by a builtin: "+ci.Common().Method.Name(), in.Pos(), "a builtin changes a binding of a scope while the program runs: closures (and futures) that captured that scope see the name change without any def")
				}
			}
		}
	}
	r.add(rule, nil, "functions of the registered builtins examined", token.NoPos, "ok", fmt.Sprintf("%d functions, %d binding writes", len(seen), n))
	r.floor(rule, "functions of the registered builtins", len(seen), 50)
}

var registeredSet map[*World]map[*ssa.Function]bool

// isRegistered: fn is bound to a lisp name by the binder (its parameters are what programs pass).
func (w *World) isRegistered(fn *ssa.Function) bool {
	if registeredSet == nil {
		registeredSet = map[*World]map[*ssa.Function]bool{}
	}
	set, ok := registeredSet[w]
	if !ok {
		set = map[*ssa.Function]bool{}
		for _, f := range w.registeredFuncs() {
			set[f] = true
		}
		registeredSet[w] = set
	}
	return set[fn]
}

func isByteSlice(t types.Type) bool {
	sl, ok := t.Underlying().(*types.Slice)
	if !ok {
		return false
	}
	b, ok := sl.Elem().Underlying().(*types.Basic)
	return ok && b.Kind() == types.Byte
}

func byteEditingPkg(path string) bool {
	switch path {
	case "bytes", "slices", "sort", "encoding/binary", "encoding/base64", "encoding/base32", "encoding/hex", "strconv", "unicode/utf8":
		return true
	}
	return false
}
