package main

import (
	"encoding/json"
	"fmt"
	"go/constant"
	"go/token"
	"go/types"
	"os"
	"path/filepath"
	"regexp"
	"sort"
	"strings"

	"golang.org/x/tools/go/ssa"
)

func init() {
	register("C14", checkC14)
	register("C13", checkC13)
	register("C17", checkC17)
	register("C19", checkC19)
	register("C20", checkC20)
}

// caseRegions: for a function whose body is a type switch on parameter p, the blocks of each case (by asserted type).
func caseRegions(fn *ssa.Function, p ssa.Value) map[string]map[*ssa.BasicBlock]bool {
	out := map[string]map[*ssa.BasicBlock]bool{}
	for _, b := range fn.Blocks {
		iff := blockIf(b)
		if iff == nil {
			continue
		}
		ex, ok := iff.Cond.(*ssa.Extract)
		if !ok || ex.Index != 1 {
			continue
		}
		ta, ok := ex.Tuple.(*ssa.TypeAssert)
		if !ok || !ta.CommaOk || ta.X != p {
			continue
		}
		// the case body is the true successor; several types may share one body (case A, B:)
		reg := map[*ssa.BasicBlock]bool{}
		body := b.Succs[0]
		for _, c := range fn.Blocks {
			if body.Dominates(c) {
				reg[c] = true
			}
		}
		out[shortType(ta.AssertedType)] = reg
	}
	return out
}

// ---------------------------------------------------------------------------
// C14

func checkC14(w *World, r *Report) {
	e := newEngine(w)
	r.rule("C14.presence", "while ranging over one map, every lookup in the other map is a comma-ok lookup whose ok result is branched on (otherwise an absent key equals a key bound to nil)")
	r.rule("C14.kinds", "the equality dispatch has a dedicated case for every value struct of package types that has a Val field (Symbol, List, Vector, HashMap, Set), and none of these cases compares whole structs with ==")
	r.rule("C14.gate", "before the dispatch the function returns false unless the dynamic types are identical or both operands are sequential; the sequential predicate accepts exactly the list and vector types")
	equalsEntryRule(w, r, "C14.entry")
	headerRebindLint(w, r, "C14.lisp-rebind", "= is the builtin whose Go implementation (Equal_Q) the other rules examine; a lisp wrapper around it decides equality by its own tests", "=")
	r.rule("C14.stateless", "Equal_Q and the functions of its package it is built from (the sequence test, the slice accessor) keep no state: they assign no package-level variable, so an answer depends on the two operands only and concurrent comparisons cannot disturb each other")
	noGlobalWritesRule(w, r, "C14.stateless", "equality", []*ssa.Function{w.Fn("types", "Equal_Q"), w.Fn("types", "Sequential_Q"), w.Fn("types", "GetSlice")})
	// = reaches Equal_Q through the binder's adapters: whatever those keep between calls is shared by concurrent comparisons
	capturedStateRule(w, r, e, "C14.adapter-state")
	allElementsRule(w, r, e, "C14.all-elements")
	// Equal_Q reads both operands through the sequence accessor and drops its error: sound only as long as the
	// accessor cannot fail for a list or a vector, whatever it holds
	accessorTotalRule(w, r, e, "C14.accessor-total")
	equalityReadsValOnlyRule(w, r, "C14.val-only")
	// "values that are = stay =": what two values compare to is settled when they are built; a builtin that writes
	// into a collection it was handed changes the answer of a comparison made before (shared with C02.write)
	r.rule("C14.operands-intact", "no builtin writes into a collection it was handed (every map update, element store and append base is storage of the current activation): a value compared once compares the same ever after, and two results built from one base do not share what was added to each (shared with C02.write)")
	ruleContainerWrites(w, r, e, "C14.operands-intact", func(fn *ssa.Function) bool { return runtimePkg(fnPkgPath(fn)) }, true)
	r.rule("C14.go-equality", "Go's == / != on two lisp values is used only where neither can be a comparable struct that carries a source position (a Symbol read from text compares unequal to the same symbol read elsewhere): such values must go through Equal_Q's own case")
	goEqualityRule(w, r, e, "C14.go-equality")
	r.rule("C14.symmetric-shape", "every collection case compares the sizes of both operands before comparing elements, and the two sequence cases recurse through the same function element by element")
	r.rule("C14.reg", "= is registered as the equality function applied to both arguments in order, result returned unchanged")
	r.rule("C14.site", "no instruction of the equality function can panic (index/assertion guarded by the gate, the case and the size test)")
	eq := w.Fn("types", "Equal_Q")
	seqQ := w.Fn("types", "Sequential_Q")
	if eq == nil || seqQ == nil {
		r.undecided("C14.presence", nil, "anchors", token.NoPos, "types.Equal_Q / Sequential_Q no longer resolve")
		return
	}
	a, bpar := ssa.Value(eq.Params[0]), ssa.Value(eq.Params[1])
	regs := caseRegions(eq, a)
	// kinds
	scope := w.ByPath[modPath+"/types"].Types.Scope()
	var kinds []string
	for _, n := range scope.Names() {
		tn, ok := scope.Lookup(n).(*types.TypeName)
		if !ok {
			continue
		}
		st, ok := tn.Type().Underlying().(*types.Struct)
		if !ok {
			continue
		}
		for i := 0; i < st.NumFields(); i++ {
			if st.Field(i).Name() == "Val" {
				kinds = append(kinds, "types."+n)
			}
		}
	}
	sort.Strings(kinds)
	for _, k := range kinds {
		_, ok := regs[k]
		r.check(ok, "C14.kinds", eq, "case for "+k, eq.Pos(), "dedicated case", "no dedicated case: "+k+" values fall to the default == comparison (positions/metadata would matter, or uncomparable types panic)")
	}
	r.floor("C14.kinds", "value structs with a Val field", len(kinds), 5)
	for k, reg := range regs {
		for b := range reg {
			for _, in := range b.Instrs {
				if bo, ok := in.(*ssa.BinOp); ok && (bo.Op == token.EQL || bo.Op == token.NEQ) {
					if (bo.X == a && bo.Y == bpar) || (bo.X == bpar && bo.Y == a) {
						r.bad("C14.kinds", eq, "whole-value comparison in case "+k, bo.Pos(), "structs compared with == in a dedicated case")
					}
				}
			}
		}
	}
	// metadata and positions must not matter
	for _, b := range eq.Blocks {
		for _, in := range b.Instrs {
			var fname string
			switch x := in.(type) {
			case *ssa.Field:
				fname = fieldName(x.X.Type(), x.Field)
			case *ssa.FieldAddr:
				fname = fieldName(x.X.Type(), x.Field)
			}
			if fname == "Meta" || fname == "Cursor" {
				r.bad("C14.kinds", eq, "read of "+fname, in.Pos(), "equality looks at metadata / source positions: structurally equal values can compare unequal")
			}
		}
	}
	// presence
	np := 0
	var eqLoops []natLoop
	for _, f := range w.withPkgHelpers(eq) {
		eqLoops = append(eqLoops, naturalLoops(f)...)
	}
	for _, l := range eqLoops {
		blocks := loopBlocks(l)
		var ranged ssa.Value
		for b := range blocks {
			for _, in := range b.Instrs {
				if nx, ok := in.(*ssa.Next); ok {
					if rg, ok := nx.Iter.(*ssa.Range); ok {
						ranged = rg.X
					}
				}
			}
		}
		if ranged == nil {
			continue
		}
		found := 0
		for b := range blocks {
			for _, in := range b.Instrs {
				lk, ok := in.(*ssa.Lookup)
				if !ok || lk.X == ranged {
					continue
				}
				if _, isMap := lk.X.Type().Underlying().(*types.Map); !isMap {
					continue
				}
				found++
				np++
				okPres := false
				if lk.CommaOk {
					for _, ref := range *lk.Referrers() {
						if ex, ok := ref.(*ssa.Extract); ok && ex.Index == 1 {
							for _, u := range *ex.Referrers() {
								switch x := u.(type) {
								case *ssa.If:
									okPres = true
								case *ssa.UnOp:
									for _, u2 := range *x.Referrers() {
										if _, ok := u2.(*ssa.If); ok {
											okPres = true
										}
									}
								}
							}
						}
					}
				}
				r.check(okPres, "C14.presence", eq, "lookup in the other map", lk.Pos(), "comma-ok, presence branched on", "the other map is indexed without testing presence: a missing key compares equal to a key bound to nil")
			}
		}
		if found == 0 {
			r.bad("C14.presence", eq, "map/set comparison loop", l.header.Instrs[0].Pos(), "ranges over one map without ever looking the key up in the other")
		}
	}
	r.floor("C14.presence", "lookups in the other map", np, 2)
	// symmetric shape: size test in each collection case
	// a case that only hands both operands to one function of the package and returns its result is judged
	// by that function's body
	delegate := func(reg map[*ssa.BasicBlock]bool) map[*ssa.BasicBlock]bool {
		var call *ssa.Call
		for b := range reg {
			for _, in := range b.Instrs {
				c, ok := in.(*ssa.Call)
				if !ok {
					continue
				}
				h := c.Call.StaticCallee()
				if h == nil || h == eq || h.Pkg != eq.Pkg || h.Parent() != nil || len(h.Blocks) == 0 {
					continue
				}
				hasA, hasB := false, false
				// the operand itself, or its element slice obtained with the accessor (GetSlice)
				from := func(arg, op ssa.Value) bool {
					if arg == op {
						return true
					}
					// the operand's storage (a.(HashMap).Val)
					if k := e.keyOf(arg); k.Root == op && k.Path != "" {
						return true
					}
					if ex, ok := arg.(*ssa.Extract); ok && ex.Index == 0 {
						if gc, ok := ex.Tuple.(*ssa.Call); ok && len(gc.Call.Args) == 1 && gc.Call.Args[0] == op && gc.Call.StaticCallee() != nil && len(e.accessorCases(gc.Call.StaticCallee())) > 0 {
							return true
						}
					}
					return false
				}
				for _, arg := range c.Call.Args {
					if from(arg, a) {
						hasA = true
					}
					if from(arg, bpar) {
						hasB = true
					}
				}
				if hasA && hasB {
					if call != nil {
						return reg
					}
					call = c
				}
			}
		}
		if call == nil {
			return reg
		}
		for b := range reg {
			if ret, ok := b.Instrs[len(b.Instrs)-1].(*ssa.Return); ok && ret.Results[0] != ssa.Value(call) {
				return reg
			}
		}
		out := map[*ssa.BasicBlock]bool{}
		for _, b := range call.Call.StaticCallee().Blocks {
			out[b] = true
		}
		return out
	}
	for _, k := range []string{"types.List", "types.Vector", "types.HashMap", "types.Set"} {
		reg, ok := regs[k]
		if !ok {
			continue
		}
		reg = delegate(reg)
		okLen := false
		for b := range reg {
			if iff := blockIf(b); iff != nil {
				if bo, ok := iff.Cond.(*ssa.BinOp); ok && (bo.Op == token.NEQ || bo.Op == token.EQL) {
					tx, _, okx := e.linOf(bo.X)
					ty, _, oky := e.linOf(bo.Y)
					if okx && oky && tx.Kind == 1 && ty.Kind == 1 && tx.String() != ty.String() {
						// the unequal edge returns false
						idx := 0
						if bo.Op == token.EQL {
							idx = 1
						}
						t := b.Succs[idx]
						if ret, ok := t.Instrs[len(t.Instrs)-1].(*ssa.Return); ok {
							if c, ok := ret.Results[0].(*ssa.Const); ok && c.Value != nil && !constant.BoolVal(c.Value) {
								okLen = true
							}
						}
					}
				}
			}
		}
		r.check(okLen, "C14.symmetric-shape", eq, "size test in case "+k, eq.Pos(), "sizes of both operands compared, unequal sizes are unequal", "no size comparison: equality degenerates to 'is a prefix / subset of' and is not symmetric")
		// no `return true` before the size test
		early := false
		for b := range reg {
			ret, ok := b.Instrs[len(b.Instrs)-1].(*ssa.Return)
			if !ok {
				continue
			}
			c, ok := ret.Results[0].(*ssa.Const)
			if ok && c.Value != nil && !constant.BoolVal(c.Value) {
				continue
			}
			// a result that can be true: must be dominated by a size-equality edge
			dominated := false
			for d := range reg {
				iff := blockIf(d)
				if iff == nil {
					continue
				}
				bo, ok := iff.Cond.(*ssa.BinOp)
				if !ok || (bo.Op != token.NEQ && bo.Op != token.EQL) {
					continue
				}
				tx, _, okx := e.linOf(bo.X)
				ty, _, oky := e.linOf(bo.Y)
				if !okx || !oky || tx.Kind != 1 || ty.Kind != 1 {
					continue
				}
				eqEdge := 1
				if bo.Op == token.EQL {
					eqEdge = 0
				}
				if edgeDominates(d, eqEdge, b) {
					dominated = true
				}
			}
			if !dominated {
				early = true
			}
		}
		r.check(!early, "C14.symmetric-shape", eq, "equal only after the size test in case "+k, eq.Pos(), "every possibly-true result is reached through the equal-sizes edge", "a result that can be true is returned before the sizes were compared")
		if k == "types.List" || k == "types.Vector" {
			rec := false
			for b := range reg {
				for _, in := range b.Instrs {
					if c, ok := in.(*ssa.Call); ok && c.Call.StaticCallee() == eq {
						rec = true
					}
				}
			}
			r.check(rec, "C14.symmetric-shape", eq, "element comparison in case "+k, eq.Pos(), "recurses through the same function", "elements are not compared with the same equality")
		}
	}
	// gate
	var typeEqIf, seqAIf, seqBIf *ssa.BasicBlock
	typeEqEdge := 0 // successor index taken when the dynamic types are equal
	for _, b := range eq.Blocks {
		iff := blockIf(b)
		if iff == nil {
			continue
		}
		switch x := iff.Cond.(type) {
		case *ssa.BinOp:
			if x.Op == token.EQL || x.Op == token.NEQ {
				cx, ok1 := x.X.(*ssa.Call)
				cy, ok2 := x.Y.(*ssa.Call)
				if ok1 && ok2 && cx.Call.StaticCallee() != nil && cx.Call.StaticCallee().Name() == "TypeOf" && cy.Call.StaticCallee() != nil && cy.Call.StaticCallee().Name() == "TypeOf" {
					typeEqIf = b
					if x.Op == token.NEQ {
						typeEqEdge = 1
					}
				}
			}
		case *ssa.Call:
			if x.Call.StaticCallee() == seqQ {
				if x.Call.Args[0] == a {
					seqAIf = b
				} else if x.Call.Args[0] == bpar {
					seqBIf = b
				}
			}
		}
	}
	okGate := typeEqIf != nil && seqAIf != nil && seqBIf != nil
	if okGate {
		// the dispatch head: first block with a comma-ok assertion on a
		var head *ssa.BasicBlock
		for _, b := range eq.Blocks {
			for _, in := range b.Instrs {
				if ta, ok := in.(*ssa.TypeAssert); ok && ta.CommaOk && ta.X == a && head == nil {
					head = b
				}
			}
		}
		for _, seqIf := range []*ssa.BasicBlock{seqAIf, seqBIf} {
			// reachable with typeEq false and this predicate false?
			seen := map[*ssa.BasicBlock]bool{}
			stack := []*ssa.BasicBlock{eq.Blocks[0]}
			reached := false
			for len(stack) > 0 {
				b := stack[len(stack)-1]
				stack = stack[:len(stack)-1]
				if seen[b] {
					continue
				}
				seen[b] = true
				if b == head {
					reached = true
					break
				}
				for i, s := range b.Succs {
					if b == typeEqIf && i == typeEqEdge {
						continue // types differ on the path explored
					}
					if b == seqIf && i == 0 {
						continue // this operand is not sequential on the path explored
					}
					stack = append(stack, s)
				}
			}
			if reached || head == nil {
				okGate = false
			}
		}
	}
	r.check(okGate, "C14.gate", eq, "type gate before the dispatch", eq.Pos(), "different dynamic types are unequal unless both are sequential", "values of different kinds can reach the per-kind comparison (string/keyword/symbol/nil/false/()/0 must stay pairwise distinct)")
	// sequential predicate accepts exactly List and Vector
	names := map[string]bool{}
	for _, b := range seqQ.Blocks {
		for _, in := range b.Instrs {
			if bo, ok := in.(*ssa.BinOp); ok && bo.Op == token.EQL {
				if s, ok := constString(bo.Y); ok {
					names[s] = true
				}
			}
			if ta, ok := in.(*ssa.TypeAssert); ok {
				names[strings.TrimPrefix(shortType(ta.AssertedType), "types.")] = true
			}
		}
	}
	r.check(strings.Join(keysOf(names), ",") == "List,Vector", "C14.gate", seqQ, "types accepted as sequential", seqQ.Pos(), "List and Vector", "the sequential predicate accepts "+strings.Join(keysOf(names), ","))
	// reg
	okReg := false
	for _, fn := range w.registeredFuncsNamed("=") {
		for _, rt := range (&evalModel{}).returns(fn) {
			v := rt[1].(ssa.Value)
			if mi, ok := v.(*ssa.MakeInterface); ok {
				v = mi.X
			}
			if c, ok := v.(*ssa.Call); ok && c.Call.StaticCallee() == eq && len(fn.Params) == 2 && c.Call.Args[0] == ssa.Value(fn.Params[0]) && c.Call.Args[1] == ssa.Value(fn.Params[1]) {
				okReg = true
			}
		}
	}
	r.check(okReg, "C14.reg", eq, "registration of =", eq.Pos(), "Equal_Q(a, b) returned unchanged", "= is not registered as the equality function on its two arguments")
	// site audit
	aud := newAudit(w, e, r, "C14.site")
	aud.exempt = exemptionsC14
	aud.closure = []*ssa.Function{eq, seqQ}
	aud.inClos[eq], aud.inClos[seqQ] = true, true
	aud.run()
	r.floor("C14.site", "may-panic sites in the equality function", r.count("C14.site"), 4)
	r.Assumptions = append(r.Assumptions, "reflexivity, symmetry and transitivity as relations follow from these shapes only by an argument about the recursion that is stated in prose (DESIGN.md), not mechanised")
}

func (w *World) registeredFuncsNamed(name string) []*ssa.Function {
	var out []*ssa.Function
	callB := w.Fn("lib/call", "CallOverrideFN")
	for _, fn := range w.Funcs {
		if isTestFunc(w, fn) {
			continue
		}
		for _, c := range staticCallsTo(fn, callB) {
			if s, ok := constString(c.Call.Args[1]); ok && s == name {
				v := c.Call.Args[2]
				if mi, ok := v.(*ssa.MakeInterface); ok {
					v = mi.X
				}
				switch g := v.(type) {
				case *ssa.Function:
					out = append(out, g)
				case *ssa.MakeClosure:
					out = append(out, g.Fn.(*ssa.Function))
				}
			}
		}
	}
	return out
}

// ---------------------------------------------------------------------------
// C13

func propertyBuiltins() []string {
	// the builtins named in the statement of C13 (read from the given properties file, not copied here)
	for _, p := range []string{"/verif/properties.jsonl", filepath.Join(filepath.Dir(os.Args[0]), "..", "properties.jsonl")} {
		b, err := os.ReadFile(p)
		if err != nil {
			continue
		}
		for _, line := range strings.Split(string(b), "\n") {
			var rec struct {
				ID        string `json:"id"`
				Statement string `json:"statement"`
			}
			if json.Unmarshal([]byte(line), &rec) != nil || rec.ID != "C13" {
				continue
			}
			i := strings.Index(rec.Statement, "builtins (")
			j := strings.Index(rec.Statement, ", and the type predicates")
			if i < 0 || j < 0 {
				return nil
			}
			var out []string
			for _, n := range strings.Split(rec.Statement[i+len("builtins ("):j], ",") {
				out = append(out, strings.TrimSpace(n))
			}
			return out
		}
	}
	return nil
}

func checkC13(w *World, r *Report) {
	e := newEngine(w)
	r.rule("C13.vocab", "every builtin named in the property is registered, no name is registered twice with different functions inside one loader, and every free symbol of the embedded lisp headers is a special form, a local binding, a definition of a header or a registered name")
	r.rule("C13.domain", "every registered builtin runs behind the binder's recover barrier (wrong kinds and out-of-range indices surface as errors), and every slice expression with an explicit upper bound on container storage is dominated by a guard upper <= len (Go only checks cap: an unguarded bound returns elements past the end)")
	r.rule("C13.maplookup", "builtins that must distinguish 'absent' from 'bound to nil' (contains?, get on sets, rename-keys) use comma-ok lookups")
	r.rule("C13.identity", "the builtins that hand one of their arguments back unchanged are exactly the reviewed ones (where the model's result is the argument itself); every other builtin builds its result, so that its kind and contents are decided by the builtin and not by what the caller happened to pass")
	identityRule(w, r, "C13.identity")
	lastWinsRule(w, r, e, "C13.last-wins")
	r.rule("C13.stateless", "the collection builtins are functions of their arguments: neither they nor the functions of package types they use assign a package-level variable")
	noGlobalWritesRule(w, r, "C13.stateless", "a collection builtin", append(w.registeredFuncs(), w.pkgFuncs("types")...))
	pairLoopRule(w, r, e, "C13.pairs")
	stringCharsRule(w, r, "C13.chars")
	r.rule("C13.kind", "the kinds a collection builtin can return (computed as the possible dynamic types of its success results) stay within the kinds confirmed against the README / step files on the reviewed tree: concat, cons, rest, map, take, drop, keys, vals yield lists; vec, subvec, range vectors; assoc/dissoc/conj/update the kind of their argument; a builtin whose result could suddenly be 'whatever was passed' or another kind is reported")
	kindRule(w, r, e, "C13.kind")
	rangeErrorRule(w, r, e, "C13.range-error")
	applyArgsRule(w, r, e, "C13.apply-args")
	nilBranchRule(w, r, e, "C13.nil-branch")
	countArithRule(w, r, e, "C13.count-arith")
	siblingDomainRule(w, r, "C13.sibling-domain")
	seqErrorUsedRule(w, r, e, "C13.seq-errors")
	okFlagUsedRule(w, r, e, "C13.ok-flag")
	domainTableRule(w, r, "C13.domain-table")
	// the type predicates: string? and keyword? split the Go strings between them by one test
	r.include("C13.predicate-", "C06.", "keyword? and string? decide by the same prefix test on the same marker constant the constructor puts in front: every string is exactly one of the two", checkC06, func(rule string) bool {
		return rule == "C06.marker"
	})
	droppedErrorRule(w, r, "C13.errors-surface")
	accessorTotalRule(w, r, e, "C13.accessor-total")
	allArgumentsRule(w, r, e, "C13.all-arguments")
	argLoopCompleteRule(w, r, "C13.argument-loop")
	indexAsGivenRule(w, r, "C13.index-as-given")
	keyContentRule(w, r, "C13.key-content")
	loopErrorRule(w, r, "C13.loop-errors", func(fn *ssa.Function) bool {
		return strings.HasPrefix(fnPkgPath(fn), modPath+"/lib/") || fnPkgPath(fn) == modPath+"/types"
	})
	// "outside their domain (wrong kind ...) they return an error": the kind test is the binder's assignability test
	r.include("C13.binder-", "C20.", "a builtin called with an argument of the wrong kind answers with the binder's type error: arguments reach the Go function exactly as given, nil as nil", checkC20, func(rule string) bool {
		switch rule {
		case "C20.nil-arg", "C20.siblings", "C20.checked-first", "C20.results":
			return true
		}
		return false
	})
	r.rule("C13.seq-accessor", "the sequence accessor the builtins judge 'is this a sequence' by (types.GetSlice) hands out the element slice of a list or of a vector and nothing else: for every other kind of value it fails, which is what makes first, rest, nth, count, concat, take ... return an error outside their domain")
	if gs := w.Fn("types", "GetSlice"); gs == nil {
		r.undecided("C13.seq-accessor", nil, "types.GetSlice", token.NoPos, "function no longer resolves")
	} else {
		cases := e.accessorCases(gs)
		nacc := 0
		for _, cs := range cases {
			if cs.isNil {
				continue
			}
			nacc++
			kind := ""
			for _, f := range cs.facts {
				if f.Kind == "type" && f.T != nil {
					if nt, ok := f.T.(*types.Named); ok {
						kind = nt.Obj().Name()
					}
				}
			}
			r.check((kind == "List" || kind == "Vector") && strings.HasSuffix(cs.path, "."+kind+").Val"), "C13.seq-accessor", gs, "elements handed out for "+nz(kind, "an unknown kind"), gs.Pos(), "the Val slice of a list or vector", "the sequence accessor succeeds for a value that is neither a list nor a vector ("+nz(kind, "kind not established")+", path "+cs.path+"): builtins that must fail on sets, maps or strings now treat them as sequences, with Go's random map order")
		}
		// ... and it never answers "no elements, no error": nil (like a number or a string) is not a sequence
		for _, rt := range errorReturns(gs) {
			ret := rt[0].(*ssa.Return)
			v, _ := rt[1].(ssa.Value)
			ev, _ := rt[2].(ssa.Value)
			if v != nil && isNilConst(v) && ev != nil && isNilConst(ev) {
				nacc++
				r.bad("C13.seq-accessor", gs, "success without elements", ret.Pos(), "the sequence accessor answers (nil, nil) on some path: a value that is neither a list nor a vector (nil, say) passes for the empty sequence, so let, apply, map, cons, concat and nth accept it instead of raising the error their definition prescribes")
			}
		}
		if len(cases) == 0 {
			r.bad("C13.seq-accessor", gs, "shape of the sequence accessor", gs.Pos(), "the accessor no longer returns, per dynamic type of its argument, a field of that argument (it delegates to a conversion that may accept more kinds than lists and vectors): the kinds it succeeds for cannot be established")
		}
		r.floor("C13.seq-accessor", "kinds the sequence accessor succeeds for", nacc+boolInt(len(cases) == 0)*2, 2)
	}
	r.rule("C13.mapiter", "inside a loop ranging over a map, no other map is both read (or deleted from) and written: the result must not depend on Go's random iteration order")
	names := w.registeredNames()
	want := propertyBuiltins()
	if len(want) < 30 {
		r.undecided("C13.vocab", nil, "builtin list of the property", token.NoPos, "could not read the builtin list from properties.jsonl")
	}
	for _, n := range want {
		r.check(names[n] != "", "C13.vocab", nil, "builtin "+n, token.NoPos, "registered by "+names[n], "the builtin '"+n+"' named in the property is not registered")
	}
	// duplicates inside one loader
	type regSite struct {
		name string
		fn   *ssa.Function
		val  string
		pos  token.Pos
	}
	var sites []regSite
	callA, callB := w.Fn("lib/call", "Call"), w.Fn("lib/call", "CallOverrideFN")
	for _, fn := range w.Funcs {
		if isTestFunc(w, fn) {
			continue
		}
		for _, b := range fn.Blocks {
			for _, in := range b.Instrs {
				c, ok := in.(*ssa.Call)
				if !ok {
					continue
				}
				switch c.Call.StaticCallee() {
				case callA:
					for _, g := range w.regFuncsOfArg(c.Call.Args[1], 0) {
						if g.Parent() == nil {
							sites = append(sites, regSite{strings.ReplaceAll(strings.ToLower(g.Name()), "_", "-"), fn, g.String(), c.Pos()})
						}
					}
				case callB:
					if s, ok := constString(c.Call.Args[1]); ok {
						sites = append(sites, regSite{s, fn, describeVal(e, c.Call.Args[2], 0) + w.pos(c.Pos()), c.Pos()})
					} else {
						// a registration table walked by a loop: one registration per row
						for i, row := range tableRows(c.Call.Args[1], c.Call.Args[2]) {
							if s, ok := constString(row[0]); ok {
								sites = append(sites, regSite{s, fn, fmt.Sprintf("%s row %d %s", describeVal(e, row[1], 0), i, w.pos(c.Pos())), c.Pos()})
							}
						}
					}
				}
			}
		}
	}
	seen := map[string]regSite{}
	for _, s := range sites {
		key := s.fn.String() + "|" + s.name
		if prev, dup := seen[key]; dup && prev.val != s.val {
			r.bad("C13.vocab", s.fn, "name "+s.name+" registered twice", s.pos, "a later registration silently shadows the earlier one")
		}
		seen[key] = s
	}
	r.floor("C13.vocab", "registrations", len(sites), 100)
	lispVocab(w, r, names)

	// domain: barrier for every registered function is C04.barrier's business; here: reslice rule over the library
	aud := newAudit(w, e, r, "C13.domain")
	nsl := 0
	regs := w.registeredFuncs()
	reach := w.reachableFrom(regs)
	for _, fn := range w.Funcs {
		if !reach[fn] || isTestFunc(w, fn) || !strings.HasPrefix(fnPkgPath(fn), modPath+"/lib/") {
			continue // builtin implementations; the evaluator's own slices are audited by C04.site
		}
		for _, b := range fn.Blocks {
			for _, in := range b.Instrs {
				sl, ok := in.(*ssa.Slice)
				if !ok || sl.High == nil || !lispContainer(sl.X.Type()) {
					continue
				}
				nsl++
				lt := aud.lenTermOf(sl.X)
				okHi, why := e.proveLE(sl.High, 0, lt, 0, b)
				construct := "slice " + nz(w.srcExpr(sl), describeVal(e, sl, 0))
				r.check(okHi, "C13.domain", fn, construct, sl.Pos(), "upper bound <= len: "+why, "upper bound not proven <= len ("+why+"): the result can contain elements beyond the end of the sequence")
			}
		}
	}
	r.floor("C13.domain", "slice expressions with an explicit upper bound on container storage", nsl, 2)
	// adapters are barriers
	adapters := 0
	extSig := w.ByPath[modPath+"/types"].Types.Scope().Lookup("ExternalCall").Type().Underlying().(*types.Signature)
	for _, f := range w.addrTaken() {
		if fnPkgPath(f) == modPath+"/lib/call" && sameParamsResults(f.Signature, extSig) && !isTestFunc(w, f) {
			adapters++
			_, ok := w.barrierOf(f)
			r.check(ok, "C13.domain", f, "binder adapter", f.Pos(), "starts with a deferred recover handler", "a registered builtin can panic into the host instead of returning an error")
		}
	}
	r.floor("C13.domain", "binder adapters", adapters, 2)
	// maplookup
	for _, name := range []string{"contains?", "rename-keys"} {
		fn := w.builtin(name)
		if fn == nil {
			r.undecided("C13.maplookup", nil, name, token.NoPos, "function no longer resolves")
			continue
		}
		n, okAll := 0, true
		for _, b := range fn.Blocks {
			for _, in := range b.Instrs {
				if lk, ok := in.(*ssa.Lookup); ok {
					if _, isMap := lk.X.Type().Underlying().(*types.Map); isMap {
						n++
						if !lk.CommaOk {
							okAll = false
						}
					}
				}
			}
		}
		r.check(n > 0 && okAll, "C13.maplookup", fn, "lookups", fn.Pos(), "comma-ok", "a presence test is done by comparing the looked-up value: a key bound to nil counts as absent")
	}
	if fn := w.Fn("lib/core", "get"); fn != nil {
		regs := caseRegions(fn, ssa.Value(fn.Params[0]))
		okSet := false
		for b := range regs["types.Set"] {
			for _, in := range b.Instrs {
				if lk, ok := in.(*ssa.Lookup); ok && lk.CommaOk {
					okSet = true
				}
			}
		}
		r.check(okSet, "C13.maplookup", fn, "get on a set", fn.Pos(), "comma-ok membership test", "set membership is not tested with a comma-ok lookup")
	}
	// mapiter
	nm := 0
	for _, fn := range w.Funcs {
		if !reach[fn] || isTestFunc(w, fn) || !libraryPkg(fnPkgPath(fn)) {
			continue
		}
		for _, l := range naturalLoops(fn) {
			blocks := loopBlocks(l)
			isMapRange := false
			for b := range blocks {
				for _, in := range b.Instrs {
					if nx, ok := in.(*ssa.Next); ok && !nx.IsString {
						isMapRange = true
					}
				}
			}
			if !isMapRange {
				continue
			}
			nm++
			written, readOrDel := map[string]token.Pos{}, map[string]token.Pos{}
			for b := range blocks {
				for _, in := range b.Instrs {
					switch x := in.(type) {
					case *ssa.MapUpdate:
						written[e.keyOf(x.Map).String()] = x.Pos()
					case *ssa.Lookup:
						if _, isMap := x.X.Type().Underlying().(*types.Map); isMap {
							readOrDel[e.keyOf(x.X).String()] = x.Pos()
						}
					case *ssa.Call:
						if bi, ok := x.Call.Value.(*ssa.Builtin); ok && bi.Name() == "delete" {
							readOrDel[e.keyOf(x.Call.Args[0]).String()] = x.Pos()
						}
					}
				}
			}
			bad := ""
			for k := range written {
				if _, ok := readOrDel[k]; ok {
					bad = k
				}
			}
			pos := token.NoPos
			for _, in := range l.header.Instrs {
				if in.Pos().IsValid() {
					pos = in.Pos()
				}
			}
			r.check(bad == "", "C13.mapiter", fn, "loop ranging over a map", pos, "no map is both read/deleted and written in the loop", "a map is read (or deleted from) and written inside a loop over a randomly ordered map: the result depends on iteration order")
		}
	}
	r.floor("C13.mapiter", "loops ranging over maps", nm, 8)
	// pure functions: the builtins never write storage they did not allocate (C02's analysis over lib/core)
	r.rule("C13.pure", "the collection builtins are pure functions: every container write in lib/core has a base allocated in the current activation (C02's ownership analysis restricted to the builtins)")
	npure := ruleContainerWrites(w, r, e, "C13.pure", func(fn *ssa.Function) bool { return fnPkgPath(fn) == modPath+"/lib/core" }, false)
	r.floor("C13.pure", "container write sites in lib/core", npure, 30)
	r.Assumptions = append(r.Assumptions, "input/output values of the builtins, result kinds (list vs vector, nil vs empty) and README conformance are not decided; purity is C02's check")
}

// lispVocab: free-symbol lint of the embedded headers
func lispVocab(w *World, r *Report, names map[string]string) {
	files, err := w.lispFiles()
	if err != nil {
		r.undecided("C13.vocab", nil, "lisp headers", token.NoPos, err.Error())
		return
	}
	special := map[string]bool{}
	e := newEngine(w)
	m := newEvalModel(w, e)
	if m.ok {
		for _, s := range m.regionNames {
			special[s] = true
		}
	}
	for _, s := range []string{"catch", "finally", "&", "nil", "true", "false"} {
		special[s] = true
	}
	// names set directly with env.Set(Symbol{Val: "…"}, …) in the library loaders
	direct := map[string]bool{}
	for _, fn := range w.Funcs {
		if isTestFunc(w, fn) || !libraryPkg(fnPkgPath(fn)) {
			continue
		}
		for _, b := range fn.Blocks {
			for _, in := range b.Instrs {
				if ci, ok := in.(ssa.CallInstruction); ok && ci.Common().IsInvoke() && ci.Common().Method.Name() == "Set" && len(ci.Common().Args) == 2 {
					if s := symbolLiteral2(ci.Common().Args[0]); s != "" {
						direct[s] = true
					}
				}
			}
		}
	}
	defs := map[string]bool{}
	for _, f := range files {
		for _, form := range f.forms {
			form.walk(func(s *sx) {
				if h := s.head(); (h == "def" || h == "defmacro") && len(s.items) >= 2 && s.items[1].kind == "sym" {
					defs[s.items[1].text] = true
				}
			})
		}
	}
	nsym := 0
	for _, f := range files {
		var visit func(s *sx, bound map[string]bool, quoted bool)
		bindNames := func(s *sx, into map[string]bool) {
			if s == nil {
				return
			}
			s.walk(func(x *sx) {
				if x.kind == "sym" {
					into[x.text] = true
				}
			})
		}
		visit = func(s *sx, bound map[string]bool, quoted bool) {
			switch s.kind {
			case "sym":
				if quoted {
					return
				}
				nsym++
				if special[s.text] || bound[s.text] || defs[s.text] || names[s.text] != "" || direct[s.text] {
					return
				}
				r.addRaw("C13.vocab", f.path, "symbol "+s.text, fmt.Sprintf("%s:%d", f.path, s.line), "violated", "free symbol that is neither a special form, a local binding, a header definition nor a registered builtin")
			case "list":
				h := s.head()
				switch {
				case quoted && (h == "unquote" || h == "splice-unquote") && len(s.items) == 2:
					visit(s.items[1], bound, false)
					return
				case quoted:
					for _, it := range s.items {
						visit(it, bound, true)
					}
					return
				case h == "quote":
					return
				case h == "quasiquote" && len(s.items) == 2:
					// template: symbols are data that will be evaluated later in another scope; only unquoted parts are checked here,
					// generated symbols are checked against the global vocabulary
					visit(s.items[1], bound, true)
					s.items[1].walk(func(x *sx) {
						if x.kind == "sym" && !special[x.text] && !defs[x.text] && names[x.text] == "" && !direct[x.text] && !bound[x.text] && x.text != "unquote" && x.text != "splice-unquote" {
							// template symbols that are not globally known: must be introduced by the template itself (let/fn bindings)
						}
					})
					return
				case h == "fn" && len(s.items) >= 2:
					nb := copyBound(bound)
					bindNames(s.items[1], nb)
					for _, it := range s.items[2:] {
						visit(it, nb, false)
					}
					return
				case h == "let" && len(s.items) >= 2:
					nb := copyBound(bound)
					bs := s.items[1].items
					for i := 0; i+1 < len(bs); i += 2 {
						// recursive local functions refer to themselves: bind the name before visiting the value
						bindNames(bs[i], nb)
					}
					for i := 0; i+1 < len(bs); i += 2 {
						visit(bs[i+1], nb, false)
					}
					for _, it := range s.items[2:] {
						visit(it, nb, false)
					}
					return
				case h == "catch" && len(s.items) >= 2:
					nb := copyBound(bound)
					bindNames(s.items[1], nb)
					for _, it := range s.items[2:] {
						visit(it, nb, false)
					}
					return
				case (h == "def" || h == "defmacro") && len(s.items) >= 3:
					visit(s.items[2], bound, false)
					return
				}
				for _, it := range s.items {
					visit(it, bound, false)
				}
			case "vector", "map", "set":
				for _, it := range s.items {
					visit(it, bound, quoted)
				}
			}
		}
		for _, form := range f.forms {
			visit(form, map[string]bool{}, false)
		}
	}
	r.addRaw("C13.vocab", "-", "free symbols of the embedded headers", "-", "discharged", fmt.Sprintf("%d symbol references in %d files resolved against %d registered names, %d header definitions and the special forms", nsym, len(files), len(names), len(defs)))
	r.floor("C13.vocab", "symbol references in the embedded headers", nsym, 200)
}

func copyBound(m map[string]bool) map[string]bool {
	o := map[string]bool{}
	for k, v := range m {
		o[k] = v
	}
	return o
}

// symbolLiteral2: Symbol{Val: "x"} passed by value (possibly through a local)
func symbolLiteral2(v ssa.Value) string {
	if s := symbolLiteral(v); s != "" {
		return s
	}
	return ""
}

// ---------------------------------------------------------------------------
// C17

func checkC17(w *World, r *Report) {
	e := newEngine(w)
	r.rule("C17.provenance", "every function that builds a Position from other positions copies each field from the like-named field of its source (Close: begin fields and module from the opener, end fields from the closer); in the tokenizer row fields come from the scanner's Line and column fields from its Column, with no arithmetic on rows")
	r.rule("C17.module", "every Position built by the tokenizer carries the module of the cursor given to Read_str; the ';; $MODULE' header is consulted only when that cursor has no module, and its pattern captures the whole remainder of the header line as written by load-file")
	r.rule("C17.span", "the collection returned by read_list carries open.Close(closer): open is a copy of the first token's cursor, closer the cursor of the token that matched the end; reader-macro forms carry a cursor too")
	getPositionOwnRule(w, r, "C17.own-position")
	r.rule("C17.reposition", "NewLispError sets the cursor of the error it returns to GetPosition(form) on every path: an error a builtin returns with coordinates of its own (read-string, eval) is re-positioned at the failing call form")
	newLispErrorRule(w, r, "C17.reposition")
	builtinRepositionRule(w, r, e, "C17.reposition")
	// rows are counted in the text the caller handed in: the writer of the preamble always ends it with the blank
	// line the reader stops at, so the reader never takes lines of the program for preamble (which shifts every
	// row, and loses a leading ';; $MODULE' line)
	r.include("C17.preamble-", "C15.", "the preamble the writer puts before a program always ends in the blank line its reader stops at: no line of the program is consumed as preamble, so every row is counted from the program's first line", checkC15, func(rule string) bool {
		return rule == "C15.format" || rule == "C15.stop"
	})
	r.rule("C17.carrier", "errors coming back from nested evaluation are not re-positioned on the way up (the innermost position survives): shared with C03.propagate; the lookup error of a symbol is positioned at the symbol")
	// provenance in types/positiontype.go
	np := 0
	for _, fn := range w.pkgFuncs("types") {
		if !isPositionFn(fn) {
			continue
		}
		for _, pw := range positionFieldWrites(w, fn, true) {
			dst := pw.field
			src, from := positionSource(pw.val)
			if src == "" {
				continue // constants, parameters (row/col), fresh copies of the module string
			}
			np++
			ok2 := src == dst
			detail := dst + " <- " + from + "." + src
			// Close: begin fields from the receiver, end fields from the argument
			if fn.Name() == "Close" && ok2 {
				recv := fn.Params[0].Name()
				wantRecv := strings.HasPrefix(dst, "Begin") || dst == "Module"
				ok2 = (from == recv) == wantRecv
			}
			r.check(ok2, "C17.provenance", fn, "field "+dst, pw.pos, detail, "cross-wired position field: "+detail)
		}
	}
	r.floor("C17.provenance", "position fields copied from other positions", np, 12)
	// tokenizer
	tk := w.Fn("reader", "tokenize")
	if tk == nil {
		r.undecided("C17.provenance", nil, "tokenize", token.NoPos, "function no longer resolves")
	} else {
		nt := 0
		// the fields a value is read from (scanner position fields, fields of the cursor parameter), followed through
		// locals and through the parameters of unexported helpers
		var fieldsOf func(v ssa.Value, out map[string]bool, seen map[ssa.Value]bool, depth int)
		fieldsOf = func(v ssa.Value, out map[string]bool, seen map[ssa.Value]bool, depth int) {
			if depth > 10 || seen[v] {
				return
			}
			seen[v] = true
			switch x := v.(type) {
			case *ssa.Field:
				out[fieldName(x.X.Type(), x.Field)] = true
			case *ssa.UnOp:
				if x.Op != token.MUL {
					fieldsOf(x.X, out, seen, depth+1)
					return
				}
				switch ad := x.X.(type) {
				case *ssa.FieldAddr:
					out[fieldName(ad.X.Type(), ad.Field)] = true
				case *ssa.Alloc:
					for _, ref := range *ad.Referrers() {
						if st, ok := ref.(*ssa.Store); ok && st.Addr == ssa.Value(ad) {
							fieldsOf(st.Val, out, seen, depth+1)
						}
					}
				}
			case *ssa.BinOp:
				fieldsOf(x.X, out, seen, depth+1)
				fieldsOf(x.Y, out, seen, depth+1)
			case *ssa.Convert:
				fieldsOf(x.X, out, seen, depth+1)
			case *ssa.Phi:
				for _, op := range x.Edges {
					fieldsOf(op, out, seen, depth+1)
				}
			case *ssa.Parameter:
				if x.Parent() != tk {
					for _, a := range w.callSiteArgs(x) {
						fieldsOf(a, out, seen, depth+1)
					}
				}
			}
		}
		hasArith := func(v ssa.Value) bool {
			_, isB := v.(*ssa.BinOp)
			return isB
		}
		for _, tf := range w.withPkgHelpers(tk) {
			for _, b := range tf.Blocks {
				for _, in := range b.Instrs {
					st, ok := in.(*ssa.Store)
					if !ok {
						continue
					}
					fa, ok := st.Addr.(*ssa.FieldAddr)
					if !ok {
						continue
					}
					if _, name, ok := w.namedStruct(fa.X.Type()); !ok || name != "Position" {
						continue
					}
					dst := fieldName(fa.X.Type(), fa.Field)
					src := map[string]bool{}
					fieldsOf(st.Val, src, map[ssa.Value]bool{}, 0)
					d := describeVal(e, st.Val, 0)
					arith := hasArith(st.Val)
					if p, isP := st.Val.(*ssa.Parameter); isP && p.Parent() != tk {
						for _, a := range w.callSiteArgs(p) {
							if hasArith(a) {
								arith = true
							}
						}
					}
					// the scanner's position is read when the token is built - after the Scan that produced it -
					// not carried over from before that Scan (which has skipped the comments in front of the token)
					if strings.HasSuffix(dst, "Row") || strings.HasSuffix(dst, "Col") {
						carried := false
						seenC := map[ssa.Value]bool{}
						var walkC func(v ssa.Value, depth int)
						walkC = func(v ssa.Value, depth int) {
							if v == nil || seenC[v] || depth > 6 {
								return
							}
							seenC[v] = true
							switch x := v.(type) {
							case *ssa.Phi:
								if len(naturalLoopsWithHeader(tf, x.Block())) > 0 {
									carried = true
								}
								for _, ed := range x.Edges {
									walkC(ed, depth+1)
								}
							case *ssa.Field:
								walkC(x.X, depth+1)
							case *ssa.BinOp:
								walkC(x.X, depth+1)
								walkC(x.Y, depth+1)
							case *ssa.Convert:
								walkC(x.X, depth+1)
							case *ssa.UnOp:
								if fa2, isFA := x.X.(*ssa.FieldAddr); !isFA {
									walkC(x.X, depth+1)
								} else if al, isLocal := fa2.X.(*ssa.Alloc); isLocal {
									// a struct kept in a local (pos := s.Pos()): assigned where it is read, once
									for _, ref := range *al.Referrers() {
										if s2, ok := ref.(*ssa.Store); ok && s2.Addr == ssa.Value(al) && scanBetween(s2, x) {
											carried = true
										}
									}
								}
							}
						}
						walkC(st.Val, 0)
						r.check(!carried, "C17.provenance", tf, "token "+dst+" read at the token", st.Pos(), "the scanner's position after the Scan that produced the token", "the value of "+dst+" ("+d+") is carried round the scanning loop: it was read before the Scan that produced this token, which skips the comments in front of it, so a form that follows comment lines begins - for the positions of errors - on the first of those lines")
					}
					switch {
					case strings.HasSuffix(dst, "Row"):
						nt++
						r.check(src["Line"] && len(src) == 1 && !arith, "C17.provenance", tf, "token "+dst, st.Pos(), "scanner Line, no arithmetic", "row field is "+d+" (read from "+strings.Join(keysOf(src), ",")+")")
					case strings.HasSuffix(dst, "Col"):
						nt++
						r.check(src["Column"] && !src["Line"], "C17.provenance", tf, "token "+dst, st.Pos(), "derived from scanner Column", "column field is "+d+" (read from "+strings.Join(keysOf(src), ",")+")")
					case dst == "Module":
						nt++
						r.check(src["Module"] && len(src) == 1, "C17.module", tf, "token Module", st.Pos(), "the module of the cursor given to Read_str", "module field is "+d)
					}
				}
			}
		}
		r.floor("C17.provenance", "position fields set by the tokenizer", nt, 5)
	}
	// module header consulted only without a module
	rs := w.Fn("reader", "Read_str")
	if rs == nil {
		r.undecided("C17.module", nil, "Read_str", token.NoPos, "function no longer resolves")
	} else {
		okGuard := false
		var pat string
		var rsBlocks []*ssa.BasicBlock
		for _, f := range w.withPkgHelpers(rs) {
			if f == w.Fn("reader", "read_form") || f == w.Fn("reader", "tokenize") {
				continue
			}
			rsBlocks = append(rsBlocks, f.Blocks...)
		}
		for _, b := range rsBlocks {
			for _, in := range b.Instrs {
				c, ok := in.(*ssa.Call)
				if !ok || c.Call.StaticCallee() == nil || c.Call.StaticCallee().Name() != "FindStringSubmatch" {
					continue
				}
				for _, f := range e.holding(b).list() {
					if f.Kind == "nil" && strings.HasSuffix(f.K.String(), "->Module") {
						okGuard = true
					}
				}
				if ld, ok := c.Call.Args[0].(*ssa.UnOp); ok {
					if g, ok := ld.X.(*ssa.Global); ok {
						if p, ok := w.globalRegexPattern(g); ok {
							pat = p
						}
					}
				}
			}
		}
		r.check(okGuard, "C17.module", rs, "module header consulted", rs.Pos(), "only when the caller's cursor has no module", "the ';; $MODULE' header overrides a module given by the caller")
		// the pattern against the writer's template in the load-file header
		files, err := w.lispFiles()
		samples := []string{}
		if err == nil {
			for _, f := range files {
				for _, form := range f.forms {
					form.walk(func(s *sx) {
						if s.head() == "str" {
							for i, it := range s.items {
								if it.kind == "str" && strings.Contains(it.text, "$MODULE") && i+2 < len(s.items) && s.items[i+2].kind == "str" {
									pre := unescapeLisp(it.text)
									post := unescapeLisp(s.items[i+2].text)
									for _, name := range []string{"a.lisp", "/tmp/my program.lisp", "dir with spaces/x y.lisp", "ʞ.lisp"} {
										samples = append(samples, pre+name+post+"\x00"+name)
									}
								}
							}
						}
					})
				}
			}
		}
		re, rerr := regexp.Compile(pat)
		if pat == "" || rerr != nil || len(samples) == 0 {
			r.undecided("C17.module", rs, "module header pattern", rs.Pos(), "pattern or the writer's template (load-file header) not found")
		} else {
			okPat, detail := true, ""
			for _, s := range samples {
				parts := strings.SplitN(s, "\x00", 2)
				mm := re.FindStringSubmatch(parts[0])
				if mm == nil || len(mm) < 2 || mm[1] != parts[1] {
					okPat = false
					detail = fmt.Sprintf("%q -> %q, want %q", parts[0], mm, parts[1])
				}
			}
			r.check(okPat, "C17.module", rs, "module header pattern on load-file's header line", rs.Pos(), "captures the whole file name up to the line end", "the pattern does not recover the module name load-file writes: "+detail)
		}
	}
	// the text is tokenized as given (positions are counted from its first byte)
	if rs := w.Fn("reader", "Read_str"); rs != nil {
		if tk := w.Fn("reader", "tokenize"); tk != nil {
			for _, c := range staticCallsTo(rs, tk) {
				r.check(c.Call.Args[0] == ssa.Value(rs.Params[0]), "C17.provenance", rs, "text handed to the tokenizer", c.Pos(), "the text given to Read_str, unchanged", "the text is altered before it is tokenized: every position is counted in the altered text, not in the caller's")
			}
		}
	}
	// Copy is a deep copy: no pointer field of the result aliases the receiver's
	if cp := w.Fn("types", "(*Position).Copy"); cp != nil {
		okDeep := true
		nRet := 0
		for _, rt := range (&evalModel{}).returns(cp) {
			v := rt[1].(ssa.Value)
			if isNilConst(v) {
				continue
			}
			nRet++
			if c, isCall := v.(*ssa.Call); isCall {
				// built by a constructor of the package that stores its parameters: the pointers handed to it
				if fields := thinPositionCtor(w, c.Call.StaticCallee()); fields != nil {
					for fi, pi := range fields {
						if _, isPtr := structField(types.NewPointer(positionStruct(c.Call.StaticCallee())), fi).Type().Underlying().(*types.Pointer); isPtr && !freshOrNil(c.Call.Args[pi], 0) {
							okDeep = false
						}
					}
					continue
				}
			}
			al, ok := v.(*ssa.Alloc)
			if !ok {
				okDeep = false
				continue
			}
			for _, ref := range *al.Referrers() {
				switch u := ref.(type) {
				case *ssa.Store:
					if u.Addr == ssa.Value(al) {
						okDeep = false // whole-struct copy: pointer fields alias
					}
				case *ssa.FieldAddr:
					if _, isPtr := structField(u.X.Type(), u.Field).Type().Underlying().(*types.Pointer); !isPtr {
						continue
					}
					for _, r2 := range *u.Referrers() {
						if st, ok := r2.(*ssa.Store); ok && st.Addr == ssa.Value(u) {
							if !freshOrNil(st.Val, 0) {
								okDeep = false
							}
						}
					}
				}
			}
		}
		r.check(okDeep && nRet >= 1, "C17.module", cp, "Position.Copy", cp.Pos(), "pointer fields of the copy are fresh allocations", "the copy shares the module-name pointer with the original: a caller reusing its name variable renames the module of positions handed out earlier")
	}
	// span
	rl := w.Fn("reader", "read_list")
	if rl == nil {
		r.undecided("C17.span", nil, "read_list", token.NoPos, "function no longer resolves")
	} else {
		okSpan := false
		for _, b := range rl.Blocks {
			for _, in := range b.Instrs {
				c, ok := in.(*ssa.Call)
				if !ok || c.Call.StaticCallee() == nil || c.Call.StaticCallee().Name() != "Close" {
					continue
				}
				// receiver: Copy() of the first token's cursor; argument: cursor of the loop's current token
				recvOK, argOK := false, false
				if rc, ok := c.Call.Args[0].(*ssa.Call); ok && rc.Call.StaticCallee() != nil && rc.Call.StaticCallee().Name() == "Copy" {
					if fa, ok := rc.Call.Args[0].(*ssa.FieldAddr); ok && fieldName(fa.X.Type(), fa.Field) == "Cursor" {
						if fc, ok := fa.X.(*ssa.Call); ok && w.isTokenNext(fc.Call.StaticCallee()) {
							recvOK = true
						}
					}
				}
				if fa, ok := c.Call.Args[1].(*ssa.FieldAddr); ok && fieldName(fa.X.Type(), fa.Field) == "Cursor" {
					// the loop's current token: what peek returned last (possibly merged over the back edge)
					if isPeekResult(w, fa.X, map[ssa.Value]bool{}) {
						argOK = true
					}
				}
				// stored into the returned List's Cursor
				stored := false
				for _, ref := range *c.Referrers() {
					if st, ok := ref.(*ssa.Store); ok {
						if fa, ok := st.Addr.(*ssa.FieldAddr); ok && fieldName(fa.X.Type(), fa.Field) == "Cursor" {
							stored = true
						}
					}
				}
				okSpan = recvOK && argOK && stored
			}
		}
		r.check(okSpan, "C17.span", rl, "cursor of a collection", rl.Pos(), "first token's cursor closed at the token that matched the closer", "the collection's cursor does not span from its first to its last token")
	}
	macroSpanRule(w, r, "C17.macro-span")
	macroOperandDirectRule(w, r, "C17.macro-operands")
	rethrowLint(w, r, "C17.lisp-rethrow")
	// the rows the scanner counts are the rows of the text the caller passed
	textIntactRule(w, r, "C17.text-intact")
	moduleAsGivenRule(w, r, e, "C17.module")
	fabricatedPositionRule(w, r, "C17.no-made-up-position")
	carrierNotBoundRule(w, r, e, "C17.carrier-not-bound")
	readStringCursorRule(w, r, "C17.read-string-cursor")
	if rf := w.Fn("reader", "read_form"); rf != nil {
		nm, okAll := 0, true
		for _, fn := range w.pkgFuncs("reader") {
			if !isReaderFn(fn) {
				continue
			}
			for _, b := range fn.Blocks {
				for _, in := range b.Instrs {
					al, ok := in.(*ssa.Alloc)
					if !ok || al.Comment != "complit" {
						continue
					}
					if _, name, ok := w.namedStruct(al.Type()); !ok || (name != "List" && name != "Vector") {
						continue
					}
					nm++
					has := false
					for _, ref := range *al.Referrers() {
						if fa, ok := ref.(*ssa.FieldAddr); ok && fieldName(fa.X.Type(), fa.Field) == "Cursor" {
							has = true
						}
					}
					if !has {
						okAll = false
					}
				}
			}
		}
		r.check(nm >= 3 && okAll, "C17.span", rf, "forms built by the reader", rf.Pos(), fmt.Sprintf("all %d list/vector literals carry a cursor", nm), "the reader builds a form without a cursor")
	}
	// carrier
	if m := newEvalModel(w, e); m.ok {
		rulePropagate(m, r)
		for i := range r.Obl {
			if r.Obl[i].Rule == "C03.propagate" {
				r.Obl[i].Rule = "C17.carrier"
			}
		}
		for i := range r.Floors {
			if r.Floors[i].Rule == "C03.propagate" {
				r.Floors[i].Rule = "C17.carrier"
			}
		}
		// symbol lookup error positioned at the symbol
		okSym := false
		for _, b := range m.evalAst.Blocks {
			for _, in := range b.Instrs {
				if c, ok := in.(*ssa.Call); ok && c.Call.StaticCallee() != nil && c.Call.StaticCallee().Name() == "NewLispError" {
					if c.Call.Args[1] == ssa.Value(m.evalAst.Params[1]) {
						okSym = true
					}
				}
			}
		}
		r.check(okSym, "C17.carrier", m.evalAst, "position of a failed lookup", m.evalAst.Pos(), "the symbol being evaluated", "the lookup error is not positioned at the symbol")
		// inside the evaluation loop an error is positioned at the form of the current iteration
		r.rule("C17.current-form", "every error EVAL positions inside its loop takes the position from a value computed in the current iteration (the form being evaluated or a part of it), never from the form EVAL was entered with or from anything computed before the loop: after a tail call that form belongs to the caller")
		ncf := 0
		// EVAL itself, and the function literals of EVAL that are only called, and only inside the loop
		// (a local `fail := func(err error) … { return nil, NewLispError(err, ast) }`): the variables such a
		// literal reads are EVAL's own, read at the time of the call
		type cfSite struct {
			fn     *ssa.Function
			inLoop func(*ssa.BasicBlock) bool
		}
		cfFns := []cfSite{{m.EVAL, func(b *ssa.BasicBlock) bool { return m.header.Dominates(b) }}}
		closureCalls := map[*ssa.Function][]*ssa.Call{}
		for _, b := range m.EVAL.Blocks {
			for _, in := range b.Instrs {
				if c, ok := in.(*ssa.Call); ok {
					if callee := c.Call.StaticCallee(); callee != nil && callee.Parent() == m.EVAL && calledWhereDefined(c) {
						closureCalls[callee] = append(closureCalls[callee], c)
					} else if callee != nil && callee.Parent() == nil && callee.Pkg == m.EVAL.Pkg && !m.isCore(callee) && callee.Object() != nil && !callee.Object().Exported() && len(callee.Blocks) > 0 && !e.escapedFn(callee) {
						// an unexported function of the package called from the loop: its form parameters are what the loop hands it
						only := true
						for _, site := range e.callSites(callee) {
							if site.Parent() != m.EVAL {
								only = false
							}
						}
						if only {
							closureCalls[callee] = append(closureCalls[callee], c)
						}
					}
				}
			}
		}
		for cl, calls := range closureCalls {
			all := true
			for _, c := range calls {
				all = all && m.header.Dominates(c.Block())
			}
			if all {
				cfFns = append(cfFns, cfSite{cl, func(*ssa.BasicBlock) bool { return true }})
			}
		}
		var staleness func(carrier ssa.Value, depth int) string
		staleness = func(carrier ssa.Value, depth int) string {
			stale := ""
			switch x := carrier.(type) {
			case *ssa.Const:
			case *ssa.Parameter:
				if x.Parent() != m.EVAL && depth < 3 {
					// a parameter of a function literal: what its calls pass
					for _, c := range closureCalls[x.Parent()] {
						for i, q := range x.Parent().Params {
							if q == x && i < len(c.Call.Args) {
								if s := staleness(unboxed(c.Call.Args[i]), depth+1); s != "" {
									stale = s
								}
							}
						}
					}
					return stale
				}
				stale = "the form EVAL was entered with"
			case ssa.Instruction:
				if x.Block() != nil && x.Parent() == m.EVAL && !m.header.Dominates(x.Block()) {
					stale = "a value computed before the loop (" + describeVal(e, carrier, 0) + ")"
				}
				if ld, ok := carrier.(*ssa.UnOp); ok && ld.Op == token.MUL {
					// a variable: every assignment must happen inside the loop
					if cell := cellOf(ld.X); cell != nil {
						for _, st := range e.storesTo(cell) {
							if st.Parent() == m.EVAL && !m.header.Dominates(st.Block()) {
								if p, isP := st.Val.(*ssa.Parameter); isP && p == m.astParam {
									continue // the form variable itself is loop-carried
								}
								stale = "a variable assigned before the loop"
							}
						}
					}
				}
			}
			return stale
		}
		for _, site := range cfFns {
			for _, b := range site.fn.Blocks {
				if !site.inLoop(b) {
					continue
				}
				for _, in := range b.Instrs {
					c, ok := in.(*ssa.Call)
					if !ok || c.Call.StaticCallee() == nil || c.Call.StaticCallee().Name() != "NewLispError" || len(c.Call.Args) != 2 {
						continue
					}
					ncf++
					if site.fn != m.EVAL {
						ncf += len(closureCalls[site.fn]) - 1 // one positioned error per call of the literal
					}
					stale := staleness(unboxed(c.Call.Args[1]), 0)
					r.check(stale == "", "C17.current-form", site.fn, "position carrier of an error raised in the loop", c.Pos(), "computed in the current iteration", "the error is positioned at "+stale+": after tail calls that is the caller's form, so the reported line lies in another top-level form")
				}
			}
		}
		r.floor("C17.current-form", "errors positioned inside the evaluation loop", ncf, 10)
		// every symbol the reader returns is built for its own token
		r.rule("C17.symbol-token", "every Symbol value read_atom returns is built on the spot with the Cursor of the token just consumed (never taken from a table of symbols built earlier): a name that occurs several times has one position per occurrence")
		if ra := w.Fn("reader", "read_atom"); ra != nil {
			nsy := 0
			for _, f := range w.withPkgHelpers(ra) {
				for _, rt := range errorReturns(f) {
					ret := rt[0].(*ssa.Return)
					v, _ := rt[1].(ssa.Value)
					if v == nil {
						continue
					}
					u := unboxed(v)
					if _, name, ok := w.namedStruct(u.Type()); !ok || name != "Symbol" {
						continue
					}
					nsy++
					okS := symbolBuiltForToken(w, u, 0)
					r.check(okS, "C17.symbol-token", f, "Symbol returned by the reader", ret.Pos(), "a literal carrying the current token's cursor", "the symbol handed back was not built for this token ("+describeVal(e, u, 0)+"): it carries the position of another occurrence of the name, so 'symbol not found' is reported at the wrong place")
				}
			}
			r.floor("C17.symbol-token", "Symbol results of read_atom", nsy, 1)
		} else {
			r.undecided("C17.symbol-token", nil, "read_atom", token.NoPos, "function no longer resolves")
		}
		r.rule("C17.read-stateless", "reading keeps no state between calls: READ, READWithPreamble, Read_str and the tokenizer assign no package-level variable and store into no package-level cache (an AST embeds the module name and rows of the call that read it)")
		noGlobalWritesRule(w, r, "C17.read-stateless", "the reader", []*ssa.Function{w.Fn("", "READ"), w.Fn("", "READWithPreamble"), w.Fn("reader", "Read_str"), w.Fn("reader", "tokenize"), w.Fn("reader", "read_form")})
		// positions are shared (tokens, forms, errors and the caller's cursor point to them): never written in place
		r.rule("C17.position-immutable", "a Position is only written while it is still private to the activation that allocated it (a literal, new, or the result of Copy / a constructor): nothing writes through a *Position it was handed, so the cursor a caller passes to READ and the positions already attached to forms and errors never change")
		npi := positionWrites(w, r, e, "C17.position-immutable", func(fn *ssa.Function) bool { return runtimePkg(fnPkgPath(fn)) })
		r.floor("C17.position-immutable", "writes to Position fields", npi, 5)
		// forms keep the positions the reader gave them
		r.rule("C17.forms-keep-positions", "outside the reader and the L-notation constructors nothing assigns the Cursor of a form (List, Vector, HashMap, Set, Symbol): the evaluator and the builtins hand forms on with the position they were read at (an operand handed back by a macro keeps its own position)")
		nk := 0
		for _, fn := range w.Funcs {
			p := fnPkgPath(fn)
			if isTestFunc(w, fn) || !runtimePkg(p) || strings.HasSuffix(p, "/reader") || strings.HasSuffix(p, "/lnotation") {
				continue
			}
			for _, b := range fn.Blocks {
				for _, in := range b.Instrs {
					st, ok := in.(*ssa.Store)
					if !ok {
						continue
					}
					fa, ok := st.Addr.(*ssa.FieldAddr)
					if !ok || fieldName(fa.X.Type(), fa.Field) != "Cursor" {
						continue
					}
					_, name, ok := w.namedStruct(derefType(fa.X.Type()))
					if !ok {
						continue
					}
					switch name {
					case "List", "Vector", "HashMap", "Set", "Symbol":
					default:
						continue
					}
					nk++
					// building a new value from scratch (a literal) may set its cursor; changing a copy of an existing form may not
					al, isLit := fa.X.(*ssa.Alloc)
					fresh := isLit
					if isLit && al.Comment != "complit" {
						// a local built field by field (x := T{…}) is a literal too; a local that was assigned a whole
						// existing value is a copy of a form
						for _, ref := range *al.Referrers() {
							if st2, ok := ref.(*ssa.Store); ok && st2.Addr == ssa.Value(al) {
								if _, zero := st2.Val.(*ssa.Const); !zero {
									fresh = false
								}
							}
						}
					}
					r.check(fresh, "C17.forms-keep-positions", fn, "assignment to the Cursor of a "+name, st.Pos(), "only in a literal that builds a new value", "the position of an existing form is overwritten ("+describeVal(e, st.Val, 0)+"): errors raised in it are reported somewhere else than where it was read")
				}
			}
		}
		r.add("C17.forms-keep-positions", nil, "assignments to form cursors outside the reader", token.NoPos, "info", fmt.Sprintf("%d assignment(s)", nk))
	} else {
		r.undecided("C17.carrier", nil, "evaluator model", token.NoPos, m.why)
	}
	r.Assumptions = append(r.Assumptions, "the relation 'lies within the lines of the smallest enclosing top-level form' is about run-time values produced by the third-party scanner and is not decided; positions of macro-expanded code are outside")
}

func unescapeLisp(s string) string {
	return strings.NewReplacer(`\\`, `\`, `\"`, `"`, `\n`, "\n").Replace(s)
}

// positionSource: if v is a load of field F of a Position reached from a parameter, returns (F, parameter name).
func positionSource(v ssa.Value) (string, string) {
	ld, ok := v.(*ssa.UnOp)
	if !ok || ld.Op != token.MUL {
		return "", ""
	}
	fa, ok := ld.X.(*ssa.FieldAddr)
	if !ok {
		return "", ""
	}
	p, ok := fa.X.(*ssa.Parameter)
	if !ok {
		return "", ""
	}
	return fieldName(fa.X.Type(), fa.Field), p.Name()
}

// ---------------------------------------------------------------------------
// C19

func checkC19(w *World, r *Report) {
	e := newEngine(w)
	r.rule("C19.cursor-free", "values loaded from Cursor fields (and results of GetPosition) flow only into Cursor fields of new values, into error construction, into Position methods and printing of positions; they reach no branch condition of the evaluator other than nil guards around those uses")
	r.rule("C19.errtext", "wherever the evaluator formats an existing error into the message of a new error, that error provably carries no position (all error returns of its producer pass a nil carrier): otherwise the message text, and so what catch binds, would differ between positioned and unpositioned deliveries of the same program")
	r.rule("C19.lnotation", "the L-notation constructors return the same Go types the reader builds (Symbol, List, Vector, HashMap, Set)")
	r.rule("C19.wrap", "wherever lisp code splices file text into a form to be read (load-file in the header and in bootstrap.lisp) the literal that follows the file text begins with a line break, so a final comment without newline cannot swallow the closing text; the sibling definitions agree")
	r.rule("C19.repl", "REPL is READ, then EVAL, then PRINT with the same scope and context and nothing else")
	// typed at the prompt over several lines a program is the text it would be in a file: the lines reach the
	// reader joined by the line breaks they were typed with (a comment ends at its line break)
	r.rule("C19.repl-lines", "the interactive REPL joins the lines it has accumulated with a line break before it hands them to the reader: a comment inside a form typed over several lines ends where it ends in a file")
	replJoinRule(w, r, "C19.repl-lines")
	// an error that comes out of a future is the error its body raised: nothing formats it (with the module, rows
	// and columns its text carries) into a new error value that catch would bind
	r.include("C19.future-", "C10.", "what a failed future delivers is the error its body came to, not a new error made from that error's positioned text", checkC10, func(rule string) bool {
		return rule == "C10.outcome-own" || rule == "C10.redeposit"
	})
	// REPL prints the value of every form it is fed, the wrapped routes print nothing in between: printing a value
	// changes nothing (a printer that takes a delivered outcome out of a future makes the routes differ)
	printPureRule(w, r, "C19.print-pure")
	// whether a builtin's write lands in storage other values share depends on how the value was made (a list read
	// from text has spare capacity, one built with L-notation has none): no builtin writes into a value it was handed
	r.include("C19.values-", "C02.", "no builtin writes into a value it was handed: what a program computes does not depend on how much spare capacity the reader or a constructor left in its literals", checkC02, func(rule string) bool {
		return rule == "C02.write"
	})
	// every delivery route runs the program in the process as it is: no route changes the working directory (file
	// names in the program would then mean other files on that route)
	processStateRule(w, r, "C19.process-cwd")
	// the wrappers of the delivery routes add levels of nesting ((do ...), load-file's (do ... nil)): a reader that
	// counts levels against a limit reads a program on one route and refuses it on another
	readerLimitRule(w, r, "C19.no-limit")
	// an AST printed and read again (AddPreamble, a program re-read from its printed form) is the same AST: the
	// printer's form of a keyword is the one text the reader turns back into that keyword
	r.include("C19.reprint-", "C06.", "a program printed and read again is the same program: a keyword is printed as the keyword character followed by its name with exactly the leading marker stripped, and the marker is one constant everywhere", checkC06, func(rule string) bool {
		return rule == "C06.brackets" || rule == "C06.marker" || rule == "C06.keyword"
	})
	r.rule("C19.nil-cursor", "every dereference of an optional position pointer in the evaluator, lisperror and printer is nil-guarded (audited by C04.site / C05.site with Cursor, cursor, Module and outer treated as may-nil fields)")
	// "wrapped in a single do" and "loaded with load-file" (which reads (do <file> nil)) mean what the forms mean
	// one by one only if do evaluates every form, in order, whatever kind of form it is
	r.include("C19.do-", "C01.", "forms fed one by one, wrapped in a single do, or loaded from a file are the same program: do evaluates each of its forms once, in order", checkC01, func(rule string) bool {
		return rule == "C01.body" || rule == "C01.order" || rule == "C01.once"
	})
	// what a handler is handed does not depend on positions: the text of a lisp error names module, rows and
	// columns, its value does not; and an error that crosses a module boundary (a loaded file) is re-positioned,
	// not wrapped once more, so the value the program threw is the value the program catches on every route
	r.include("C19.caught-", "C03.", "catch binds the thrown value itself on every delivery route: never the positioned text of a lisp error, and never a wrapper whose presence depends on which module the error came from", checkC03, func(rule string) bool {
		return rule == "C03.object" || rule == "C03.lisp-handlers"
	})
	// a program sent with its placeholder values is the program: the writer ends the preamble with the blank line
	// the reader stops at, so a first line of the source that looks like a preamble line stays source
	r.include("C19.preamble-", "C15.", "the preamble the writer puts before a program always ends in the blank line its reader stops at: no line of the program is taken for a placeholder value", checkC15, func(rule string) bool {
		return rule == "C15.format"
	})
	// what a program means does not depend on which environment of the process was prepared last
	r.include("C19.process-", "C11.", "eval and load-file evaluate in the environment they were registered in: no package-level variable stands in for it", checkC11, func(rule string) bool {
		return rule == "C11.package-state" || rule == "C11.globals"
	})
	// the forms Go code builds are the forms the reader would have built: made of storage of their own
	lnotationTotalRule(w, r, "C19.lnotation-total")
	lnotationVerbatimRule(w, r, e, "C19.lnotation-verbatim")
	nilBlindRule(w, r, e, "C19.nil-blind")
	r.rule("C19.lnotation-fresh", "the L-notation constructors write only into storage they allocated: a form built from a slice the Go caller keeps (or spreads into several forms) does not change under the caller's hands, nor one form through another (shared with C02.write)")
	nlf := ruleContainerWrites(w, r, e, "C19.lnotation-fresh", func(fn *ssa.Function) bool { return fnPkgPath(fn) == modPath+"/lnotation" }, false)
	r.add("C19.lnotation-fresh", nil, "container writes in package lnotation", token.NoPos, "ok", fmt.Sprintf("%d write sites examined", nlf))
	// cursor-free
	a := newAudit(w, e, r, "C19.cursor-free")
	a.computeClosure(evalEntries(w), func(f *ssa.Function) bool {
		p := fnPkgPath(f)
		return p == modPath+"/reader" || p == modPath+"/printer"
	})
	nc := 0
	for _, fn := range a.closure {
		if fnPkgPath(fn) == modPath+"/lisperror" || fnPkgPath(fn) == modPath+"/types" && isPositionFn(fn) {
			continue // the position machinery itself
		}
		for _, b := range fn.Blocks {
			for _, in := range b.Instrs {
				var v ssa.Value
				switch x := in.(type) {
				case *ssa.Field:
					if strings.EqualFold(fieldName(x.X.Type(), x.Field), "cursor") {
						v = x
					}
				case *ssa.UnOp:
					if fa, ok := x.X.(*ssa.FieldAddr); ok && x.Op == token.MUL && strings.EqualFold(fieldName(fa.X.Type(), fa.Field), "cursor") {
						v = x
					}
				case *ssa.Call:
					if x.Call.StaticCallee() != nil && x.Call.StaticCallee().Name() == "GetPosition" {
						v = x
					}
				}
				if v == nil {
					continue
				}
				nc++
				okUse, bad := true, ""
				for _, ref := range *v.Referrers() {
					switch u := ref.(type) {
					case *ssa.Store:
						if fa, ok := u.Addr.(*ssa.FieldAddr); !ok || !strings.EqualFold(fieldName(fa.X.Type(), fa.Field), "cursor") {
							okUse, bad = false, "stored somewhere other than a Cursor field"
						}
					case *ssa.DebugRef:
					case ssa.CallInstruction:
						// allowed callees: lisperror.*, Position methods, fmt
						callee := u.Common().StaticCallee()
						okc := callee != nil && (fnPkgPath(callee) == modPath+"/lisperror" || (callee.Pkg != nil && callee.Pkg.Pkg.Path() == "fmt") || (callee.Signature.Recv() != nil && strings.Contains(callee.Signature.Recv().Type().String(), "Position")))
						if !okc {
							okUse, bad = false, "passed to "+describeCallInstr(e, u)
						}
					case *ssa.MakeInterface, *ssa.ChangeInterface:
						// boxed to be passed as a carrier: follow one step
						for _, r2 := range *u.(ssa.Value).Referrers() {
							if ci, ok := r2.(ssa.CallInstruction); ok {
								callee := ci.Common().StaticCallee()
								if callee == nil || !(fnPkgPath(callee) == modPath+"/lisperror" || (callee.Pkg != nil && callee.Pkg.Pkg.Path() == "fmt")) {
									okUse, bad = false, "passed to "+describeCallInstr(e, ci)
								}
							} else if _, isStore := r2.(*ssa.Store); isStore {
								// varargs array for fmt
							} else {
								okUse, bad = false, "flows into another value"
							}
						}
					case *ssa.BinOp:
						if !(isNilConst(u.X) || isNilConst(u.Y)) {
							okUse, bad = false, "compared with a non-nil value"
						}
					default:
						okUse, bad = false, fmt.Sprintf("used by %T", ref)
					}
				}
				r.check(okUse, "C19.cursor-free", fn, "position value "+describeVal(e, v, 0), instrPos(in), "flows only into Cursor fields, error construction and position printing", "a source position influences evaluation: "+bad)
			}
		}
	}
	r.floor("C19.cursor-free", "position values read in the evaluator closure", nc, 2)
	// errtext
	ne := 0
	for _, fn := range a.closure {
		if !strings.HasPrefix(fnPkgPath(fn), modPath) || fnPkgPath(fn) == modPath+"/lisperror" || fnPkgPath(fn) == modPath+"/printer" {
			continue
		}
		for _, b := range fn.Blocks {
			for _, in := range b.Instrs {
				c, ok := in.(*ssa.Call)
				if !ok {
					continue
				}
				callee := c.Call.StaticCallee()
				if callee == nil || callee.Pkg == nil || callee.Pkg.Pkg.Path() != "fmt" || (callee.Name() != "Errorf" && callee.Name() != "Sprintf") {
					continue
				}
				format, _ := constString(c.Call.Args[0])
				verbs := formatVerbs(format)
				for i, arg := range sliceLiteralElems(c.Call.Args[1]) {
					var errVal ssa.Value
					if mi, ok := arg.(*ssa.MakeInterface); ok && types.Identical(mi.X.Type(), types.Universe.Lookup("error").Type()) {
						errVal = mi.X
					}
					if ci, ok := arg.(*ssa.ChangeInterface); ok && types.Identical(ci.X.Type(), types.Universe.Lookup("error").Type()) {
						errVal = ci.X
					}
					if errVal == nil || (i < len(verbs) && verbs[i] == 'T') {
						continue
					}
					ne++
					okFree, why := positionFree(w, e, errVal, 0)
					r.check(okFree, "C19.errtext", fn, fmt.Sprintf("error formatted into %q", format), c.Pos(), why, "the formatted error may carry a position ("+why+"): its text, which becomes part of the new message, differs between deliveries with and without positions")
				}
			}
		}
	}
	r.floor("C19.errtext", "errors formatted into new messages in the evaluator", ne, 1)
	// lnotation
	wantT := map[string]string{"S": "Symbol", "L": "List", "LS": "List", "V": "Vector", "HM": "HashMap", "SET": "Set"}
	for name, t := range wantT {
		obj := w.ByPath[modPath+"/lnotation"].Types.Scope().Lookup(name)
		okT := false
		if f, ok := obj.(*types.Func); ok {
			res := f.Type().(*types.Signature).Results()
			if res.Len() == 1 {
				if n, ok := res.At(0).Type().(*types.Named); ok && n.Obj().Name() == t && n.Obj().Pkg().Path() == modPath+"/types" {
					okT = true
				}
			}
		}
		r.check(okT, "C19.lnotation", nil, "lnotation."+name, token.NoPos, "returns types."+t, "does not return the reader's type types."+t)
	}
	// wrap
	files, err := w.lispFiles()
	if err != nil {
		r.undecided("C19.wrap", nil, "lisp headers", token.NoPos, err.Error())
	} else {
		nw := 0
		var closings []string
		for _, f := range files {
			for _, form := range f.forms {
				form.walk(func(s *sx) {
					if s.head() != "str" {
						return
					}
					for i, it := range s.items {
						if it.head() == "slurp" {
							nw++
							okW := i+1 < len(s.items) && s.items[i+1].kind == "str" && strings.HasPrefix(s.items[i+1].text, `\n`)
							lit := ""
							if i+1 < len(s.items) {
								lit = s.items[i+1].text
							}
							closings = append(closings, lit)
							status, detail := "discharged", "the text after the file contents starts with a line break"
							if !okW {
								status, detail = "violated", fmt.Sprintf("the literal after the file text is %q: a trailing comment without a final newline swallows it", lit)
							}
							r.addRaw("C19.wrap", f.path, "text spliced after (slurp f)", fmt.Sprintf("%s:%d", f.path, s.line), status, detail)
						}
					}
				})
			}
		}
		r.floor("C19.wrap", "places where file text is spliced into a form", nw, 2)
		agree := true
		for _, c := range closings {
			if c != closings[0] {
				agree = false
			}
		}
		if len(closings) > 0 {
			st := "discharged"
			if !agree {
				st = "violated"
			}
			r.addRaw("C19.wrap", "-", "sibling load-file definitions agree", "-", st, fmt.Sprintf("closing literals: %q", closings))
		}
	}
	// repl
	if repl := w.Fn("", "REPL"); repl != nil {
		// the module calls REPL makes, in order, looking through unexported helpers of the package
		// (their parameters stand for the arguments they are called with)
		var seq []string
		okArgs := true
		var paramOfType = func(pred func(types.Type) bool) ssa.Value {
			for _, p := range repl.Params {
				if pred(p.Type()) {
					return p
				}
			}
			return nil
		}
		isEnvT := func(t types.Type) bool { return strings.HasSuffix(t.String(), "types.EnvType") }
		isStr := func(t types.Type) bool { b, ok := t.Underlying().(*types.Basic); return ok && b.Kind() == types.String }
		pCtx, pEnv, pSrc := paramOfType(isContext), paramOfType(isEnvT), paramOfType(isStr)
		var readRes, evalRes ssa.Value
		argOfType := func(args []ssa.Value, pred func(types.Type) bool) ssa.Value {
			for _, a := range args {
				if pred(a.Type()) {
					return a
				}
			}
			return nil
		}
		var walk func(fn *ssa.Function, subst map[ssa.Value]ssa.Value, depth int)
		walk = func(fn *ssa.Function, subst map[ssa.Value]ssa.Value, depth int) {
			res := func(v ssa.Value) ssa.Value {
				if s, ok := subst[v]; ok {
					return s
				}
				return v
			}
			for _, b := range fn.Blocks {
				for _, in := range b.Instrs {
					// a method of the scope called by REPL itself: a binding made or changed by the delivery route
					if ci, isCI := in.(ssa.CallInstruction); isCI && ci.Common().IsInvoke() && strings.HasSuffix(ci.Common().Value.Type().String(), "types.EnvType") {
						seq = append(seq, "scope."+ci.Common().Method.Name())
						continue
					}
					c, ok := in.(*ssa.Call)
					if !ok || c.Call.StaticCallee() == nil || !strings.HasPrefix(fnPkgPath(c.Call.StaticCallee()), modPath) {
						continue
					}
					callee := c.Call.StaticCallee()
					var args []ssa.Value
					for _, a := range c.Call.Args {
						args = append(args, res(a))
					}
					switch callee.Name() {
					case "READ":
						okArgs = okArgs && argOfType(args, isStr) == pSrc && argOfType(args, isEnvT) == pEnv && pSrc != nil && pEnv != nil
						readRes = extractOf(c, 0)
					case "EVAL":
						okArgs = okArgs && argOfType(args, isContext) == pCtx && argOfType(args, isEnvT) == pEnv && pCtx != nil
						okArgs = okArgs && readRes != nil && argOfType(args, isMalType) == readRes
						evalRes = extractOf(c, 0)
					case "PRINT":
						okArgs = okArgs && evalRes != nil && len(args) == 1 && args[0] == evalRes
					default:
						if !callee.Object().Exported() && callee.Pkg == repl.Pkg && depth < 3 {
							inner := map[ssa.Value]ssa.Value{}
							for i, p := range callee.Params {
								if i < len(args) {
									inner[p] = args[i]
								}
							}
							walk(callee, inner, depth+1)
							continue
						}
					}
					seq = append(seq, callee.Name())
				}
			}
		}
		walk(repl, map[ssa.Value]ssa.Value{}, 0)
		r.check(strings.Join(seq, ",") == "READ,EVAL,PRINT" && okArgs, "C19.repl", repl, "REPL", repl.Pos(), "READ, EVAL, PRINT with the caller's scope and context", "REPL is not READ/EVAL/PRINT on the same scope and context: "+strings.Join(seq, ","))
	} else {
		r.undecided("C19.repl", nil, "REPL", token.NoPos, "function no longer resolves")
	}
	r.rule("C19.route-context", "whatever route a program takes (eval, load-file, REPL, a builtin calling back into the evaluator) it runs under the context of the caller: every context handed to an evaluating call is the function's own or a child of it (shared with C07.derive), so deadlines and cancellation act the same on every delivery route")
	if m19 := newEvalModel(w, e); m19.ok {
		nrc := ctxDeriveRule(w, r, e, m19, "C19.route-context", nil)
		r.floor("C19.route-context", "contexts handed to evaluating calls", nrc, 15)
	} else {
		r.undecided("C19.route-context", nil, "evaluator model", token.NoPos, m19.why)
	}
	textIntactRule(w, r, "C19.text-intact")
	formVerbRule(w, r, "C19.form-verbs")
	positionBlindRule(w, r, "C19.position-blind")
	slurpVerbatimRule(w, r, "C19.slurp")
	r.add("C19.nil-cursor", nil, "nil guards of optional positions", token.NoPos, "info", "decided by the may-panic audits of C04 and C05 (optional pointer fields are may-nil there)")
	printerRules(w, r, "C19.one-escaper")
	goQuotedSourceRule(w, r, "C19.go-quoted")
	r.rule("C19.print-reread", "the re-read-from-printed-form route: the printer's escape table and the reader's un-escape table are inverse (shared with C06.escape)")
	escapeAgreement(w, r, e, "C19.print-reread")
	r.rule("C19.whitespace", "the tokenizer leaves the scanner's white-space set alone, or sets one that contains space, tab, LF and CR (text with CRLF line endings means the same)")
	if tk := w.Fn("reader", "tokenize"); tk != nil {
		found := false
		for _, b := range tk.Blocks {
			for _, in := range b.Instrs {
				st, ok := in.(*ssa.Store)
				if !ok {
					continue
				}
				fa, ok := st.Addr.(*ssa.FieldAddr)
				if !ok || fieldName(fa.X.Type(), fa.Field) != "Whitespace" {
					continue
				}
				found = true
				okMask := false
				if c, ok := st.Val.(*ssa.Const); ok && c.Value != nil {
					if v, ok := constant.Uint64Val(c.Value); ok {
						need := uint64(1)<<' ' | 1<<'\t' | 1<<'\n' | 1<<'\r'
						okMask = v&need == need
					}
				}
				r.check(okMask, "C19.whitespace", tk, "scanner white-space set", st.Pos(), "contains space, tab, LF, CR", "the white-space set given to the scanner lacks one of space, tab, LF, CR: the same program with other line endings reads differently")
			}
		}
		if !found {
			r.ok("C19.whitespace", tk, "scanner white-space set", tk.Pos(), "the scanner's default is used")
		}
	} else {
		r.undecided("C19.whitespace", nil, "tokenize", token.NoPos, "function no longer resolves")
	}
	r.Assumptions = append(r.Assumptions, "equality of results across delivery routes and CRLF/comment handling inside the scanner are not decided")
}

// positionFree: the error value cannot carry a position: it is a plain error (errors.New / fmt.Errorf), or
// NewLispError(x, nil), or the error result of a module function all of whose error returns are position-free.
func positionFree(w *World, e *Engine, v ssa.Value, depth int) (bool, string) {
	if depth > 5 {
		return false, "too deep"
	}
	switch x := v.(type) {
	case *ssa.Const:
		return true, "nil"
	case *ssa.Call:
		callee := x.Call.StaticCallee()
		if callee != nil && callee.Pkg != nil && (callee.Pkg.Pkg.Path() == "errors" || callee.Pkg.Pkg.Path() == "fmt") {
			return true, "plain error"
		}
		if callee != nil && hasErrorResult(callee) == 0 {
			return positionFreeResult(w, e, callee, 0, depth)
		}
	case *ssa.MakeInterface:
		if c, ok := x.X.(*ssa.Call); ok && c.Call.StaticCallee() != nil && c.Call.StaticCallee().Name() == "NewLispError" {
			if isNilConst(c.Call.Args[1]) {
				return true, "NewLispError(…, nil)"
			}
			return false, "NewLispError with a position carrier " + describeVal(e, c.Call.Args[1], 0)
		}
		return true, "plain error value"
	case *ssa.Extract:
		if c, ok := x.Tuple.(*ssa.Call); ok {
			if callee := c.Call.StaticCallee(); callee != nil {
				return positionFreeResult(w, e, callee, x.Index, depth)
			}
			return false, "error of a dynamic call"
		}
	case *ssa.Parameter:
		// the parameter of an unexported function stands for the arguments at its call sites
		if fn := x.Parent(); fn.Parent() == nil && fn.Object() != nil && !fn.Object().Exported() {
			if args := w.callSiteArgs(x); len(args) > 0 {
				for _, a := range args {
					if ok, why := positionFree(w, e, a, depth+1); !ok {
						return false, why
					}
				}
				return true, "every argument passed for the parameter is position-free"
			}
		}
	case *ssa.Phi:
		for _, op := range x.Edges {
			if ok, why := positionFree(w, e, op, depth+1); !ok {
				return false, why
			}
		}
		return true, "every incoming error is position-free"
	case *ssa.UnOp:
		if cell := cellOf(x.X); cell != nil {
			for _, st := range e.storesTo(cell) {
				if ok, why := positionFree(w, e, st.Val, depth+1); !ok {
					return false, why
				}
			}
			return true, "every stored error is position-free"
		}
	}
	return false, "error of unknown origin"
}

func positionFreeResult(w *World, e *Engine, fn *ssa.Function, idx int, depth int) (bool, string) {
	if fn.Blocks == nil || !strings.HasPrefix(fnPkgPath(fn), modPath) {
		return true, "error of an external function"
	}
	for _, rt := range (&evalModel{}).returns(fn) {
		ret := rt[0].(*ssa.Return)
		if idx >= len(ret.Results) {
			continue
		}
		v := resolveRet(ret.Results[idx])
		if ok, why := positionFree(w, e, v, depth+1); !ok {
			return false, fn.Name() + " can return " + why
		}
	}
	return true, "every error return of " + fn.Name() + " is position-free"
}

// ---------------------------------------------------------------------------
// C20

func checkC20(w *World, r *Report) {
	e := newEngine(w)
	r.rule("C20.siblings", "the six adapter closures agree with the table: context parameter <=> _args_ctx with the adapter's own context (else _args); NumOut 0/1/2 <=> _nil_nil/_nil_error/_result_error; each starts with defer _recover on its own named error result")
	r.rule("C20.verbatim", "each adapter closure of the binder returns exactly the two results of its result adapter (the bound function's value and error): nothing between the reflective call and the caller replaces a value by an error or an error by a value")
	r.rule("C20.units", "bounds compared by the context-taking builder include the context parameter: when bounds are given explicitly (counts of lisp arguments) for a context-taking function, both of them are incremented (the maximum unless unlimited) before the adapters capture them")
	r.rule("C20.checked-first", "in each argument builder the count check dominates the construction of the argument vector, so the function is invoked iff the count is in bounds")
	r.rule("C20.results", "_nil_error returns the error result iff it is non-nil; _result_error returns the first result and the error iff non-nil; _nil_nil returns nil, nil")
	r.rule("C20.panic", "_recover handles every recovered value and keeps the original reachable (NewGoError wraps with %w)")
	r.rule("C20.name", "the registered name is the override literal or the runtime function name lower-cased with _ replaced by -, and every slice on the result of strings.LastIndex in the registration code is guarded against -1")
	r.rule("C20.bounds-decl", "every call.Call / CallOverrideFN site with explicit bounds passes a variadic function and min <= max")
	callFn := w.Fn("lib/call", "call")
	if callFn == nil {
		r.undecided("C20.siblings", nil, "lib/call.call", token.NoPos, "function no longer resolves")
		return
	}
	c20EntryRules(w, r, e, callFn)
	recoverDirectRule(w, r, "C20.recover-direct")
	r.rule("C20.error-result", "the error a bound function returns is the error the caller gets: NewLispError, which positions it at the call form, returns the very object it was given (a LispError as is, anything else stored whole), never something dug out of its chain (shared with C03.object)")
	newLispErrorRule(w, r, "C20.error-result")
	builtinErrorMappedRule(w, r, "C20.mapped")
	// "a leading context parameter is filled with the evaluation's context": also where the evaluation goes on in
	// a future - its body (and every context-first function called there) runs under a child of the creator's context
	r.include("C20.future-", "C10.", "the body of a future runs under a child of the context of the evaluation that created it: context-first Go functions called there see that evaluation's deadline and cancellation", checkC10, func(rule string) bool {
		return rule == "C10.ctx" || rule == "C10.body-context"
	})
	// "a panic inside it becomes a catchable error that still wraps the original": the chain is walked through
	// LispError.Unwrap, one link at a time
	unwrapRule(w, r, nil, e, "C20.error-result")
	constFormatRule(w, r, "C20.const-format")
	argsCtx, args := w.Fn("lib/call", "_args_ctx"), w.Fn("lib/call", "_args")
	nilnil, nilerr, reserr := w.Fn("lib/call", "_nil_nil"), w.Fn("lib/call", "_nil_error"), w.Fn("lib/call", "_result_error")
	recov := w.Fn("lib/call", "_recover")
	if argsCtx == nil || args == nil || nilnil == nil || nilerr == nil || reserr == nil || recov == nil {
		r.undecided("C20.siblings", nil, "binder helpers", token.NoPos, "a helper of the binder no longer resolves")
		return
	}
	exactArgsRule(w, r, e, "C20.exact-args", callFn, []*ssa.Function{args, argsCtx})
	applyVerbatimRule(w, r, e, "C20.apply-verbatim")
	// "invoked with exactly the arguments of the call": a function reached through the apply builtin is one too
	applyArgsRule(w, r, e, "C20.apply-args")
	r.rule("C20.chain-kept", "wherever the library puts an error into a new message it does so with %w: the error a bound function returned, or the one made from its panic, stays reachable with errors.Is / errors.As through every caller of bound functions (evaluator, apply, the reader's constructors)")
	ruleWrapAs(w, r, "C20.chain-kept")
	adapterFor := map[int64]*ssa.Function{0: nilnil, 1: nilerr, 2: reserr}
	// regions: NumOut() == k ; contextRequired true/false
	var numOut ssa.Value
	outReg := map[int64]map[*ssa.BasicBlock]bool{}
	for _, b := range callFn.Blocks {
		iff := blockIf(b)
		if iff == nil {
			continue
		}
		bo, ok := iff.Cond.(*ssa.BinOp)
		if !ok || bo.Op != token.EQL {
			continue
		}
		c, ok := bo.X.(*ssa.Call)
		if !ok || !c.Call.IsInvoke() || c.Call.Method.Name() != "NumOut" {
			continue
		}
		numOut = c
		k, ok := bo.Y.(*ssa.Const)
		if !ok || k.Value == nil {
			continue
		}
		reg := map[*ssa.BasicBlock]bool{}
		for _, cb := range callFn.Blocks {
			if edgeDominates(b, 0, cb) {
				reg[cb] = true
			}
		}
		outReg[k.Int64()] = reg
	}
	_ = numOut
	nAd := 0
	extSigT := w.ByPath[modPath+"/types"].Types.Scope().Lookup("ExternalCall")
	regionOfBlock := func(b *ssa.BasicBlock) (int64, bool) {
		for k, reg := range outReg {
			if reg[b] {
				return k, true
			}
		}
		return 0, false
	}
	// the adapters are made by the registration routine or by a function of the package it calls for that
	// (_ext_call(name, fn, contextRequired, min, max, adapt)): the parameters of such a function stand for the
	// arguments at its call sites
	var adapters []*ssa.Function
	viaParam := map[*ssa.Call]bool{} // calls of the result adapter through a parameter of the host, checked below
	for _, host := range w.withPkgHelpers(callFn) {
		for _, b := range host.Blocks {
			for _, in := range b.Instrs {
				mc, ok := in.(*ssa.MakeClosure)
				if !ok {
					continue
				}
				ad := mc.Fn.(*ssa.Function)
				if extSigT == nil || !sameParamsResults(ad.Signature, extSigT.Type().Underlying().(*types.Signature)) {
					continue
				}
				nAd++
				adapters = append(adapters, ad)
				// context branch: which edge of the context test dominates the creation of the adapter
				ctxBranch := -1
				for _, d := range host.Blocks {
					if iff := blockIf(d); iff != nil {
						for i := 0; i < 2; i++ {
							if edgeDominates(d, i, b) && derivesFromImplements(e, iff.Cond, 0) {
								ctxBranch = i
							}
						}
					}
				}
				usesCtx := callsFn(ad, argsCtx)
				usesPlain := callsFn(ad, args)
				okBuilder := (ctxBranch == 0 && usesCtx && !usesPlain) || (ctxBranch == 1 && usesPlain && !usesCtx)
				if !usesCtx && !usesPlain {
					// the choice of builder lives in a function literal the adapter calls (box := func(ctx, args) ...):
					// there the context builder is called on the context branch only, the plain one on the other, and
					// the context builder gets the literal's own context parameter, which the adapter fills with its own
					for _, ab := range ad.Blocks {
						for _, ain := range ab.Instrs {
							bc, ok := ain.(*ssa.Call)
							if !ok || bc.Call.StaticCallee() != nil {
								continue
							}
							g := closureCallee(e, &bc.Call)
							if g == nil || g.Parent() != callFn || !(callsFn(g, argsCtx) || callsFn(g, args)) {
								continue
							}
							branchOf := func(c *ssa.Call) int {
								br := -1
								for _, d := range g.Blocks {
									if iff := blockIf(d); iff != nil {
										for i := 0; i < 2; i++ {
											if edgeDominates(d, i, c.Block()) && derivesFromImplements(e, iff.Cond, 0) {
												br = i
											}
										}
									}
								}
								return br
							}
							okB := true
							for _, c := range staticCallsTo(g, argsCtx) {
								ctxOK := false
								for pi, gp := range g.Params {
									if c.Call.Args[0] == ssa.Value(gp) && pi < len(bc.Call.Args) && bc.Call.Args[pi] == ssa.Value(ad.Params[0]) {
										ctxOK = true
									}
								}
								if branchOf(c) != 0 || !ctxOK {
									okB = false
								}
							}
							for _, c := range staticCallsTo(g, args) {
								if branchOf(c) != 1 {
									okB = false
								}
							}
							okBuilder = okB && callsFn(g, argsCtx) && callsFn(g, args)
						}
					}
				}
				r.check(okBuilder, "C20.siblings", ad, "argument builder", ad.Pos(), "matches the context test", "the adapter built on the "+[]string{"context", "no-context", "?"}[map[int]int{0: 0, 1: 1, -1: 2}[ctxBranch]]+" branch uses the wrong argument builder")
				if usesCtx {
					for _, c := range staticCallsTo(ad, argsCtx) {
						r.check(c.Call.Args[0] == ssa.Value(ad.Params[0]), "C20.siblings", ad, "context handed to the builder", c.Pos(), "the adapter's own context parameter", "the builder does not receive the evaluation's context")
					}
				}
				// result adapter: called directly (then the adapter is created in the region of the matching result
				// count) or through a captured variable (then every assignment of that variable happens in the region
				// of the matching result count)
				okRes, detail := true, ""
				direct := 0
				for kk, f := range adapterFor {
					if callsFn(ad, f) {
						direct++
						if k, in := regionOfBlock(b); !in || k != kk {
							okRes, detail = false, f.Name()+" used outside the region of its result count"
						}
					}
				}
				if direct == 0 {
					found := false
					for _, ab := range ad.Blocks {
						for _, ain := range ab.Instrs {
							c, ok := ain.(*ssa.Call)
							if !ok || c.Call.StaticCallee() != nil || c.Call.IsInvoke() {
								continue
							}
							// ... or through a parameter of the function that makes the adapters: every function value
							// handed over for it at a call site was selected in the region of the matching result count
							if fv, isFV := c.Call.Value.(*ssa.FreeVar); isFV {
								if hp, isP := freeVarBinding(fv).(*ssa.Parameter); isP && hp.Parent() == host && host != callFn {
									for _, a := range w.callSiteArgs(hp) {
										for _, sel := range fnSelections(e, a, nil, 0) {
											for kk, want := range adapterFor {
												if sel.fn != want {
													continue
												}
												found = true
												viaParam[c] = true
												if k, in := regionOfBlock(sel.blk); sel.blk == nil || !in || k != kk {
													okRes, detail = false, want.Name()+" selected outside the region of its result count"
												}
											}
										}
									}
								}
								continue
							}
							ld, ok := c.Call.Value.(*ssa.UnOp)
							if !ok {
								continue
							}
							cell := cellOf(ld.X)
							if cell == nil {
								continue
							}
							stores := e.storesTo(cell)
							for _, st := range stores {
								sels := fnSelections(e, st.Val, st.Block(), 0)
								// the cell of a parameter of the function that makes the adapters (a captured
								// parameter is spilled): what the call sites hand over for it
								if hp, isP := st.Val.(*ssa.Parameter); isP && hp.Parent() == host && host != callFn {
									for _, a := range w.callSiteArgs(hp) {
										sels = append(sels, fnSelections(e, a, nil, 0)...)
									}
								}
								for _, sel := range sels {
									known := false
									for kk, want := range adapterFor {
										if sel.fn == want {
											found = true
											known = true
											viaParam[c] = true
											if k, in := regionOfBlock(sel.blk); sel.blk == nil || !in || k != kk {
												okRes, detail = false, want.Name()+" selected outside the region of its result count"
											}
										}
									}
									// the variable can also hold a function that is none of the three result adapters: what
									// becomes of the function's error result is then decided by something the table does not know
									if !known && sel.fn != nil {
										okRes, detail = false, sel.fn.Name()+" can be selected, which is none of the binder's result adapters"
									}
								}
							}
						}
					}
					if !found {
						okRes, detail = false, "no result adapter applied"
					}
				} else if direct > 1 {
					okRes, detail = false, "several result adapters in one closure"
				}
				r.check(okRes, "C20.siblings", ad, "result adapter", ad.Pos(), "the adapter for the function's number of results", "the result adapter does not match the number of results: "+detail)
				// ... and what the result adapter made of the function's results is what the closure returns
				for _, rt := range errorReturns(ad) {
					ret := rt[0].(*ssa.Return)
					if ret.Block() == ad.Recover {
						continue
					}
					verbatim := true
					var from *ssa.Call
					for i, rv := range []interface{}{rt[1], rt[2]} {
						v, _ := rv.(ssa.Value)
						ex, ok := v.(*ssa.Extract)
						if !ok || ex.Index != i {
							verbatim = false
							break
						}
						c, ok := ex.Tuple.(*ssa.Call)
						if !ok || (from != nil && c != from) {
							verbatim = false
							break
						}
						from = c
					}
					if verbatim && from != nil {
						isAdapter := false
						if sc := from.Call.StaticCallee(); sc != nil {
							for _, f := range adapterFor {
								isAdapter = isAdapter || sc == f
							}
						} else if ld, ok := from.Call.Value.(*ssa.UnOp); ok && cellOf(ld.X) != nil {
							isAdapter = true // the adapter selected through a captured variable (checked above)
						} else if viaParam[from] {
							isAdapter = true // ... or through a parameter of the function that makes the adapters
						}
						verbatim = isAdapter
					}
					r.check(verbatim, "C20.verbatim", ad, "results handed back by the adapter closure", ret.Pos(), "the result adapter's results, as they are", "the closure does not return what the result adapter made of the function's results ("+describeVal(e, rt[1].(ssa.Value), 0)+", "+describeVal(e, rt[2].(ssa.Value), 0)+"): a builtin that succeeded - a swap! that installed its value - can be reported as failed, or its value replaced")
				}
				h, isB := w.barrierOf(ad)
				okRec := isB && h == recov
				if okRec {
					for _, in2 := range ad.Blocks[0].Instrs {
						if d, ok := in2.(*ssa.Defer); ok {
							al, isAl := d.Call.Args[len(d.Call.Args)-1].(*ssa.Alloc)
							okRec = isAl && al.Parent() == ad
							// ... and that variable is the closure's error result: what the closure answers after a
							// recovered panic is read from it (a local of the same name is lost when the panic unwinds)
							if okRec {
								isResult := false
								if ad.Recover != nil && len(ad.Recover.Instrs) > 0 {
									if ret, ok := ad.Recover.Instrs[len(ad.Recover.Instrs)-1].(*ssa.Return); ok && len(ret.Results) > 0 {
										if ld, ok := ret.Results[len(ret.Results)-1].(*ssa.UnOp); ok && ld.Op == token.MUL && ld.X == ssa.Value(al) {
											isResult = true
										}
									}
								}
								okRec = isResult
							}
						}
					}
				}
				r.check(okRec, "C20.siblings", ad, "recover barrier", ad.Pos(), "defer _recover(name, &err) first", "the adapter does not start with defer _recover on its own error result: a panic of the bound function (or of the count check) escapes")
			}
		}
	}
	r.floor("C20.siblings", "adapter closures", nAd, 2)
	// units
	incMin, incMax := false, false
	variadic := ssa.Value(callFn.Params[len(callFn.Params)-1])
	// the bounds may be worked out by a function of the package called from the builder: its parameters
	// stand for the arguments, its results for the values stored into the bound cells
	guardOf := func(fn *ssa.Function, b *ssa.BasicBlock) int {
		g := 0
		for _, d := range fn.Blocks {
			iff := blockIf(d)
			if iff == nil || !edgeDominates(d, 0, b) {
				continue
			}
			if derivesFromImplements(e, iff.Cond, 0) {
				g |= 1
			}
			if bo, ok := iff.Cond.(*ssa.BinOp); ok {
				if t, _, ok := e.linOf(bo.X); ok && t.Kind == 1 {
					root := t.K.Root
					if p, isP := root.(*ssa.Parameter); isP && p.Parent() != callFn {
						all := true
						args := w.callSiteArgs(p)
						for _, a := range args {
							if a != variadic {
								all = false
							}
						}
						if all && len(args) > 0 {
							root = variadic
						}
					}
					if root == variadic {
						g |= 2
					}
				}
			}
		}
		return g
	}
	mark := func(al *ssa.Alloc) {
		// which bound: the cell handed to the builders as minimum / maximum
		switch boundRole(callFn, al, argsCtx) {
		case 1:
			incMin = true
		case 2:
			incMax = true
		}
	}
	isInc := func(v ssa.Value) (*ssa.BinOp, bool) {
		bo, ok := v.(*ssa.BinOp)
		if !ok || bo.Op != token.ADD {
			return nil, false
		}
		k, ok := bo.Y.(*ssa.Const)
		if !ok || k.Value == nil || k.Value.Kind() != constant.Int || k.Int64() != 1 {
			return nil, false
		}
		return bo, true
	}
	for _, b := range callFn.Blocks {
		for _, in := range b.Instrs {
			switch x := in.(type) {
			case *ssa.Store:
				al, ok := x.Addr.(*ssa.Alloc)
				if !ok {
					continue
				}
				if bo, ok := isInc(x.Val); ok {
					ld, ok := bo.X.(*ssa.UnOp)
					if !ok || ld.X != ssa.Value(al) {
						continue
					}
					// guarded by contextRequired && len(args) > 0
					if guardOf(callFn, b) == 3 {
						mark(al)
					}
					continue
				}
				// result j of a bounds helper stored into the cell
				ex, ok := x.Val.(*ssa.Extract)
				if !ok {
					continue
				}
				hc, ok := ex.Tuple.(*ssa.Call)
				if !ok {
					continue
				}
				h := hc.Call.StaticCallee()
				if h == nil || h.Pkg != callFn.Pkg || h.Parent() != nil || len(h.Blocks) == 0 {
					continue
				}
				for _, hb := range h.Blocks {
					for _, hin := range hb.Instrs {
						bo, ok := isInc(ssaValueOf(hin))
						if !ok || guardOf(h, hb) != 3 {
							continue
						}
						// the increment reaches result number ex.Index
						for _, rt := range h.Blocks {
							if ret, ok := rt.Instrs[len(rt.Instrs)-1].(*ssa.Return); ok && ex.Index < len(ret.Results) && reachesThroughPhis(bo, resolveRet(ret.Results[ex.Index]), map[ssa.Value]bool{}) {
								mark(al)
							}
						}
					}
				}
			}
		}
	}
	// the bounds as values: when the adapters are made by a function of the package, minimum and maximum are handed
	// to it as arguments and are no captured variables of the registration routine any more; what the builders
	// are given is followed back to the value at the call site
	var originVal func(v ssa.Value, depth int) ssa.Value
	originVal = func(v ssa.Value, depth int) ssa.Value {
		if depth > 6 {
			return v
		}
		switch x := v.(type) {
		case *ssa.UnOp:
			if cell := cellOf(x.X); x.Op == token.MUL && cell != nil && cell.Parent() != callFn {
				if stores := e.storesTo(cell); len(stores) == 1 {
					return originVal(stores[0].Val, depth+1)
				}
			}
		case *ssa.FreeVar:
			if bv := freeVarBinding(x); bv != nil {
				return originVal(bv, depth+1)
			}
		case *ssa.Parameter:
			if x.Parent() != callFn {
				if as := w.callSiteArgs(x); len(as) == 1 {
					return originVal(as[0], depth+1)
				}
			}
		}
		return v
	}
	type boundVal struct {
		v    ssa.Value
		role int // 1 minimum, 2 maximum
		ctx  bool
		pos  token.Pos
	}
	var boundVals []boundVal
	for _, ad := range adapters {
		for _, pr := range []struct {
			fn  *ssa.Function
			off int
		}{{argsCtx, 1}, {args, 0}} {
			for _, c := range staticCallsTo(ad, pr.fn) {
				for role := 1; role <= 2; role++ {
					if pr.off+role-1 >= len(c.Call.Args) {
						continue
					}
					o := originVal(c.Call.Args[pr.off+role-1], 0)
					if ld, ok := o.(*ssa.UnOp); ok && cellOf(ld.X) != nil {
						continue // a captured variable of the registration routine: the cell-based rules above and below
					}
					if in, ok := o.(ssa.Instruction); ok && in.Parent() == callFn {
						boundVals = append(boundVals, boundVal{o, role, pr.fn == argsCtx, c.Pos()})
					} else if _, isC := o.(*ssa.Const); isC {
						boundVals = append(boundVals, boundVal{o, role, pr.fn == argsCtx, c.Pos()})
					}
				}
			}
		}
	}
	var hasGuardedInc func(v ssa.Value, depth int) bool
	hasGuardedInc = func(v ssa.Value, depth int) bool {
		if depth > 8 {
			return false
		}
		switch x := v.(type) {
		case *ssa.Phi:
			for _, ed := range x.Edges {
				if hasGuardedInc(ed, depth+1) {
					return true
				}
			}
		case *ssa.BinOp:
			if _, ok := isInc(x); ok && guardOf(x.Parent(), x.Block()) == 3 {
				return true
			}
		}
		return false
	}
	for _, bv := range boundVals {
		if bv.ctx && hasGuardedInc(bv.v, 0) {
			if bv.role == 1 {
				incMin = true
			} else {
				incMax = true
			}
		}
	}
	// where the bounds come from: the declaration (the elements of the variadic bounds parameter), the
	// signature (NumIn, as it is), the constants for "none" and "unlimited", the context adjustment above,
	// or a bounds helper of the package - nothing else is assigned to them
	updateAtomicRule(w, r, e, "C20.registry-atomic")
	r.rule("C20.bounds-source", "the minimum and maximum the adapters capture are assigned only: an element of the declared bounds, the number of parameters of the signature as it is, a constant, the increment by one for the context (under its guard), or the result of a bounds helper of the package; no other arithmetic on them (a second adjustment counts the context twice and refuses calls within the declared bounds)")
	nbs := 0
	// isBoundsSlice: the declared bounds: the builder's variadic parameter, or the parameter of a helper that
	// is handed it at every call site
	isBoundsSlice := func(v ssa.Value) bool {
		if v == variadic {
			return true
		}
		if p, ok := v.(*ssa.Parameter); ok && p.Parent() != callFn {
			args := w.callSiteArgs(p)
			for _, a := range args {
				if a != variadic {
					return false
				}
			}
			return len(args) > 0
		}
		return false
	}
	var srcOf func(v ssa.Value, depth int) string // "" when the value is an accepted source
	srcOf = func(v ssa.Value, depth int) string {
		if depth > 8 {
			return "too deep to follow"
		}
		switch x := v.(type) {
		case *ssa.Const:
			nbs++
			return ""
		case *ssa.UnOp:
			if x.Op == token.MUL {
				if ia, ok := x.X.(*ssa.IndexAddr); ok && isBoundsSlice(ia.X) {
					nbs++
					return ""
				}
				// a variable of a bounds helper (its named results): everything assigned to it
				if al, ok := x.X.(*ssa.Alloc); ok {
					for _, st := range e.storesTo(al) {
						if bo, ok := isInc(st.Val); ok {
							if ld, ok := bo.X.(*ssa.UnOp); ok && ld.X == ssa.Value(al) && guardOf(st.Parent(), st.Block()) == 3 {
								nbs++
								continue
							}
						}
						if why := srcOf(st.Val, depth+1); why != "" {
							return why
						}
					}
					return ""
				}
			}
		case *ssa.BinOp:
			if bo, ok := isInc(x); ok && guardOf(x.Parent(), x.Block()) == 3 {
				return srcOf(bo.X, depth+1)
			}
		case *ssa.Extract:
			if hc, ok := x.Tuple.(*ssa.Call); ok {
				h := hc.Call.StaticCallee()
				if h != nil && h.Pkg == callFn.Pkg && h.Parent() == nil && len(h.Blocks) > 0 {
					for _, hb := range h.Blocks {
						if ret, ok := hb.Instrs[len(hb.Instrs)-1].(*ssa.Return); ok && x.Index < len(ret.Results) {
							if why := srcOf(ret.Results[x.Index], depth+1); why != "" {
								return why
							}
						}
					}
					return ""
				}
			}
		case *ssa.Call:
			if x.Call.IsInvoke() && x.Call.Method.Name() == "NumIn" {
				nbs++
				return ""
			}
			if sc := x.Call.StaticCallee(); sc != nil && sc.Name() == "NumIn" {
				nbs++
				return ""
			}
		case *ssa.Phi:
			for _, ed := range x.Edges {
				if why := srcOf(ed, depth+1); why != "" {
					return why
				}
			}
			return ""
		case *ssa.Convert:
			return srcOf(x.X, depth+1)
		}
		return describeVal(e, v, 0)
	}
	for _, b := range callFn.Blocks {
		for _, in := range b.Instrs {
			st, ok := in.(*ssa.Store)
			if !ok {
				continue
			}
			al, ok := st.Addr.(*ssa.Alloc)
			if !ok || (boundRole(callFn, al, argsCtx) == 0 && boundRole(callFn, al, args) == 0) {
				continue
			}
			why := srcOf(st.Val, 0)
			if bo, ok := isInc(st.Val); ok {
				if ld, ok := bo.X.(*ssa.UnOp); ok && ld.X == ssa.Value(al) && guardOf(callFn, b) == 3 {
					why = ""
					nbs++
				}
			}
			r.check(why == "", "C20.bounds-source", callFn, "value assigned to a bound: "+nz(w.srcExpr(st), describeVal(e, st.Val, 0)), st.Pos(), "declared bound, signature count, constant, or the context increment under its guard", "a bound is assigned "+why+", which is neither what was declared nor what the signature says: calls whose argument count lies within the declared bounds are refused (or calls outside them reach the function)")
		}
	}
	seenBV := map[ssa.Value]bool{}
	for _, bv := range boundVals {
		if seenBV[bv.v] {
			continue
		}
		seenBV[bv.v] = true
		why := srcOf(bv.v, 0)
		r.check(why == "", "C20.bounds-source", callFn, "value handed over as a bound: "+describeVal(e, bv.v, 0), bv.pos, "declared bound, signature count, constant, or the context increment under its guard", "a bound is "+why+", which is neither what was declared nor what the signature says: calls whose argument count lies within the declared bounds are refused (or calls outside them reach the function)")
	}
	r.floor("C20.bounds-source", "sources of the bounds", nbs, 4)
	// the context builder compares against bounds - 1
	minus := 0
	for _, b := range argsCtx.Blocks {
		if iff := blockIf(b); iff != nil {
			if bo, ok := iff.Cond.(*ssa.BinOp); ok {
				for _, side := range []ssa.Value{bo.X, bo.Y} {
					if t, off, ok := e.linOf(side); ok && t.Kind == 2 && off == -1 {
						minus++
					}
				}
			}
		}
		// ... or the bounds less one are handed to a function of the package that does the comparison
		for _, in := range b.Instrs {
			if c, ok := in.(*ssa.Call); ok && c.Call.StaticCallee() != nil && c.Call.StaticCallee().Pkg == argsCtx.Pkg && len(c.Call.StaticCallee().Blocks) > 0 {
				for _, a := range c.Call.Args {
					if !isIntType(a.Type()) {
						continue
					}
					if t, off, ok := e.linOf(a); ok && t.Kind == 2 && off == -1 {
						minus++
					}
				}
			}
		}
	}
	if minus >= 2 {
		r.check(incMin && incMax, "C20.units", callFn, "explicit bounds of a context-taking function", callFn.Pos(), "both incremented before the adapters capture them (the context builder compares against bounds-1)", fmt.Sprintf("the context builder subtracts the context from both bounds, but explicit bounds are incremented: min=%v max=%v", incMin, incMax))
	} else {
		r.check(!incMin && !incMax, "C20.units", callFn, "explicit bounds of a context-taking function", callFn.Pos(), "the context builder compares lisp-argument counts directly and bounds are not adjusted", "bounds are adjusted although the builder does not subtract the context")
	}
	// checked first
	for _, fn := range []*ssa.Function{args, argsCtx} {
		var mk *ssa.MakeSlice
		for _, b := range fn.Blocks {
			for _, in := range b.Instrs {
				if m, ok := in.(*ssa.MakeSlice); ok {
					mk = m
				}
			}
		}
		okDom := false
		if mk != nil {
			lenArgs := Term{Kind: 1, K: e.keyOf(fn.Params[len(fn.Params)-1])}
			up, lo := false, false
			for _, f := range e.holdingAt(mk).list() {
				// compared with a bound parameter, not with a constant
				if f.Kind == "le" && f.A.String() == lenArgs.String() && f.B.Kind == 2 {
					up = true
				}
				if f.Kind == "le" && f.B.String() == lenArgs.String() && f.A.Kind == 2 {
					lo = true
				}
			}
			okDom = up && lo
		}
		r.check(okDom, "C20.checked-first", fn, "count check before building the arguments", fn.Pos(), "the argument vector is built only when min <= count <= max", "the argument vector is built (and the function invoked) without both count bounds having been checked")
		// every way out of the builder that hands back a vector has passed both bound checks
		lenArgs := Term{Kind: 1, K: e.keyOf(fn.Params[len(fn.Params)-1])}
		for _, b := range fn.Blocks {
			if len(b.Instrs) == 0 {
				continue
			}
			ret, ok := b.Instrs[len(b.Instrs)-1].(*ssa.Return)
			if !ok || len(ret.Results) == 0 {
				continue // (a nil slice is an argument vector too: the function is invoked without arguments)
			}
			up, lo := false, false
			for _, f := range e.holdingAt(ret).list() {
				if f.Kind == "le" && f.A.String() == lenArgs.String() && f.B.Kind == 2 {
					up = true
				}
				if f.Kind == "le" && f.B.String() == lenArgs.String() && f.A.Kind == 2 {
					lo = true
				}
			}
			r.check(up && lo, "C20.checked-first", fn, "return of an argument vector", ret.Pos(), "after both bound checks", "a path hands back an argument vector (so the function is invoked) without the count having been compared with both bounds")
		}
	}
	// "invoked iff the count is in bounds (and the arguments are assignable)": the builders refuse a call on the
	// count alone - every panic in them lies behind comparisons of integers (counts and bounds) only
	r.rule("C20.refusal-grounds", "every panic of the argument builders (and the functions of the package they are built from) is reached only through comparisons of integers - the argument count against the bounds: a call whose count is within the bounds is never refused on another ground (the state of the context, the time, a value of an argument)")
	nrg := 0
	seenRG := map[*ssa.Function]bool{}
	for _, root := range []*ssa.Function{args, argsCtx} {
		for _, fn := range w.withPkgHelpers(root) {
			if fn == nil || seenRG[fn] || fnPkgPath(fn) != modPath+"/lib/call" {
				continue
			}
			seenRG[fn] = true
			for _, b := range fn.Blocks {
				for _, in := range b.Instrs {
					pn, ok := in.(*ssa.Panic)
					if !ok {
						continue
					}
					nrg++
					ground := ""
					for _, a := range knownConds(b) {
						bo, isBO := a.v.(*ssa.BinOp)
						if isBO && isIntType(bo.X.Type()) && isIntType(bo.Y.Type()) {
							continue
						}
						// a flag handed in by the caller that is itself such a comparison (unbounded = max == unlimited)
						if p, isP := a.v.(*ssa.Parameter); isP {
							allCmp := len(w.callSiteArgs(p)) > 0
							for _, arg := range w.callSiteArgs(p) {
								ab, ok := arg.(*ssa.BinOp)
								_, isConst := arg.(*ssa.Const)
								if !isConst && !(ok && isIntType(ab.X.Type()) && isIntType(ab.Y.Type())) {
									allCmp = false
								}
							}
							if allCmp {
								continue
							}
						}
						ground = describeVal(e, a.v, 0)
					}
					r.check(ground == "", "C20.refusal-grounds", fn, "refusal of a call", pn.Pos(), "decided by the argument count alone", "the builder also refuses a call because of "+ground+": a call with a count within the bounds and assignable arguments is not invoked")
				}
			}
		}
	}
	r.floor("C20.refusal-grounds", "refusals in the argument builders", nrg, 2)
	// the two builders box argument k into slot k (+1 when the context occupies slot 0), in both branches
	for _, pr := range []struct {
		fn  *ssa.Function
		off int64
	}{{args, 0}, {argsCtx, 1}} {
		loops := naturalLoops(pr.fn)
		nst, okOff := 0, true
		for _, l := range loops {
			var counter ssa.Value
			for _, in := range l.header.Instrs {
				if phi, ok := in.(*ssa.Phi); ok && isIntType(phi.Type()) {
					counter = phi
				}
			}
			for b := range loopBlocks(l) {
				for _, in := range b.Instrs {
					st, ok := in.(*ssa.Store)
					if !ok {
						continue
					}
					ia, ok := st.Addr.(*ssa.IndexAddr)
					if !ok {
						continue
					}
					nst++
					t, off, ok := e.linOf(ia.Index)
					// the range loop's element index is counter+1 in SSA (rangeindex starts at -1)
					ct, coff, _ := e.linOf(counter)
					_ = ct
					if !ok || t.Kind != 2 {
						okOff = false
						continue
					}
					// index of the element being boxed: the value used to load args[k]
					_ = coff
					rel := off
					// find the load of the source element in the loop: args[idx]
					for bb := range loopBlocks(l) {
						for _, in2 := range bb.Instrs {
							if ia2, ok := in2.(*ssa.IndexAddr); ok && ia2.X == ssa.Value(pr.fn.Params[len(pr.fn.Params)-1]) {
								if t2, off2, ok := e.linOf(ia2.Index); ok && t2.String() == t.String() {
									rel = off - off2
								}
							}
						}
					}
					if rel != pr.off {
						okOff = false
					}
				}
			}
		}
		if nst == 0 {
			// the boxing loop lives in a helper that is handed the argument list and (a tail of) the vector
			srcP := ssa.Value(pr.fn.Params[len(pr.fn.Params)-1])
			for _, b := range pr.fn.Blocks {
				for _, in := range b.Instrs {
					c, ok := in.(*ssa.Call)
					if !ok || c.Call.StaticCallee() == nil || c.Call.StaticCallee().Pkg != pr.fn.Pkg || len(c.Call.StaticCallee().Blocks) == 0 {
						continue
					}
					g := c.Call.StaticCallee()
					si, di, low := -1, -1, int64(0)
					for i, a := range c.Call.Args {
						if a == srcP {
							si = i
						}
						switch y := a.(type) {
						case *ssa.MakeSlice:
							di = i
						case *ssa.Slice:
							if _, isMk := y.X.(*ssa.MakeSlice); isMk && y.High == nil {
								di = i
								if y.Low != nil {
									k, isK := y.Low.(*ssa.Const)
									if !isK || k.Value == nil {
										di = -1
									} else {
										low = k.Int64()
									}
								}
							}
						}
					}
					if si < 0 || di < 0 {
						continue
					}
					for _, l := range naturalLoops(g) {
						for bb := range loopBlocks(l) {
							for _, in2 := range bb.Instrs {
								st, ok := in2.(*ssa.Store)
								if !ok {
									continue
								}
								ia, ok := st.Addr.(*ssa.IndexAddr)
								if !ok || ia.X != ssa.Value(g.Params[di]) {
									continue
								}
								nst++
								t, off, ok := e.linOf(ia.Index)
								if !ok || t.Kind != 2 {
									okOff = false
									continue
								}
								rel, found := off, false
								for b3 := range loopBlocks(l) {
									for _, in3 := range b3.Instrs {
										if ia2, ok := in3.(*ssa.IndexAddr); ok && ia2.X == ssa.Value(g.Params[si]) {
											if t2, off2, ok := e.linOf(ia2.Index); ok && t2.String() == t.String() {
												rel, found = off-off2, true
											}
										}
									}
								}
								// a range loop reads its element through the loop variable itself
								if !found {
									rel = off
								}
								if low+rel != pr.off {
									okOff = false
								}
							}
						}
					}
				}
			}
		}
		r.check(nst >= 1 && okOff, "C20.siblings", pr.fn, "slot of each boxed argument", pr.fn.Pos(), fmt.Sprintf("argument k goes to slot k+%d in every branch", pr.off), "an argument is boxed into the wrong slot of the reflective call (the context or a neighbour is overwritten)")
	}
	// results
	okNN := true
	for _, rt := range (&evalModel{}).returns(nilnil) {
		if !isNilConst(rt[1].(ssa.Value)) || !isNilConst(rt[2].(ssa.Value)) {
			okNN = false
		}
	}
	r.check(okNN, "C20.results", nilnil, "_nil_nil", nilnil.Pos(), "nil, nil", "_nil_nil returns something")
	for _, pr := range []struct {
		fn     *ssa.Function
		errIdx int64
	}{{nilerr, 0}, {reserr, 1}} {
		okE, okV := false, pr.fn == nilerr
		for _, rt := range (&evalModel{}).returns(pr.fn) {
			ret := rt[0].(*ssa.Return)
			ev := rt[2].(ssa.Value)
			if !isNilConst(ev) {
				d := canonVal(e, ev)
				if strings.Contains(d, fmt.Sprintf("p0[%d]", pr.errIdx)) {
					// on the non-nil path
					okE = true
				}
				_ = ret
			}
			if pr.fn == reserr {
				d := canonVal(e, rt[1].(ssa.Value))
				if strings.Contains(d, "p0[0]") {
					okV = true
				}
			}
			// the value handed back is, on every return, exactly what the convention says: nothing for the
			// error-only shape, the function's first result itself for the value-and-error shape
			v0 := rt[1].(ssa.Value)
			if pr.fn == nilerr {
				r.check(isNilConst(v0), "C20.results", pr.fn, "value returned by "+pr.fn.Name(), ret.Pos(), "nil", "the error-only shape hands back a value")
			} else {
				isFirst := canonVal(e, v0) == "Interface(p0[0])"
				r.check(isFirst, "C20.results", pr.fn, "value returned by "+pr.fn.Name(), ret.Pos(), "the function's first result, as it is", "the value-and-error shape does not hand back the function's first result itself on this path ("+describeVal(e, v0, 0)+"): some results of the bound function are replaced by something else")
			}
		}
		r.check(okE && okV, "C20.results", pr.fn, pr.fn.Name(), pr.fn.Pos(), "value passed through, error returned iff non-nil", "results are not mapped by the convention")
		// "iff non-nil": the one test between "no error" and "error" compares the error result's interface value
		// with nil (reflect's IsNil on the Value, or on its Elem, answers another question and panics on structs)
		wantCond := fmt.Sprintf("Interface(p0[%d])", pr.errIdx)
		for _, rt := range (&evalModel{}).returns(pr.fn) {
			ret := rt[0].(*ssa.Return)
			ev := rt[2].(ssa.Value)
			nilTested := false
			for _, d := range pr.fn.Blocks {
				iff := blockIf(d)
				if iff == nil {
					continue
				}
				bo, ok := iff.Cond.(*ssa.BinOp)
				if !ok || (bo.Op != token.EQL && bo.Op != token.NEQ) || !isNilConst(bo.Y) || canonVal(e, bo.X) != wantCond {
					continue
				}
				nilEdge := 0
				if bo.Op == token.NEQ {
					nilEdge = 1
				}
				if isNilConst(ev) && edgeDominates(d, nilEdge, ret.Block()) {
					nilTested = true
				}
				if !isNilConst(ev) && edgeDominates(d, 1-nilEdge, ret.Block()) {
					nilTested = true
				}
			}
			r.check(nilTested, "C20.results", pr.fn, "test that decides between error and no error", ret.Pos(), wantCond+" compared with nil", "the return is not decided by comparing the function's error result with nil: an error value that is not a nil interface is dropped, or the test itself panics (IsNil on a struct error), so the caller does not get the error the function returned")
		}
	}
	// panic
	aud := newAudit(w, e, r, "C20.panic")
	aud.closure = []*ssa.Function{recov, w.Fn("lisperror", "NewGoError")}
	for _, f := range aud.closure {
		if f == nil {
			r.undecided("C20.panic", nil, "handler", token.NoPos, "_recover / NewGoError no longer resolve")
			return
		}
		aud.inClos[f] = true
	}
	aud.run()
	r.check(w.recoverHandler(recov), "C20.panic", recov, "recover()", recov.Pos(), "called directly by the deferred function", "_recover does not call recover() itself")
	// what the handler hands to the error constructors is the recovered value itself (asserted to error at
	// most), never something computed from it (its message): only then does the lisp error still wrap the original
	{
		var isRecovered func(v ssa.Value, depth int) bool
		isRecovered = func(v ssa.Value, depth int) bool {
			if depth > 8 {
				return false
			}
			switch x := v.(type) {
			case *ssa.Call:
				bi, ok := x.Call.Value.(*ssa.Builtin)
				return ok && bi.Name() == "recover"
			case *ssa.TypeAssert:
				return isRecovered(x.X, depth+1)
			case *ssa.Extract:
				return isRecovered(x.Tuple, depth+1)
			case *ssa.MakeInterface:
				return isRecovered(x.X, depth+1)
			case *ssa.ChangeInterface:
				return isRecovered(x.X, depth+1)
			case *ssa.ChangeType:
				return isRecovered(x.X, depth+1)
			case *ssa.Phi:
				for _, op := range x.Edges {
					if !isRecovered(op, depth+1) {
						return false
					}
				}
				return len(x.Edges) > 0
			}
			return false
		}
		nctor := 0
		for _, b := range recov.Blocks {
			for _, in := range b.Instrs {
				c, ok := in.(*ssa.Call)
				if !ok || c.Call.StaticCallee() == nil {
					continue
				}
				var cause ssa.Value
				switch c.Call.StaticCallee().Name() {
				case "NewGoError":
					cause = c.Call.Args[len(c.Call.Args)-1]
				case "NewLispError":
					cause = c.Call.Args[0]
				default:
					continue
				}
				nctor++
				// a thrown lisp value (an atom, a byte string, a map ...) that crosses a Go builtin is still the error
				// object: only what is known to be a Go error goes to the constructor that makes a message of it
				if c.Call.StaticCallee().Name() == "NewGoError" {
					r.check(isErrorType(unboxed(cause).Type()), "C20.panic", recov, "kind of value handed to NewGoError", c.Pos(), "a value asserted to be an error", "a recovered value that is not known to be a Go error is turned into a message ("+describeVal(e, cause, 0)+" goes to the constructor that formats it): a lisp value thrown through a builtin reaches catch as text instead of as the value, and errors.Is / ErrorValue no longer find it")
				}
				r.check(isRecovered(cause, 0), "C20.panic", recov, "value handed to "+c.Call.StaticCallee().Name(), c.Pos(), "the recovered value itself", "the error is built from something computed out of the recovered value ("+describeVal(e, cause, 0)+") instead of the value: the lisp error no longer wraps the original (errors.Is / errors.As and unwrap-error lose it)")
			}
		}
		r.floor("C20.panic", "error constructions in the recover handler", nctor, 2)
	}
	if ge := w.Fn("lisperror", "NewGoError"); ge != nil {
		// every outermost fmt.Errorf (one that is not itself an operand of another) formats with %w an operand
		// that is the panic value itself (asserted to error) or an error built from it
		var errorfs []*ssa.Call
		for _, b := range ge.Blocks {
			for _, in := range b.Instrs {
				if c, ok := in.(*ssa.Call); ok && c.Call.StaticCallee() != nil && c.Call.StaticCallee().Name() == "Errorf" && fnPkgPath(c.Call.StaticCallee()) == "fmt" {
					errorfs = append(errorfs, c)
				}
			}
		}
		var panicVal ssa.Value
		for _, p := range ge.Params {
			if _, isIface := p.Type().Underlying().(*types.Interface); isIface && !isErrorType(p.Type()) {
				panicVal = p
			}
		}
		var fromPanic func(v ssa.Value, depth int) bool
		fromPanic = func(v ssa.Value, depth int) bool {
			if depth > 8 || v == nil {
				return false
			}
			if v == panicVal {
				return true
			}
			switch x := v.(type) {
			case *ssa.MakeInterface:
				return fromPanic(x.X, depth+1)
			case *ssa.ChangeInterface:
				return fromPanic(x.X, depth+1)
			case *ssa.TypeAssert:
				return fromPanic(x.X, depth+1)
			case *ssa.Extract:
				return fromPanic(x.Tuple, depth+1)
			case *ssa.Phi:
				for _, op := range x.Edges {
					if !fromPanic(op, depth+1) {
						return false
					}
				}
				return len(x.Edges) > 0
			case *ssa.Call:
				if x.Call.StaticCallee() != nil && x.Call.StaticCallee().Name() == "Errorf" && len(x.Call.Args) == 2 {
					for _, el := range sliceLiteralElems(x.Call.Args[1]) {
						if fromPanic(el, depth+1) {
							return true
						}
					}
				}
			}
			return false
		}
		isOperand := func(c *ssa.Call) bool {
			for _, o := range errorfs {
				if o == c || len(o.Call.Args) != 2 {
					continue
				}
				for _, el := range sliceLiteralElems(o.Call.Args[1]) {
					if reachesThroughPhis(c, unboxed(el), map[ssa.Value]bool{}) {
						return true
					}
				}
			}
			return false
		}
		nOuter, okW := 0, panicVal != nil
		for _, c := range errorfs {
			if isOperand(c) {
				continue
			}
			nOuter++
			f, _ := constString(c.Call.Args[0])
			wraps := false
			if strings.Count(f, "%w") == 1 && len(c.Call.Args) == 2 {
				for _, el := range sliceLiteralElems(c.Call.Args[1]) {
					if isErrorType(unboxed(el).Type()) && fromPanic(el, 0) {
						wraps = true
					}
				}
			}
			if !wraps {
				okW = false
			}
		}
		r.check(nOuter >= 1 && okW, "C20.panic", ge, "wrapping of the original", ge.Pos(), "every error built from the panic value wraps it (or an error made from it) with %w", "the panic value is not wrapped with %w")
	}
	// nil arguments: a lisp nil is handed over as the zero value of the MalType interface, and as nothing else
	r.rule("C20.nil-arg", "in the argument builders every lisp argument is boxed with reflect.ValueOf only where it is known to be non-nil, and a nil argument becomes reflect.Zero of the MalType interface type - not an invalid reflect.Value (Call panics on it) and not the zero value of the parameter's own type (a typed zero passes the assignability test that nil must fail: 0, \"\", an empty vector)")
	{
		isReflectFn := func(c *ssa.Call, name string) bool {
			sc := c.Call.StaticCallee()
			return sc != nil && sc.Name() == name && sc.Object() != nil && sc.Object().Pkg() != nil && sc.Object().Pkg().Path() == "reflect" && sc.Signature.Recv() == nil
		}
		// reflect.TypeOf([]types.MalType{}).Elem(): the MalType interface type
		isMalIfaceType := func(v ssa.Value) bool {
			c, ok := v.(*ssa.Call)
			if !ok || !c.Call.IsInvoke() || c.Call.Method.Name() != "Elem" {
				return false
			}
			tc, ok := c.Call.Value.(*ssa.Call)
			if !ok || !isReflectFn(tc, "TypeOf") {
				return false
			}
			mi, ok := tc.Call.Args[0].(*ssa.MakeInterface)
			if !ok {
				return false
			}
			sl, ok := mi.X.Type().Underlying().(*types.Slice)
			return ok && isMalType(sl.Elem())
		}
		seenFn := map[*ssa.Function]bool{}
		nz0, nv := 0, 0
		for _, root := range []*ssa.Function{args, argsCtx} {
			zeros := 0
			for _, f := range w.withPkgHelpers(root) {
				for _, b := range f.Blocks {
					for _, in := range b.Instrs {
						c, ok := in.(*ssa.Call)
						if !ok {
							continue
						}
						switch {
						case isReflectFn(c, "ValueOf"):
							x := c.Call.Args[0]
							switch y := x.(type) {
							case *ssa.MakeInterface:
								x = y.X
							case *ssa.ChangeInterface:
								x = y.X
							case *ssa.ChangeType:
								x = y.X
							}
							if !isMalType(x.Type()) {
								continue // the context, not a lisp argument
							}
							if !seenFn[f] {
								nv++
							}
							r.check(e.nonNilFact(x, b), "C20.nil-arg", f, "reflect.ValueOf of a lisp argument", c.Pos(), "the argument is known to be non-nil here", "a lisp argument is boxed with reflect.ValueOf although it may be nil: ValueOf(nil) is the invalid Value, reflect's Call panics on it, and a builtin given nil answers with a go-error instead of running")
						case isReflectFn(c, "Zero"):
							zeros++
							if !seenFn[f] {
								nz0++
							}
							r.check(isMalIfaceType(c.Call.Args[0]), "C20.nil-arg", f, "value handed over for a nil argument", c.Pos(), "reflect.Zero of the MalType interface type", "nil is handed over as the zero value of another type ("+describeVal(e, c.Call.Args[0], 0)+"): a typed zero is assignable where nil is not, so the builtin runs on 0, \"\" or an empty collection instead of the caller getting a type error")
						}
					}
				}
				seenFn[f] = true
			}
			r.check(zeros >= 1, "C20.nil-arg", root, "nil arguments are provided for", root.Pos(), "reflect.Zero(MalType) on the nil path", "the builder has no value for a nil argument")
		}
		r.floor("C20.nil-arg", "boxings of lisp arguments", nv+nz0, 2)
	}
	// name
	okLower, okRepl := false, false
	var nameBlocks []*ssa.BasicBlock
	for _, f := range w.withPkgHelpers(callFn) {
		nameBlocks = append(nameBlocks, f.Blocks...)
	}
	for _, b := range nameBlocks {
		for _, in := range b.Instrs {
			if c, ok := in.(*ssa.Call); ok {
				if isStringsFn(c, "ToLower") {
					okLower = true
				}
				if isStringsFn(c, "Replace", "ReplaceAll") {
					f, _ := constString(c.Call.Args[1])
					t, _ := constString(c.Call.Args[2])
					if f == "_" && t == "-" {
						okRepl = true
					}
				}
			}
		}
	}
	r.check(okLower && okRepl, "C20.name", callFn, "name derivation", callFn.Pos(), "lower-case, _ replaced by -", "the registered name is not derived as documented")
	// the name the function is bound under: the override exactly as given, or the derived name
	{
		overrideParam := -1
		for i, p := range callFn.Params {
			if pt, ok := p.Type().(*types.Pointer); ok && isBasic(pt.Elem(), types.String) {
				overrideParam = i
			}
		}
		var isOverrideParam func(v ssa.Value, depth int) bool
		isOverrideParam = func(v ssa.Value, depth int) bool {
			if overrideParam >= 0 && v == ssa.Value(callFn.Params[overrideParam]) {
				return true
			}
			// the like parameter of a helper the registration hands its own override parameter to
			p, ok := v.(*ssa.Parameter)
			if !ok || depth > 3 || p.Parent() == callFn {
				return false
			}
			args := w.callSiteArgs(p)
			if len(args) == 0 {
				return false
			}
			for _, a := range args {
				if !isOverrideParam(a, depth+1) {
					return false
				}
			}
			return true
		}
		fromOverride := func(v ssa.Value) bool {
			ld, ok := v.(*ssa.UnOp)
			return ok && ld.Op == token.MUL && isOverrideParam(ld.X, 0)
		}
		var mentionsOverride func(v ssa.Value, depth int) bool
		mentionsOverride = func(v ssa.Value, depth int) bool {
			if depth > 8 {
				return false
			}
			for _, lf := range e.producers(v, map[ssa.Value]bool{}, 0) {
				if fromOverride(lf) {
					return true
				}
				switch x := lf.(type) {
				case *ssa.Call:
					for _, a := range x.Call.Args {
						if isStringVal(a) && mentionsOverride(a, depth+1) {
							return true
						}
					}
				case *ssa.Slice:
					if mentionsOverride(x.X, depth+1) {
						return true
					}
				case *ssa.BinOp:
					if mentionsOverride(x.X, depth+1) || mentionsOverride(x.Y, depth+1) {
						return true
					}
				}
			}
			return false
		}
		nb := 0
		for _, f := range w.withPkgHelpers(callFn) {
			for _, b := range f.Blocks {
				for _, in := range b.Instrs {
					ci, ok := in.(ssa.CallInstruction)
					if !ok || !ci.Common().IsInvoke() || ci.Common().Method.Name() != "Set" || len(ci.Common().Args) != 2 {
						continue
					}
					// Symbol{Val: name}
					var nameVal ssa.Value
					if ld, ok := ci.Common().Args[0].(*ssa.UnOp); ok {
						if al, ok := ld.X.(*ssa.Alloc); ok {
							for _, ref := range *al.Referrers() {
								if fa, ok := ref.(*ssa.FieldAddr); ok && fieldName(fa.X.Type(), fa.Field) == "Val" {
									for _, u := range *fa.Referrers() {
										if st, ok := u.(*ssa.Store); ok && st.Addr == ssa.Value(fa) {
											nameVal = st.Val
										}
									}
								}
							}
						}
					}
					if nameVal == nil {
						continue
					}
					nb++
					okName, nOverride := true, 0
					why := ""
					e.followParams = true
					nameProducers := e.producers(nameVal, map[ssa.Value]bool{}, 0)
					e.followParams = false
					for _, lf := range nameProducers {
						switch {
						case fromOverride(lf):
							nOverride++
						case mentionsOverride(lf, 0):
							okName, why = false, "the override name is rewritten ("+describeVal(e, lf, 0)+") before the function is bound under it"
						default:
							// the derived name: the runtime name cut, lower-cased and hyphenated - and nothing else
							if _, isCall := lf.(*ssa.Call); isCall {
								if extra := derivedNameExtra(e, lf, 0); extra != "" {
									okName, why = false, "the derived name is also passed through "+extra+": a Go function whose name that step changes is registered under another name than its hyphenated lower-case name"
								}
							}
						}
					}
					r.check(okName && (overrideParam < 0 || nOverride >= 1), "C20.name", f, "name the function is bound under", in.Pos(), "the override exactly as given, or the derived name", nz(why, "the override name does not reach the binding")+": a function registered under an explicit name is not found under that name")
				}
			}
		}
		r.floor("C20.name", "bindings of registered functions", nb+1, 2)
		// what is bound is the adapter made for this registration
		r.rule("C20.own-adapter", "the function value a registration binds (types.Func.Fn handed to Set) is an adapter closure made in that very registration - by the registration routine or a function of its package that returns a new closure - never a function value fetched from somewhere else (a table of adapters shared between registrations hands one Go function's adapter to another: two closures of one function literal have the same code pointer)")
		nown := 0
		var madeHere func(v ssa.Value, depth int) (bool, string)
		madeHere = func(v ssa.Value, depth int) (bool, string) {
			if depth > 4 {
				return false, "too deep to follow"
			}
			switch x := v.(type) {
			case *ssa.MakeClosure:
				return true, ""
			case *ssa.ChangeType:
				return madeHere(x.X, depth+1)
			case *ssa.Call:
				g := x.Call.StaticCallee()
				if g == nil || g.Pkg != callFn.Pkg || len(g.Blocks) == 0 {
					return false, "the result of " + describeVal(e, v, 0)
				}
				for _, rt := range (&evalModel{}).returns(g) {
					for _, lf := range e.producers(stripConv(resolveRet(rt[1].(ssa.Value))), map[ssa.Value]bool{}, 0) {
						if ok, why := madeHere(lf, depth+1); !ok {
							return false, why
						}
					}
				}
				return true, ""
			}
			return false, describeVal(e, v, 0)
		}
		for _, f := range w.withPkgHelpers(callFn) {
			for _, b := range f.Blocks {
				for _, in := range b.Instrs {
					st, ok := in.(*ssa.Store)
					if !ok {
						continue
					}
					fa, ok := st.Addr.(*ssa.FieldAddr)
					if !ok || fieldName(fa.X.Type(), fa.Field) != "Fn" {
						continue
					}
					if _, name, ok := w.namedStruct(fa.X.Type()); !ok || name != "Func" {
						continue
					}
					nown++
					e.followParams = true
					fnProducers := e.producers(stripConv(st.Val), map[ssa.Value]bool{}, 0)
					e.followParams = false
					for _, lf := range fnProducers {
						ok, why := madeHere(lf, 0)
						r.check(ok, "C20.own-adapter", f, "function value bound by the registration", st.Pos(), "an adapter closure made in this registration", "the registration can bind "+why+" instead of the adapter it has just made for the function it was given: the lisp name then invokes another Go function (or the same code with another closure's captured state)")
					}
				}
			}
		}
		r.floor("C20.own-adapter", "function values bound by the registration", nown, 1)
		// the registry files the function under its package: that key is derived from the function's runtime
		// name in one way, whether or not the function is registered under an explicit name
		r.rule("C20.package-key", "the key under which the registry (_PACKAGES_) files a registered function is assigned independently of the override name: no assignment to it is made under a test of the override parameter (functions registered with and without an explicit name land under the same package)")
		npk := 0
		// the variables of the registration routine a key comes from (through parameters of helpers)
		var keyCells func(v ssa.Value, depth int) []*ssa.Alloc
		keyCells = func(v ssa.Value, depth int) []*ssa.Alloc {
			if depth > 3 {
				return nil
			}
			switch x := v.(type) {
			case *ssa.UnOp:
				if cell := cellOf(x.X); cell != nil {
					return []*ssa.Alloc{cell}
				}
			case *ssa.Parameter:
				var out []*ssa.Alloc
				for _, a := range w.callSiteArgs(x) {
					out = append(out, keyCells(a, depth+1)...)
				}
				return out
			}
			return nil
		}
		var pkFns []*ssa.Function
		seenPk := map[*ssa.Function]bool{}
		for _, f := range w.withPkgHelpers(callFn) {
			for _, g := range append([]*ssa.Function{f}, allAnon(f)...) {
				if !seenPk[g] {
					seenPk[g] = true
					pkFns = append(pkFns, g)
				}
			}
		}
		for _, cl := range pkFns {
			for _, b := range cl.Blocks {
				for _, in := range b.Instrs {
					mu, ok := in.(*ssa.MapUpdate)
					if !ok {
						continue
					}
					if _, name, ok := w.namedStruct(unboxed(mu.Value).Type()); !ok || name != "Set" {
						continue
					}
					for _, cell := range keyCells(mu.Key, 0) {
						for _, st := range e.storesTo(cell) {
							npk++
							dep := ""
							for _, a := range knownConds(st.Block()) {
								if bo, ok := a.v.(*ssa.BinOp); ok && (isOverrideParam(bo.X, 0) || isOverrideParam(bo.Y, 0)) {
									dep = describeVal(e, bo, 0)
								}
							}
							r.check(dep == "", "C20.package-key", st.Parent(), "assignment to the registry's package key", st.Pos(), "made whatever the override name is", "the package key is assigned under the condition "+dep+": a function registered under an explicit name is filed under a different package than the same function registered by its own name")
						}
					}
				}
			}
		}
		r.floor("C20.package-key", "assignments to the registry's package key", npk, 1)
	}
	aud2 := newAudit(w, e, r, "C20.name")
	aud2.exempt = exemptionsC20
	aud2.closure = nil
	for _, f := range w.withPkgHelpers(callFn) {
		aud2.closure = append(aud2.closure, f)
		aud2.inClos[f] = true
	}
	// only slices: collect via a filtered run
	before := len(r.Obl)
	aud2.run()
	kept := r.Obl[:before]
	for _, o := range r.Obl[before:] {
		if strings.HasPrefix(o.Construct, "slice ") {
			kept = append(kept, o)
		}
	}
	r.Obl = kept
	// bounds-decl
	nb := 0
	callA, callB := w.Fn("lib/call", "Call"), w.Fn("lib/call", "CallOverrideFN")
	for _, fn := range w.Funcs {
		if isTestFunc(w, fn) && r.Tier != "thorough" {
			continue
		}
		for _, b := range fn.Blocks {
			for _, in := range b.Instrs {
				c, ok := in.(*ssa.Call)
				if !ok {
					continue
				}
				idx := -1
				switch c.Call.StaticCallee() {
				case callA:
					idx = 1
				case callB:
					idx = 2
				}
				if idx < 0 {
					continue
				}
				// the registrations made at this site: the one written out, or the rows of a table walked by a loop
				type reg struct {
					v      ssa.Value
					bounds []ssa.Value
				}
				var regs []reg
				if bounds := sliceLiteralElems(c.Call.Args[idx+1]); len(bounds) > 0 {
					regs = append(regs, reg{c.Call.Args[idx], bounds})
				} else {
					for _, row := range tableRows(c.Call.Args[idx], c.Call.Args[idx+1]) {
						if row[1] == nil {
							continue
						}
						if bounds := sliceLiteralElems(row[1]); len(bounds) > 0 {
							regs = append(regs, reg{row[0], bounds})
						}
					}
				}
				for _, rg := range regs {
					nb++
					v, bounds := rg.v, rg.bounds
					if mi, ok := v.(*ssa.MakeInterface); ok {
						v = mi.X
					}
					variadic := false
					if sig, ok := v.Type().Underlying().(*types.Signature); ok {
						variadic = sig.Variadic()
					}
					okB := variadic
					if len(bounds) == 2 {
						k0, ok0 := bounds[0].(*ssa.Const)
						k1, ok1 := bounds[1].(*ssa.Const)
						okB = okB && ok0 && ok1 && k0.Int64() <= k1.Int64() && k0.Int64() >= 0
					}
					r.check(okB, "C20.bounds-decl", fn, "explicit bounds for "+describeVal(e, v, 0), c.Pos(), "variadic function, min <= max", "explicit bounds on a non-variadic function or min > max: registration panics at load time")
				}
			}
		}
	}
	r.floor("C20.bounds-decl", "registrations with explicit bounds", nb, 6)
	r.Assumptions = append(r.Assumptions, "assignability of each argument to its parameter is left to reflect.Call's own panic under the barrier")
}

// derivesFromImplements: the boolean derives (through phis, negation, cells) from a call of reflect.Type.Implements:
// "the first parameter is a context".
func derivesFromImplements(e *Engine, v ssa.Value, depth int) bool {
	if depth > 6 {
		return false
	}
	switch x := v.(type) {
	case *ssa.Parameter:
		// a parameter of a function of the package stands for the arguments at its call sites
		for _, a := range e.w.callSiteArgs(x) {
			if derivesFromImplements(e, a, depth+1) {
				return true
			}
		}
		return false
	case *ssa.Call:
		if x.Call.IsInvoke() && x.Call.Method.Name() == "Implements" {
			return true
		}
		// a predicate of the package that answers with such a test (takesContext(finType))
		if callee := x.Call.StaticCallee(); callee != nil && inModule(callee) && len(callee.Blocks) > 0 && callee.Signature.Results().Len() == 1 {
			for _, b := range callee.Blocks {
				if len(b.Instrs) == 0 {
					continue
				}
				if ret, ok := b.Instrs[len(b.Instrs)-1].(*ssa.Return); ok && len(ret.Results) == 1 && derivesFromImplements(e, ret.Results[0], depth+1) {
					return true
				}
			}
		}
		return false
	case *ssa.Phi:
		for _, op := range x.Edges {
			if derivesFromImplements(e, op, depth+1) {
				return true
			}
		}
		// `v := false; if COND { v = true }`: an incoming edge is control-dependent on the call
		for _, pred := range x.Block().Preds {
			for _, d := range x.Parent().Blocks {
				iff := blockIf(d)
				if iff == nil || d == x.Block() {
					continue
				}
				if _, isPhi := iff.Cond.(*ssa.Phi); isPhi && iff.Cond == ssa.Value(x) {
					continue
				}
				if (d == pred || edgeDominates(d, 0, pred) || edgeDominates(d, 1, pred)) && !d.Dominates(x.Block()) || d == pred {
					if c, ok := iff.Cond.(*ssa.Call); ok && c.Call.IsInvoke() && c.Call.Method.Name() == "Implements" {
						return true
					}
				}
			}
		}
	case *ssa.UnOp:
		if x.Op == token.NOT {
			return derivesFromImplements(e, x.X, depth+1)
		}
		if cell := cellOf(x.X); cell != nil {
			for _, st := range e.storesTo(cell) {
				if derivesFromImplements(e, st.Val, depth+1) {
					return true
				}
			}
			// `v := false; if COND { v = true }`: the store of true is control-dependent on the call
			for _, st := range e.storesTo(cell) {
				for _, d := range st.Parent().Blocks {
					if iff := blockIf(d); iff != nil && (edgeDominates(d, 0, st.Block()) || edgeDominates(d, 1, st.Block())) && derivesFromImplements(e, iff.Cond, depth+1) {
						return true
					}
				}
			}
		}
	case *ssa.BinOp:
		return derivesFromImplements(e, x.X, depth+1) || derivesFromImplements(e, x.Y, depth+1)
	case *ssa.FreeVar:
		if bv := freeVarBinding(x); bv != nil {
			return derivesFromImplements(e, bv, depth+1)
		}
	}
	return false
}

// freeVarBinding: the value the enclosing function binds to a captured variable of a function literal.
func freeVarBinding(fv *ssa.FreeVar) ssa.Value {
	fn := fv.Parent()
	parent := fn.Parent()
	if parent == nil {
		return nil
	}
	idx := -1
	for i, f := range fn.FreeVars {
		if f == fv {
			idx = i
		}
	}
	if idx < 0 {
		return nil
	}
	for _, b := range parent.Blocks {
		for _, in := range b.Instrs {
			if mc, ok := in.(*ssa.MakeClosure); ok && mc.Fn == ssa.Value(fn) && idx < len(mc.Bindings) {
				return mc.Bindings[idx]
			}
		}
	}
	return nil
}

// closureCallee: the function literal a call goes to when its callee is a local or captured variable that holds
// one literal only (box := func(...){...}; ... box(x)).
func closureCallee(e *Engine, c *ssa.CallCommon) *ssa.Function {
	if sc := c.StaticCallee(); sc != nil {
		return sc
	}
	if c.IsInvoke() {
		return nil
	}
	var resolve func(v ssa.Value, depth int) *ssa.Function
	resolve = func(v ssa.Value, depth int) *ssa.Function {
		if depth > 4 {
			return nil
		}
		switch x := v.(type) {
		case *ssa.MakeClosure:
			f, _ := x.Fn.(*ssa.Function)
			return f
		case *ssa.Function:
			return x
		case *ssa.FreeVar:
			if bv := freeVarBinding(x); bv != nil {
				return resolve(bv, depth+1)
			}
		case *ssa.UnOp:
			if cell := cellOf(x.X); cell != nil && x.Op == token.MUL {
				var f *ssa.Function
				for _, st := range e.storesTo(cell) {
					g := resolve(st.Val, depth+1)
					if g == nil || (f != nil && g != f) {
						return nil
					}
					f = g
				}
				return f
			}
		}
		return nil
	}
	return resolve(c.Value, 0)
}

// boundRole: 1 if the cell is what the adapters pass as the builders' minimum, 2 for the maximum, 0 otherwise.
func boundRole(callFn *ssa.Function, cell *ssa.Alloc, builder *ssa.Function) int {
	for _, ad := range allAnon(callFn) {
		for _, c := range staticCallsTo(ad, builder) {
			// builder(ctx, min, max, args)
			for i, a := range c.Call.Args {
				if ld, ok := a.(*ssa.UnOp); ok && cellOf(ld.X) == cell {
					if i == 1 {
						return 1
					}
					if i == 2 {
						return 2
					}
				}
			}
		}
	}
	return 0
}

func ssaValueOf(in ssa.Instruction) ssa.Value {
	v, _ := in.(ssa.Value)
	return v
}

// reachesThroughPhis: value v is target, or an operand of the phis target merges.
func reachesThroughPhis(v, target ssa.Value, seen map[ssa.Value]bool) bool {
	if v == target {
		return true
	}
	if seen[target] {
		return false
	}
	seen[target] = true
	if phi, ok := target.(*ssa.Phi); ok {
		for _, op := range phi.Edges {
			if reachesThroughPhis(v, op, seen) {
				return true
			}
		}
	}
	return false
}

// callSiteArgs: the arguments passed for parameter p at the static call sites of its function (same package).
func (w *World) callSiteArgs(p *ssa.Parameter) []ssa.Value {
	fn := p.Parent()
	idx := -1
	for i, q := range fn.Params {
		if q == p {
			idx = i
		}
	}
	if idx < 0 || fn.Pkg == nil {
		return nil
	}
	var out []ssa.Value
	for _, f := range w.Funcs {
		if f.Pkg != fn.Pkg && (f.Parent() == nil || f.Parent().Pkg != fn.Pkg) {
			continue
		}
		if isTestFunc(w, f) {
			continue
		}
		for _, b := range f.Blocks {
			for _, in := range b.Instrs {
				if ci, ok := in.(ssa.CallInstruction); ok && ci.Common().StaticCallee() == fn && idx < len(ci.Common().Args) {
					out = append(out, ci.Common().Args[idx])
				}
			}
		}
	}
	return out
}

// unboxed: the value boxed / converted by MakeInterface or ChangeInterface.
func unboxed(v ssa.Value) ssa.Value {
	for {
		switch x := v.(type) {
		case *ssa.MakeInterface:
			v = x.X
		case *ssa.ChangeInterface:
			v = x.X
		case *ssa.ChangeType:
			if _, isIface := x.Type().Underlying().(*types.Interface); !isIface {
				return v
			}
			v = x.X
		default:
			return v
		}
	}
}

// argumentAsIs: v is one of the function's lisp arguments handed back unchanged (the parameter, an element of
// the variadic parameter, or a type assertion of one of them).
func argumentAsIs(fn *ssa.Function, v ssa.Value, depth int) bool {
	if depth > 8 {
		return false
	}
	switch x := v.(type) {
	case *ssa.Parameter:
		return isMalType(x.Type())
	case *ssa.MakeInterface:
		return argumentAsIs(fn, x.X, depth+1)
	case *ssa.ChangeInterface:
		return argumentAsIs(fn, x.X, depth+1)
	case *ssa.TypeAssert:
		return argumentAsIs(fn, x.X, depth+1)
	case *ssa.Extract:
		if ta, ok := x.Tuple.(*ssa.TypeAssert); ok && x.Index == 0 {
			return argumentAsIs(fn, ta.X, depth+1)
		}
	case *ssa.UnOp:
		if x.Op != token.MUL {
			return false
		}
		if ia, ok := x.X.(*ssa.IndexAddr); ok {
			if p, ok := ia.X.(*ssa.Parameter); ok {
				_, isSlice := p.Type().Underlying().(*types.Slice)
				return isSlice
			}
		}
		// a local that holds the (asserted) argument: single store
		if al, ok := x.X.(*ssa.Alloc); ok {
			var vals []ssa.Value
			for _, ref := range *al.Referrers() {
				if st, ok := ref.(*ssa.Store); ok && st.Addr == ssa.Value(al) {
					vals = append(vals, st.Val)
				}
			}
			if len(vals) == 1 {
				// only when no field of the copy is changed afterwards
				for _, ref := range *al.Referrers() {
					if fa, ok := ref.(*ssa.FieldAddr); ok {
						for _, u := range *fa.Referrers() {
							if st, ok := u.(*ssa.Store); ok && st.Addr == ssa.Value(fa) {
								return false
							}
						}
					}
				}
				return argumentAsIs(fn, vals[0], depth+1)
			}
		}
	case *ssa.Phi:
		for _, op := range x.Edges {
			if argumentAsIs(fn, op, depth+1) {
				return true
			}
		}
	}
	return false
}

// identityBuiltins: builtins of lib/core for which returning an argument unchanged is the model's result.
var identityBuiltins = map[string]string{
	"get": "get on a set yields the member itself, which is the key that was asked for",
	"seq": "seq of a non-empty list is that list",
}

func identityRule(w *World, r *Report, rule string) {
	n := 0
	seen := map[*ssa.Function]bool{}
	for _, fn := range w.registeredFuncs() {
		if seen[fn] || fnPkgPath(fn) != modPath+"/lib/core" {
			continue
		}
		seen[fn] = true
		for _, rt := range errorReturns(fn) {
			ret := rt[0].(*ssa.Return)
			v, _ := rt[1].(ssa.Value)
			ev, _ := rt[2].(ssa.Value)
			if v == nil || isNilConst(v) || (ev != nil && !isNilConst(ev)) {
				continue
			}
			if !argumentAsIs(fn, v, 0) {
				continue
			}
			n++
			if reason, ok := identityBuiltins[fn.Name()]; ok {
				r.ok(rule, fn, "argument returned unchanged", ret.Pos(), "reviewed: "+reason)
			} else {
				r.bad(rule, fn, "argument returned unchanged", ret.Pos(), fn.Name()+" hands one of its arguments back as its result: the result's kind (list or vector) and contents are then whatever was passed, and the remaining arguments are not processed")
			}
		}
	}
	// the unexported functions the builtins are built from: handing a parameter back is "nothing to do" only
	// where another parameter (a path, a list of keys) is known to be empty
	for _, root := range w.registeredFuncs() {
		if fnPkgPath(root) != modPath+"/lib/core" {
			continue
		}
		// helpers whose result is the builtin's result (returned by it, or by another such helper)
		resultOf := map[*ssa.Function]bool{root: true}
		for changed := true; changed; {
			changed = false
			for f := range resultOf {
				for _, rt := range errorReturns(f) {
					v, _ := rt[1].(ssa.Value)
					if mi, ok := v.(*ssa.MakeInterface); ok {
						v = mi.X
					}
					if c, ok := unboxedCall(v); ok && c.Call.StaticCallee() != nil && !resultOf[c.Call.StaticCallee()] && inModule(c.Call.StaticCallee()) {
						resultOf[c.Call.StaticCallee()] = true
						changed = true
					}
				}
			}
		}
		for _, h := range w.withPkgHelpers(root) {
			if seen[h] || h == root || !resultOf[h] {
				continue
			}
			seen[h] = true
			for _, rt := range errorReturns(h) {
				ret := rt[0].(*ssa.Return)
				v, _ := rt[1].(ssa.Value)
				ev, _ := rt[2].(ssa.Value)
				if v == nil || isNilConst(v) || (ev != nil && !isNilConst(ev)) {
					continue
				}
				if !argumentAsIs(h, v, 0) {
					continue
				}
				n++
				emptyOther := false
				for _, a := range knownConds(ret.Block()) {
					bo, ok := a.v.(*ssa.BinOp)
					if !ok || !a.pol || bo.Op != token.EQL {
						continue
					}
					k, isK := bo.Y.(*ssa.Const)
					lc, isLen := bo.X.(*ssa.Call)
					if isK && isLen && k.Value != nil && k.Int64() == 0 {
						if bi, ok := lc.Call.Value.(*ssa.Builtin); ok && bi.Name() == "len" {
							emptyOther = true
						}
					}
				}
				if emptyOther {
					r.ok(rule, h, "argument returned unchanged", ret.Pos(), "under the test that another argument (a path, a list of keys) is empty: nothing to do")
				} else {
					r.bad(rule, h, "argument returned unchanged", ret.Pos(), w.fnName(h)+" hands the collection it was given back as the result on a path that is not 'nothing to do': whatever the builtin was to change (a value replaced by an equal one of another kind, say) is silently not changed")
				}
			}
		}
	}
	r.floor(rule, "returns of an unchanged argument", n, 1)
}

// goEqualityRule: interface comparisons inside Equal_Q (and the functions of its package it is built from).
func goEqualityRule(w *World, r *Report, e *Engine, rule string) {
	eq := w.Fn("types", "Equal_Q")
	if eq == nil {
		r.undecided(rule, nil, "Equal_Q", token.NoPos, "function no longer resolves")
		return
	}
	// comparable struct types of package types that hold a pointer (source position, metadata)
	var risky []types.Type
	sc := w.ByPath[modPath+"/types"].Types.Scope()
	for _, name := range sc.Names() {
		tn, ok := sc.Lookup(name).(*types.TypeName)
		if !ok {
			continue
		}
		st, ok := tn.Type().Underlying().(*types.Struct)
		if !ok || !types.Comparable(tn.Type()) {
			continue
		}
		for i := 0; i < st.NumFields(); i++ {
			if _, isPtr := st.Field(i).Type().Underlying().(*types.Pointer); isPtr {
				risky = append(risky, tn.Type())
				break
			}
		}
	}
	// only types whose values actually become lisp values somewhere in the library (boxed into an interface)
	boxed := map[string]bool{}
	for _, fn := range w.Funcs {
		if isTestFunc(w, fn) || !runtimePkg(fnPkgPath(fn)) {
			continue
		}
		for _, b := range fn.Blocks {
			for _, in := range b.Instrs {
				if mi, ok := in.(*ssa.MakeInterface); ok {
					boxed[mi.X.Type().String()] = true
				}
			}
		}
	}
	var kept []types.Type
	for _, T := range risky {
		if boxed[T.String()] {
			kept = append(kept, T)
		}
	}
	risky = kept
	n := 0
	for _, fn := range w.withPkgHelpers(eq) {
		for _, b := range fn.Blocks {
			for _, in := range b.Instrs {
				bo, ok := in.(*ssa.BinOp)
				if !ok || (bo.Op != token.EQL && bo.Op != token.NEQ) {
					continue
				}
				if !isMalType(bo.X.Type()) || !isMalType(bo.Y.Type()) || isNilConst(bo.X) || isNilConst(bo.Y) {
					continue
				}
				n++
				var open []string
				for _, T := range risky {
					if !e.notType(bo.X, T, b) && !e.notType(bo.Y, T, b) {
						open = append(open, shortType(T))
					}
				}
				r.check(len(open) == 0, rule, fn, "Go equality on two lisp values", bo.Pos(), "neither operand can be a position-carrying comparable struct here", "the operands can be "+strings.Join(open, ", ")+", which Go compares field by field including the source-position pointer: equal symbols read at different places compare unequal")
			}
		}
	}
	r.floor(rule, "Go equality comparisons of lisp values in Equal_Q", n, 1)
	if len(risky) == 0 {
		r.undecided(rule, nil, "position-carrying comparable structs", token.NoPos, "none found in package types (Symbol expected)")
	}
}

// positionBlindRule: what a program computes must not depend on source positions (an AST built from Go has
// none, the same program read from text has them): the Cursor of a lisp value is only ever carried along,
// handed to position plumbing or stored into another Cursor, never compared.
func positionBlindRule(w *World, r *Report, rule string) {
	r.rule(rule, "in the evaluator, the builtins, the environment and the value types no comparison or branch takes the Cursor of a lisp value as an operand: positions are only carried, copied and handed to the error constructors (a program delivered without positions computes the same)")
	n := 0
	for _, fn := range w.Funcs {
		p := fnPkgPath(fn)
		if isTestFunc(w, fn) || !runtimePkg(p) || strings.HasSuffix(p, "/lisperror") || strings.HasSuffix(p, "/reader") || strings.HasSuffix(p, "/printer") {
			continue
		}
		if fn.Signature.Recv() != nil && strings.HasSuffix(fn.Signature.Recv().Type().String(), "types.Position") {
			continue
		}
		for _, b := range fn.Blocks {
			for _, in := range b.Instrs {
				var v ssa.Value
				switch x := in.(type) {
				case *ssa.Field:
					if fieldName(x.X.Type(), x.Field) == "Cursor" {
						v = x
					}
				case *ssa.UnOp:
					if fa, ok := x.X.(*ssa.FieldAddr); ok && x.Op == token.MUL && fieldName(fa.X.Type(), fa.Field) == "Cursor" {
						v = x
					}
				}
				// the result of GetPosition is a position too
				if c, ok := in.(*ssa.Call); ok && c.Call.StaticCallee() != nil && c.Call.StaticCallee().Name() == "GetPosition" {
					if _, name, ok := w.namedStruct(derefType(c.Type())); ok && name == "Position" {
						v = c
					}
				}
				if v == nil {
					continue
				}
				n++
				compared := false
				for _, ref := range *v.Referrers() {
					if bo, ok := ref.(*ssa.BinOp); ok && (bo.Op == token.EQL || bo.Op == token.NEQ) {
						compared = true
					}
				}
				r.check(!compared, rule, fn, "use of a value's Cursor", in.Pos(), "carried or handed on, not compared", "the source position of a value takes part in a comparison: the same program delivered without positions (L-notation) or re-read from its printed form takes the other branch")
			}
		}
	}
	// ... nor as part of a whole value: Go compares structs field by field and hashes map keys the same way,
	// so a position-carrying struct (Symbol) used as a map key or compared with == is compared by position
	for _, fn := range w.Funcs {
		p := fnPkgPath(fn)
		if isTestFunc(w, fn) || !runtimePkg(p) || strings.HasSuffix(p, "/lisperror") || strings.HasSuffix(p, "/reader") || strings.HasSuffix(p, "/printer") {
			continue
		}
		for _, b := range fn.Blocks {
			for _, in := range b.Instrs {
				switch x := in.(type) {
				case *ssa.BinOp:
					if (x.Op == token.EQL || x.Op == token.NEQ) && carriesPosition(x.X.Type(), 0) {
						n++
						r.bad(rule, fn, "Go equality on "+shortType(x.X.Type())+" values", x.Pos(), "two values of a struct type that holds a source position are compared with ==: the position pointers are compared too, so names read from text (each occurrence has its own position) never compare equal while the same names built without positions do")
					}
				case *ssa.MakeMap:
					if mt, ok := x.Type().Underlying().(*types.Map); ok && carriesPosition(mt.Key(), 0) {
						n++
						r.bad(rule, fn, "map keyed by "+shortType(mt.Key()), x.Pos(), "the key type holds a source position, which takes part in hashing and equality of the keys: two occurrences of a name read from text are different keys, the same name built without positions is one key - the program behaves differently depending on how it was delivered")
					}
				}
			}
		}
	}
	r.floor(rule, "reads of a Cursor field in the runtime packages", n, 3)
}

// carriesPosition: a struct type (not behind a pointer or interface) with a field that is a *Position, or a
// field whose struct type has one.
func carriesPosition(t types.Type, depth int) bool {
	st, ok := t.Underlying().(*types.Struct)
	if !ok || depth > 3 {
		return false
	}
	for i := 0; i < st.NumFields(); i++ {
		ft := st.Field(i).Type()
		if pt, ok := ft.Underlying().(*types.Pointer); ok {
			if n, ok := pt.Elem().(*types.Named); ok && n.Obj().Name() == "Position" && n.Obj().Pkg() != nil && strings.HasSuffix(n.Obj().Pkg().Path(), "/types") {
				return true
			}
			continue
		}
		if carriesPosition(ft, depth+1) {
			return true
		}
	}
	return false
}

// slurpVerbatimRule: load-file evaluates what slurp returns; for the file route to mean the same as the text
// route, slurp must return the file's bytes as they are.
func slurpVerbatimRule(w *World, r *Report, rule string) {
	r.rule(rule, "slurp returns the bytes read from the file converted to a string and nothing else (no line-ending or encoding normalisation): a program loaded from a file is the text that is in the file")
	fn := w.Fn("lib/core", "slurp")
	if fn == nil {
		r.undecided(rule, nil, "slurp", token.NoPos, "function no longer resolves")
		return
	}
	n := 0
	for _, rt := range errorReturns(fn) {
		ret := rt[0].(*ssa.Return)
		v, _ := rt[1].(ssa.Value)
		if v == nil || isNilConst(v) {
			continue
		}
		n++
		okV, why := false, describeVal(nil, v, 0)
		if cv, ok := unboxed(v).(*ssa.Convert); ok {
			if ex, ok := cv.X.(*ssa.Extract); ok && ex.Index == 0 {
				if c, ok := ex.Tuple.(*ssa.Call); ok && c.Call.StaticCallee() != nil {
					switch fnPkgPath(c.Call.StaticCallee()) + "." + c.Call.StaticCallee().Name() {
					case "os.ReadFile", "io.ReadAll", "io/ioutil.ReadFile", "io/ioutil.ReadAll":
						okV = true
					}
				}
			}
		}
		r.check(okV, rule, fn, "value returned by slurp", ret.Pos(), "string(bytes read)", "slurp rewrites the file's text ("+why+"): the file route delivers a different program than the text route (multi-line strings change)")
	}
	r.floor(rule, "success returns of slurp", n, 1)
}

// c20EntryRules: the exported entry points forward their bounds; the context test covers every function with
// at least one parameter.
func c20EntryRules(w *World, r *Report, e *Engine, callFn *ssa.Function) {
	r.rule("C20.forward", "every exported entry point of the binder hands its own bounds parameter (and namespace and function) on to the registration routine: bounds declared through any entry point are enforced")
	nf := 0
	for _, fn := range w.pkgFuncs("lib/call") {
		if fn.Object() == nil || !fn.Object().Exported() || fn.Parent() != nil {
			continue
		}
		for _, c := range staticCallsTo(fn, callFn) {
			nf++
			var problems []string
			for _, p := range fn.Params {
				// a parameter of the wrapper whose type occurs among the callee's parameters must be passed on
				passed, wanted := false, false
				for i, q := range callFn.Params {
					if types.Identical(q.Type(), p.Type()) || (isPtrTo(q.Type(), p.Type())) {
						wanted = true
						if i < len(c.Call.Args) && derivesFromParamValue(c.Call.Args[i], p, 0) {
							passed = true
						}
					}
				}
				if wanted && !passed {
					problems = append(problems, p.Name())
				}
			}
			r.check(len(problems) == 0, "C20.forward", fn, "arguments handed to the registration routine", c.Pos(), "every parameter forwarded", "parameter(s) "+strings.Join(problems, ", ")+" of the entry point are not handed on: bounds declared through "+fn.Name()+" are dropped, the function is invoked with any number of arguments")
		}
	}
	r.floor("C20.forward", "entry points calling the registration routine", nf, 2)

	// the binding is made whenever the registration routine returns: under its name the function that was handed
	// in is what the scope holds afterwards, whatever the scope (or a scope around it) held before
	r.rule("C20.always-bound", "the registration routine binds the adapter (a types.Func handed to the scope's Set) on every path that returns: the call of Set dominates every return, it is not made to depend on what the name is already bound to")
	nb := 0
	for _, fn := range w.withPkgHelpers(callFn) {
		if fn == nil {
			continue
		}
		for _, b := range fn.Blocks {
			for _, in := range b.Instrs {
				ci, ok := in.(ssa.CallInstruction)
				if !ok || !ci.Common().IsInvoke() || ci.Common().Method.Name() != "Set" || len(ci.Common().Args) != 2 {
					continue
				}
				mi, ok := ci.Common().Args[1].(*ssa.MakeInterface)
				if !ok {
					continue
				}
				if _, name, ok := w.namedStruct(mi.X.Type()); !ok || name != "Func" {
					continue
				}
				nb++
				always := true
				for _, rb := range fn.Blocks {
					if len(rb.Instrs) == 0 || rb == fn.Recover {
						continue
					}
					if _, isRet := rb.Instrs[len(rb.Instrs)-1].(*ssa.Return); isRet && !(b == rb || b.Dominates(rb)) {
						always = false
					}
				}
				r.check(always, "C20.always-bound", fn, "binding of the adapter", in.Pos(), "made on every returning path", "the adapter is bound on some paths only: a registration can return without the function being reachable under its name (a name already bound in the scope or around it keeps its old value, and calls go to that)")
			}
		}
	}
	r.floor("C20.always-bound", "bindings of adapters by the registration routine", nb, 1)

	r.rule("C20.context-test", "the test for a leading context parameter is applied to every function that has at least one parameter: the guard in front of In(0) demands NumIn() >= 1 and nothing more")
	nt := 0
	var ctBlocks []*ssa.BasicBlock
	for _, f := range w.withPkgHelpers(callFn) {
		ctBlocks = append(ctBlocks, f.Blocks...)
	}
	for _, b := range ctBlocks {
		for _, in := range b.Instrs {
			c, ok := in.(*ssa.Call)
			if !ok || !c.Call.IsInvoke() || c.Call.Method.Name() != "In" || len(c.Call.Args) != 1 {
				continue
			}
			k, ok := c.Call.Args[0].(*ssa.Const)
			if !ok || k.Value == nil || k.Int64() != 0 {
				continue
			}
			nt++
			lb := int64(0)
			for _, a := range knownConds(b) {
				bo, ok := a.v.(*ssa.BinOp)
				if !ok {
					continue
				}
				x, y, op := bo.X, bo.Y, bo.Op
				if _, isK := x.(*ssa.Const); isK {
					x, y, op = y, x, flipOp(op)
				}
				nc, ok := x.(*ssa.Call)
				kk, ok2 := y.(*ssa.Const)
				if !ok || !ok2 || !nc.Call.IsInvoke() || nc.Call.Method.Name() != "NumIn" || nc.Call.Value != c.Call.Value || kk.Value == nil {
					continue
				}
				v := kk.Int64()
				if !a.pol {
					op = negateOp(op)
				}
				switch op {
				case token.GEQ:
					lb = max64(lb, v)
				case token.GTR:
					lb = max64(lb, v+1)
				case token.EQL:
					lb = max64(lb, v)
				case token.NEQ:
					if v == 0 {
						lb = max64(lb, 1)
					}
				}
			}
			r.check(lb <= 1, "C20.context-test", callFn, "guard in front of the context test", c.Pos(), "NumIn() >= 1", fmt.Sprintf("the context test is only applied to functions with at least %d parameters: a function whose only parameter is the context gets no context injected (its lisp argument lands in the context slot)", lb))
		}
	}
	r.floor("C20.context-test", "In(0) tests in the registration routine", nt, 1)
}

func isPtrTo(pt, t types.Type) bool {
	p, ok := pt.Underlying().(*types.Pointer)
	return ok && types.Identical(p.Elem(), t)
}

// derivesFromParamValue: v is the parameter, its address (spilled to a cell) or a reslice of it.
func derivesFromParamValue(v ssa.Value, p *ssa.Parameter, depth int) bool {
	if v == ssa.Value(p) {
		return true
	}
	if depth > 5 {
		return false
	}
	switch x := v.(type) {
	case *ssa.Slice:
		return derivesFromParamValue(x.X, p, depth+1)
	case *ssa.Alloc:
		for _, ref := range *x.Referrers() {
			if st, ok := ref.(*ssa.Store); ok && st.Addr == ssa.Value(x) && st.Val == ssa.Value(p) {
				return true
			}
		}
	case *ssa.UnOp:
		if x.Op == token.MUL {
			return derivesFromParamValue(x.X, p, depth+1)
		}
	case *ssa.MakeInterface:
		return derivesFromParamValue(x.X, p, depth+1)
	case *ssa.ChangeInterface:
		return derivesFromParamValue(x.X, p, depth+1)
	}
	return false
}

func flipOp(op token.Token) token.Token {
	switch op {
	case token.LSS:
		return token.GTR
	case token.GTR:
		return token.LSS
	case token.LEQ:
		return token.GEQ
	case token.GEQ:
		return token.LEQ
	}
	return op
}

func negateOp(op token.Token) token.Token {
	switch op {
	case token.LSS:
		return token.GEQ
	case token.GEQ:
		return token.LSS
	case token.GTR:
		return token.LEQ
	case token.LEQ:
		return token.GTR
	case token.EQL:
		return token.NEQ
	case token.NEQ:
		return token.EQL
	}
	return op
}

func max64(a, b int64) int64 {
	if a > b {
		return a
	}
	return b
}

// resultKinds: for every registered builtin of lib/core, the set of dynamic types its success results can have.
func resultKinds(w *World, e *Engine) map[string]string {
	out := map[string]string{}
	seen := map[*ssa.Function]bool{}
	for _, fn := range w.registeredFuncs() {
		if seen[fn] || fnPkgPath(fn) != modPath+"/lib/core" || fn.Signature.Results().Len() == 0 || fn.Parent() != nil {
			continue
		}
		seen[fn] = true
		if rt := fn.Signature.Results().At(0).Type(); !isMalType(rt) {
			if !isErrorType(rt) {
				out[fn.Name()] = shortType(rt)
			}
			continue
		}
		var ts typeSet
		for _, rt := range errorReturns(fn) {
			ret := rt[0].(*ssa.Return)
			v, _ := rt[1].(ssa.Value)
			ev, _ := rt[2].(ssa.Value)
			if v == nil {
				v = rt[2].(ssa.Value)
				ev = nil
			}
			if ev != nil && !isNilConst(ev) && isNilConst(v) {
				continue
			}
			ts.merge(e.typeSetOf(v, ret.Block(), map[ssa.Value]bool{}, 0))
		}
		var names []string
		if ts.hasNil {
			names = append(names, "nil")
		}
		for _, t := range ts.ts {
			names = append(names, shortType(t))
		}
		if ts.unknown {
			names = append(names, "any")
		}
		sort.Strings(names)
		out[fn.Name()] = strings.Join(names, ",")
	}
	return out
}

// confirmedKinds: result kinds of the collection builtins, confirmed by reading README.md and the step files
// against the table computed on the reviewed tree (lispcheck -dump-kinds).
var confirmedKinds = map[string]string{
	"assoc":       "types.HashMap,types.Set,types.Vector",
	"concat":      "types.List",
	"conj":        "types.HashMap,types.List,types.Set,types.Vector",
	"cons":        "types.List",
	"contains_Q":  "bool",
	"count":       "int",
	"dissoc":      "types.HashMap,types.Set",
	"drop":        "types.List",
	"drop_last":   "types.List",
	"empty_Q":     "bool",
	"keys":        "types.List",
	"mAp":         "types.List",
	"mErge":       "nil,types.HashMap",
	"rAnge":       "types.Vector",
	"rename_keys": "types.HashMap",
	"rest":        "types.List",
	"seq":         "nil,types.List",
	"subvec":      "types.Vector",
	"take":        "types.List",
	"take_last":   "nil,types.List",
	"update":      "nil,types.HashMap,types.Set,types.Vector",
	"vals":        "types.List",
	"vec":         "types.Vector",
}

func kindRule(w *World, r *Report, e *Engine, rule string) {
	now := resultKinds(w, e)
	n := 0
	var names []string
	for name := range confirmedKinds {
		names = append(names, name)
	}
	sort.Strings(names)
	for _, name := range names {
		fn := w.Fn("lib/core", name)
		cur, ok := now[name]
		if fn == nil || !ok {
			r.add(rule, nil, "result kinds of "+name, token.NoPos, "info", "no registered function of this name in lib/core (renamed builtins are C13.vocab's business)")
			continue
		}
		n++
		allowed := map[string]bool{}
		for _, k := range strings.Split(confirmedKinds[name], ",") {
			allowed[k] = true
		}
		var extra []string
		for _, k := range strings.Split(cur, ",") {
			if k != "" && !allowed[k] {
				extra = append(extra, k)
			}
		}
		r.check(len(extra) == 0, rule, fn, "result kinds", fn.Pos(), "within {"+confirmedKinds[name]+"}", name+" can now return "+strings.Join(extra, ", ")+" (any = a value whose kind is decided by the caller), outside the confirmed kinds {"+confirmedKinds[name]+"}")
	}
	r.floor(rule, "collection builtins with a confirmed result kind", n, 15)
}

// isPeekResult: v is the result of the token reader's peek, or a merge of such results.
func isPeekResult(w *World, v ssa.Value, seen map[ssa.Value]bool) bool {
	if seen[v] {
		return true
	}
	seen[v] = true
	switch x := v.(type) {
	case *ssa.Call:
		return w.isTokenPeek(x.Call.StaticCallee())
	case *ssa.Phi:
		for _, op := range x.Edges {
			if !isPeekResult(w, op, seen) {
				return false
			}
		}
		return len(x.Edges) > 0
	case *ssa.Extract:
		// a result of a helper of the reader that hands back the token it peeked
		hc, ok := x.Tuple.(*ssa.Call)
		if !ok || hc.Call.StaticCallee() == nil || !inModule(hc.Call.StaticCallee()) || len(hc.Call.StaticCallee().Blocks) == 0 {
			return false
		}
		n := 0
		for _, b := range hc.Call.StaticCallee().Blocks {
			ret, ok := b.Instrs[len(b.Instrs)-1].(*ssa.Return)
			if !ok || x.Index >= len(ret.Results) {
				continue
			}
			rv := resolveRet(ret.Results[x.Index])
			if isNilConst(rv) {
				continue
			}
			if !isPeekResult(w, rv, seen) {
				return false
			}
			n++
		}
		return n > 0
	}
	return false
}

// registeredOverride: the function value registered with CallOverrideFN under the given lisp name.
func (w *World) registeredOverride(name string) (*ssa.Function, ssa.Instruction) {
	callB := w.Fn("lib/call", "CallOverrideFN")
	for _, fn := range w.Funcs {
		if isTestFunc(w, fn) {
			continue
		}
		for _, b := range fn.Blocks {
			for _, in := range b.Instrs {
				c, ok := in.(*ssa.Call)
				if !ok || c.Call.StaticCallee() != callB || callB == nil {
					continue
				}
				k, ok := c.Call.Args[1].(*ssa.Const)
				if !ok {
					// a registration table walked by a loop
					for _, row := range tableRows(c.Call.Args[1], c.Call.Args[2]) {
						if s, ok := constString(row[0]); ok && s == name {
							if f := fnValueOf(row[1]); f != nil {
								return f, in
							}
						}
					}
					continue
				}
				if k.Value == nil || k.Value.Kind() != constant.String || constant.StringVal(k.Value) != name {
					continue
				}
				v := c.Call.Args[2]
				if mi, ok := v.(*ssa.MakeInterface); ok {
					v = mi.X
				}
				switch g := v.(type) {
				case *ssa.Function:
					return g, in
				case *ssa.MakeClosure:
					return g.Fn.(*ssa.Function), in
				}
			}
		}
	}
	return nil, nil
}

// equalsEntryRule: the lisp function = is Equal_Q and nothing else.
func equalsEntryRule(w *World, r *Report, rule string) {
	r.rule(rule, "the builtin registered as = returns Equal_Q of its two arguments on every path, with no comparison of its own in front of it (a shortcut there would make the top level of = disagree with the equality used inside collections)")
	eq := w.Fn("types", "Equal_Q")
	fn, _ := w.registeredOverride("=")
	if fn == nil || eq == nil {
		r.undecided(rule, nil, "registration of =", token.NoPos, "the function registered under the name = (or Equal_Q) no longer resolves")
		return
	}
	n := 0
	for _, rt := range errorReturns(fn) {
		ret := rt[0].(*ssa.Return)
		v, _ := rt[1].(ssa.Value)
		ev, _ := rt[2].(ssa.Value)
		if v == nil || (ev != nil && !isNilConst(ev)) {
			continue
		}
		n++
		okV := false
		if c, ok := unboxed(v).(*ssa.Call); ok && c.Call.StaticCallee() == eq && len(c.Call.Args) == 2 && len(fn.Params) >= 2 {
			p0, p1 := ssa.Value(fn.Params[len(fn.Params)-2]), ssa.Value(fn.Params[len(fn.Params)-1])
			okV = c.Call.Args[0] == p0 && c.Call.Args[1] == p1
		}
		r.check(okV, rule, fn, "value returned by =", ret.Pos(), "Equal_Q(a, b)", "= answers with something other than Equal_Q of its two arguments ("+describeVal(nil, v, 0)+"): equality at the top level differs from equality of the same values inside a list or map")
	}
	r.floor(rule, "success returns of =", n, 1)
}

// lastWinsRule: while a map is being filled from a sequence of pairs, no store is skipped because the key is
// already there (the model is a left-to-right fold of assoc: the last value wins).
func lastWinsRule(w *World, r *Report, e *Engine, rule string) {
	r.rule(rule, "in the constructors and builtins that fill a map from a sequence of key/value pairs, no store into the map being built is conditional on the key being (or not being) already present in that same map: a repeated key takes the last value, as a fold of assoc does")
	n := 0
	for _, fn := range w.Funcs {
		if isTestFunc(w, fn) || !runtimePkg(fnPkgPath(fn)) {
			continue
		}
		for _, b := range fn.Blocks {
			for _, in := range b.Instrs {
				mu, ok := in.(*ssa.MapUpdate)
				if !ok || !lispContainer(mu.Map.Type()) {
					continue
				}
				n++
				skipped := ""
				for _, a := range knownConds(b) {
					ex, ok := a.v.(*ssa.Extract)
					if !ok || ex.Index != 1 {
						continue
					}
					lk, ok := ex.Tuple.(*ssa.Lookup)
					if !ok || !lk.CommaOk {
						continue
					}
					if lk.X == mu.Map || e.keyOf(lk.X).String() == e.keyOf(mu.Map).String() {
						skipped = describeVal(e, lk.X, 0)
					}
				}
				r.check(skipped == "", rule, fn, "store into a map being built", mu.Pos(), "unconditional with respect to what the map already holds", "the store is skipped or taken depending on whether the key is already in the map being built ("+skipped+"): a repeated key does not take the last value")
			}
		}
	}
	r.floor(rule, "stores into maps being built", n, 10)
}

// formVerbRule: a form (or any lisp value that can contain forms) formatted with %v / %s drags the source
// positions stored in its Cursor fields into the text; the text then differs between deliveries of the same
// program.  Only %T (the kind) is position-free; values are shown to programs through the printer.
func formVerbRule(w *World, r *Report, rule string) {
	r.rule(rule, "no fmt.Errorf / Sprintf / Sprint in the evaluator, the builtins, the environment and the value types formats a lisp value (an interface holding forms, or List/Vector/HashMap/Set/Symbol/MalFunc) with a verb that prints its contents (%v, %s, %q, %+v, %#v): fmt would print the Cursor pointers' positions; %T and the printer are position-free")
	n := 0
	for _, fn := range w.Funcs {
		p := fnPkgPath(fn)
		if isTestFunc(w, fn) || !runtimePkg(p) || strings.HasSuffix(p, "/printer") || strings.HasSuffix(p, "/lisperror") {
			continue
		}
		for _, b := range fn.Blocks {
			for _, in := range b.Instrs {
				c, ok := in.(*ssa.Call)
				if !ok || c.Call.StaticCallee() == nil || fnPkgPath(c.Call.StaticCallee()) != "fmt" {
					continue
				}
				name := c.Call.StaticCallee().Name()
				var format string
				var ops []ssa.Value
				switch name {
				case "Errorf", "Sprintf":
					f, ok := constString(c.Call.Args[0])
					if !ok || len(c.Call.Args) < 2 {
						continue
					}
					format, ops = f, sliceLiteralElemsOrdered(c.Call.Args[1])
				case "Sprint", "Sprintln":
					ops = sliceLiteralElemsOrdered(c.Call.Args[0])
					format = strings.Repeat("%v", len(ops))
				default:
					continue
				}
				verbs := formatVerbs(format)
				for i, op := range ops {
					if i >= len(verbs) {
						break
					}
					if !carriesForms(w, unboxed(op).Type()) {
						continue
					}
					n++
					v := string(verbs[i])
					r.check(v == "T" || v == "p", rule, fn, "lisp value formatted by fmt."+name, c.Pos(), "%T only", "operand "+describeVal(nil, unboxed(op), 0)+" is formatted with %"+v+": fmt prints the source positions stored inside the value, so the text (and what catch binds) differs between deliveries of the same program")
				}
			}
		}
	}
	r.floor(rule, "lisp values formatted by fmt in the runtime packages", n, 5)
}

// carriesForms: values of this static type can hold forms with Cursor fields.
func carriesForms(w *World, t types.Type) bool {
	if isMalType(t) {
		return true
	}
	if _, name, ok := w.namedStruct(t); ok {
		switch name {
		case "List", "Vector", "HashMap", "Set", "Symbol", "MalFunc":
			return true
		}
	}
	if s, ok := t.Underlying().(*types.Slice); ok {
		return carriesForms(w, s.Elem())
	}
	return false
}

// sliceLiteralElemsOrdered: the elements of a variadic argument slice in index order.
func sliceLiteralElemsOrdered(v ssa.Value) []ssa.Value {
	sl, ok := v.(*ssa.Slice)
	if !ok {
		return nil
	}
	al, ok := sl.X.(*ssa.Alloc)
	if !ok {
		return nil
	}
	byIdx := map[int64]ssa.Value{}
	max := int64(-1)
	for _, ref := range *al.Referrers() {
		if ia, ok := ref.(*ssa.IndexAddr); ok {
			k, ok := ia.Index.(*ssa.Const)
			if !ok || k.Value == nil {
				continue
			}
			for _, u := range *ia.Referrers() {
				if st, ok := u.(*ssa.Store); ok && st.Addr == ssa.Value(ia) {
					byIdx[k.Int64()] = st.Val
					if k.Int64() > max {
						max = k.Int64()
					}
				}
			}
		}
	}
	var out []ssa.Value
	for i := int64(0); i <= max; i++ {
		out = append(out, byIdx[i])
	}
	return out
}

// noGlobalWritesRule: the given functions (with the unexported functions of their package they are built from)
// assign no package-level variable and write into no storage held by one.
func noGlobalWritesRule(w *World, r *Report, rule, what string, roots []*ssa.Function) {
	n, nf := 0, 0
	seen := map[*ssa.Function]bool{}
	for _, root := range roots {
		if root == nil {
			continue
		}
		for _, fn := range w.withPkgHelpers(root) {
			for _, g := range append([]*ssa.Function{fn}, allAnon(fn)...) {
				if seen[g] {
					continue
				}
				seen[g] = true
				nf++
				for _, b := range g.Blocks {
					for _, in := range b.Instrs {
						switch x := in.(type) {
						case *ssa.Store:
							if gl, ok := x.Addr.(*ssa.Global); ok && g.Name() != "init" && !strings.HasPrefix(gl.Name(), "init$") {
								n++
								r.bad(rule, g, "assignment to package variable "+gl.Name(), x.Pos(), what+" keeps state in a package-level variable: concurrent evaluations share and overwrite it, and its answers depend on what was asked before")
							}
							if ia, ok := x.Addr.(*ssa.IndexAddr); ok {
								if ld, ok := ia.X.(*ssa.UnOp); ok {
									if gl, ok := ld.X.(*ssa.Global); ok {
										n++
										r.bad(rule, g, "write into package variable "+gl.Name(), x.Pos(), what+" writes into storage held by a package-level variable")
									}
								}
							}
						case *ssa.MapUpdate:
							if ld, ok := x.Map.(*ssa.UnOp); ok {
								if gl, ok := ld.X.(*ssa.Global); ok {
									n++
									r.bad(rule, g, "write into package map "+gl.Name(), x.Pos(), what+" writes into a package-level map")
								}
							}
						case ssa.CallInstruction:
							// methods of the sync containers (sync.Map, sync.Pool, atomic values) on a package-level variable
							c := x.Common()
							sc := c.StaticCallee()
							if sc == nil || sc.Signature.Recv() == nil || len(c.Args) == 0 {
								continue
							}
							p := fnPkgPath(sc)
							if p != "sync" && p != "sync/atomic" {
								continue
							}
							rt := sc.Signature.Recv().Type().String()
							if strings.Contains(rt, "Mutex") || strings.Contains(rt, "Once") || strings.Contains(rt, "WaitGroup") {
								continue
							}
							if gl, ok := c.Args[0].(*ssa.Global); ok {
								switch sc.Name() {
								case "Load", "Range", "Get":
								default:
									n++
									r.bad(rule, g, "update of package-level "+gl.Name()+" ("+sc.Name()+")", x.Pos(), what+" keeps a cache or counter in a package-level variable: what it answers depends on earlier calls")
								}
							}
						}
					}
				}
			}
		}
	}
	r.add(rule, nil, "functions scanned for writes to package-level state", token.NoPos, "info", fmt.Sprintf("%d functions, %d writes", nf, n))
	if nf == 0 {
		r.undecided(rule, nil, what, token.NoPos, "no function to scan")
	}
}

// pairLoopRule: a loop that walks its arguments two at a time (key/value, index/value) must not stop one short
// of the end silently: either the count was tested for parity before, or the loop runs while i < len so that a
// dangling last argument makes the access of its partner fail (which the binder reports as an error).
func pairLoopRule(w *World, r *Report, e *Engine, rule string) {
	r.rule(rule, "a loop over arguments taken two at a time either follows a parity test of the count or is bounded by i < len (never i+1 < len): an odd count surfaces as an error instead of the last argument being dropped")
	n := 0
	for _, fn := range w.Funcs {
		if isTestFunc(w, fn) || !runtimePkg(fnPkgPath(fn)) {
			continue
		}
		for _, l := range naturalLoops(fn) {
			blocks := loopBlocks(l)
			for _, in := range l.header.Instrs {
				phi, ok := in.(*ssa.Phi)
				if !ok {
					break
				}
				if !isIntType(phi.Type()) {
					continue
				}
				self := e.keyOf(phi).String()
				step := int64(0)
				for i, op := range phi.Edges {
					if !blocks[l.header.Preds[i]] {
						continue
					}
					if t, off, ok := e.linOf(op); ok && t.Kind == 2 && t.K.String() == self {
						step = off
					}
				}
				if step != 2 {
					continue
				}
				// exit test: (i + c) < len(X)
				for b := range blocks {
					iff := blockIf(b)
					if iff == nil || (blocks[b.Succs[0]] && blocks[b.Succs[1]]) {
						continue
					}
					bo, ok := iff.Cond.(*ssa.BinOp)
					if !ok {
						continue
					}
					lt, loff, ok1 := e.linOf(bo.X)
					rt, roff, ok2 := e.linOf(bo.Y)
					if !ok1 || !ok2 {
						continue
					}
					var c int64
					var lenT Term
					switch {
					case lt.Kind == 2 && lt.K.String() == self && rt.Kind == 1 && (bo.Op == token.LSS || bo.Op == token.LEQ):
						c, lenT = loff-roff, rt
						if bo.Op == token.LEQ {
							c--
						}
					case rt.Kind == 2 && rt.K.String() == self && lt.Kind == 1 && (bo.Op == token.GTR || bo.Op == token.GEQ):
						c, lenT = roff-loff, lt
						if bo.Op == token.GEQ {
							c--
						}
					default:
						continue
					}
					n++
					if c <= 0 {
						r.ok(rule, fn, "pair loop bounded by i < len", iff.Pos(), "a dangling last argument makes the access of its partner fail")
						continue
					}
					// parity known?
					parity := false
					for _, f := range e.holding(l.header).list() {
						if f.Kind == "even" || f.Kind == "odd" || f.Kind == "parity" {
							if strings.Contains(f.String(), lenT.String()) {
								parity = true
							}
						}
					}
					// or a dominating test of len % 2
					for _, a := range knownConds(l.header) {
						if strings.Contains(describeVal(e, a.v, 0), "%") {
							parity = true
						}
					}
					r.check(parity, rule, fn, "pair loop that stops before a dangling last argument", iff.Pos(), "the count was tested for parity before", "the loop runs while i+"+fmt.Sprint(c)+" < len and nothing tested the count for parity: with an odd number of arguments the last one is silently ignored instead of being reported")
				}
			}
		}
	}
	r.floor(rule, "loops that take arguments two at a time", n, 2)
}

// stringCharsRule: the elements of a string are its characters; a piece of fixed byte width cut at the offsets
// a range loop yields is a byte, not a character.
func stringCharsRule(w *World, r *Report, rule string) {
	r.rule(rule, "inside a range loop over a string no piece of that string is cut with a fixed byte width at the loop's offset (s[i:i+k]): characters are obtained from the rune the loop yields or by splitting, so multi-byte characters stay whole")
	n := 0
	for _, fn := range w.Funcs {
		if isTestFunc(w, fn) || !runtimePkg(fnPkgPath(fn)) {
			continue
		}
		for _, b := range fn.Blocks {
			for _, in := range b.Instrs {
				nx, ok := in.(*ssa.Next)
				if !ok || !nx.IsString {
					continue
				}
				n++
				rg, _ := nx.Iter.(*ssa.Range)
				bad := token.NoPos
				for _, ref := range *nx.Referrers() {
					ex, ok := ref.(*ssa.Extract)
					if !ok || ex.Index != 1 {
						continue
					}
					for _, u := range *ex.Referrers() {
						sl, ok := u.(*ssa.Slice)
						if ok && rg != nil && sl.X == rg.X && sl.Low == ssa.Value(ex) {
							if hb, ok := sl.High.(*ssa.BinOp); ok && hb.Op == token.ADD && hb.X == ssa.Value(ex) {
								if _, isK := hb.Y.(*ssa.Const); isK {
									bad = sl.Pos()
								}
							}
						}
					}
				}
				r.check(!bad.IsValid(), rule, fn, "pieces cut from a string inside a range over it", in.Pos(), "none of fixed byte width", "s[i:i+k] at the offsets of a range loop yields the first byte(s) of each character: strings with non-ASCII characters are split into broken pieces")
			}
		}
	}
	r.add(rule, nil, "range loops over strings in the runtime packages", token.NoPos, "info", fmt.Sprintf("%d loop(s)", n))
}

// freshOrNil: nil, a new allocation, or a merge of those.
func freshOrNil(v ssa.Value, depth int) bool {
	if depth > 4 {
		return false
	}
	if isNilConst(v) {
		return true
	}
	switch x := v.(type) {
	case *ssa.Alloc:
		return true
	case *ssa.Phi:
		for _, op := range x.Edges {
			if !freshOrNil(op, depth+1) {
				return false
			}
		}
		return len(x.Edges) > 0
	}
	return false
}

// constFormatRule: the format operand of every fmt formatting call in the library is a constant: data spliced
// into the format is interpreted (a per-cent sign in a value or a name eats the operands, %w loses its error).
func constFormatRule(w *World, r *Report, rule string) {
	r.rule(rule, "every fmt.Errorf / Sprintf / Fprintf / Printf in the library has a constant format string: names and values go into operands, never into the format, where a per-cent sign in them would be interpreted (operands consumed, %w left without its error)")
	n := 0
	for _, fn := range w.Funcs {
		if isTestFunc(w, fn) || !libraryPkg(fnPkgPath(fn)) {
			continue
		}
		for _, b := range fn.Blocks {
			for _, in := range b.Instrs {
				c, ok := in.(*ssa.Call)
				if !ok || c.Call.StaticCallee() == nil || fnPkgPath(c.Call.StaticCallee()) != "fmt" {
					continue
				}
				idx := -1
				switch c.Call.StaticCallee().Name() {
				case "Errorf", "Sprintf", "Printf":
					idx = 0
				case "Fprintf":
					idx = 1
				}
				if idx < 0 || idx >= len(c.Call.Args) {
					continue
				}
				n++
				_, isConst := constString(c.Call.Args[idx])
				if _, isParam := c.Call.Args[idx].(*ssa.Parameter); isParam {
					isConst = true // a formatting function: the format is its caller's
				}
				r.check(isConst, rule, fn, "format of fmt."+c.Call.StaticCallee().Name(), c.Pos(), "constant", "the format string is computed ("+describeVal(nil, c.Call.Args[idx], 0)+"): a per-cent sign in the spliced text is interpreted as a verb")
			}
		}
	}
	r.floor(rule, "fmt formatting calls in the library", n, 20)
}

func boolInt(b bool) int {
	if b {
		return 1
	}
	return 0
}

// macroSpanRule: the span of a form the reader builds around a prefix token ('x, `x, ~x, ~@x, ^m x, @x and the
// like) ends at a token that belongs to the form.  A token fetched from the token stream after a nested form
// has been read is the token that follows the form: it belongs to the next form, possibly lines further down.
func macroSpanRule(w *World, r *Report, rule string) {
	r.rule(rule, "outside read_list, the position a reader function closes a form's span with is the cursor of a token it fetched before reading any nested form (the prefix token), or the position of a form it read: never a token fetched from the stream after a nested read, which is the first token of whatever follows (errors in top-level reader-macro forms would be reported on the lines of the next top-level form)")
	rl := w.Fn("reader", "read_list")
	rf := w.Fn("reader", "read_form")
	if rl == nil || rf == nil {
		r.undecided(rule, nil, "read_list / read_form", token.NoPos, "functions no longer resolve")
		return
	}
	// nested readers: functions of the reader that can reach read_form
	reach := w.reachableTo(rf, "reader")
	reach[rf], reach[rl] = true, true
	isTokPtr := func(t types.Type) bool {
		p, ok := t.Underlying().(*types.Pointer)
		if !ok {
			return false
		}
		nt, ok := p.Elem().(*types.Named)
		return ok && nt.Obj().Name() == "Token"
	}
	var okTok func(v ssa.Value, seen map[ssa.Value]bool) (bool, string)
	okTok = func(v ssa.Value, seen map[ssa.Value]bool) (bool, string) {
		if seen[v] {
			return true, ""
		}
		seen[v] = true
		switch x := v.(type) {
		case *ssa.Call:
			sc := x.Call.StaticCallee()
			if sc == nil || !isTokPtr(x.Type()) {
				return false, "token of unknown origin"
			}
			// fetched before any nested read of this function?
			fn := x.Parent()
			for _, b := range fn.Blocks {
				for i, in := range b.Instrs {
					c, ok := in.(*ssa.Call)
					if !ok || c == x || !reach[c.Call.StaticCallee()] {
						continue
					}
					before := false
					if b == x.Block() {
						for _, in2 := range b.Instrs[i:] {
							if in2 == ssa.Instruction(x) {
								before = true
							}
						}
					}
					if before || blockReaches(b, x.Block(), false) {
						return false, "token fetched with " + sc.Name() + "() at " + w.pos(x.Pos()) + " after the nested read at " + w.pos(c.Pos())
					}
				}
			}
			return true, ""
		case *ssa.Phi:
			for _, op := range x.Edges {
				if ok, why := okTok(op, seen); !ok {
					return false, why
				}
			}
			return true, ""
		case *ssa.Parameter:
			args := w.callSiteArgs(x)
			if len(args) == 0 {
				return false, "token parameter without call sites"
			}
			for _, a := range args {
				if ok, why := okTok(a, seen); !ok {
					return false, why
				}
			}
			return true, ""
		}
		return false, "token of unknown origin"
	}
	n := 0
	for _, fn := range w.pkgFuncs("reader") {
		if fn == rl || isTestFunc(w, fn) {
			continue
		}
		for _, b := range fn.Blocks {
			for _, in := range b.Instrs {
				c, ok := in.(*ssa.Call)
				if !ok || c.Call.StaticCallee() == nil || c.Call.StaticCallee().Name() != "Close" || len(c.Call.Args) < 2 || !strings.HasSuffix(fnPkgPath(c.Call.StaticCallee()), "/types") {
					continue
				}
				fa, ok := c.Call.Args[1].(*ssa.FieldAddr)
				if !ok || !isTokPtr(fa.X.Type()) {
					continue // the position of a form that was read
				}
				n++
				okT, why := okTok(fa.X, map[ssa.Value]bool{})
				r.check(okT, rule, fn, "end of the span of a reader-built form", c.Pos(), "the cursor of a token fetched before any nested read", "the span is closed at a token that need not belong to the form ("+why+"): it is the first token of what follows, so the form's lines run into the next form")
			}
		}
	}
	r.floor(rule, "spans closed at a token outside read_list", n, 2)
}

// reachableTo: the functions of package rel (module-relative) from which target is reachable through static calls.
func (w *World) reachableTo(target *ssa.Function, rel string) map[*ssa.Function]bool {
	out := map[*ssa.Function]bool{}
	fns := w.pkgFuncs(rel)
	for changed := true; changed; {
		changed = false
		for _, fn := range fns {
			if out[fn] {
				continue
			}
			for _, b := range fn.Blocks {
				for _, in := range b.Instrs {
					if ci, ok := in.(ssa.CallInstruction); ok {
						if sc := ci.Common().StaticCallee(); sc != nil && (sc == target || out[sc]) {
							out[fn] = true
							changed = true
						}
					}
				}
			}
		}
	}
	return out
}

// rangeErrorRule: a position outside a sequence is an error, not "nothing there": no builtin answers nil with a
// nil error on a path on which it has just established that an index computed from its arguments is not below
// the length of a sequence (index out of range is outside the domain; nil is a value a sequence can hold).
func rangeErrorRule(w *World, r *Report, e *Engine, rule string) {
	r.rule(rule, "no collection builtin returns nil without an error on a path where it has established that an index taken from its arguments is not less than the length of a list or vector (an absent position is an error, as for nth; nil would be indistinguishable from a stored nil)")
	n := 0
	seen := map[*ssa.Function]bool{}
	for _, root := range w.registeredFuncs() {
		if fnPkgPath(root) != modPath+"/lib/core" {
			continue
		}
		for _, fn := range w.withPkgHelpers(root) {
			if seen[fn] {
				continue
			}
			seen[fn] = true
			for _, d := range fn.Blocks {
				iff := blockIf(d)
				if iff == nil {
					continue
				}
				bo, ok := iff.Cond.(*ssa.BinOp)
				if !ok {
					continue
				}
				tx, _, okx := e.linOf(bo.X)
				ty, _, oky := e.linOf(bo.Y)
				if !okx || !oky {
					continue
				}
				// which edge means "index >= len"
				outEdge := -1
				switch {
				case tx.Kind == 2 && ty.Kind == 1 && bo.Op == token.LSS: // i < len
					outEdge = 1
				case tx.Kind == 2 && ty.Kind == 1 && bo.Op == token.GEQ: // i >= len
					outEdge = 0
				case tx.Kind == 1 && ty.Kind == 2 && bo.Op == token.GTR: // len > i
					outEdge = 1
				case tx.Kind == 1 && ty.Kind == 2 && bo.Op == token.LEQ: // len <= i
					outEdge = 0
				}
				if outEdge < 0 {
					continue
				}
				// the test that ends a counted loop is no verdict on a position asked for: its index is the
				// loop's own counter, and leaving the loop is the ordinary way on
				isCounter := false
				for _, side := range []ssa.Value{bo.X, bo.Y} {
					if phi, ok := side.(*ssa.Phi); ok && phi.Block() == d {
						for _, l := range naturalLoops(fn) {
							if l.header == d {
								isCounter = true
							}
						}
					}
				}
				if isCounter {
					continue
				}
				lenTerm := ty
				if tx.Kind == 1 {
					lenTerm = tx
				}
				if !strings.Contains(lenTerm.K.Path, "Val") && !strings.Contains(lenTerm.String(), "GetSlice") {
					// only lengths of lisp sequences
					if _, isCall := lenTerm.K.Root.(*ssa.Extract); !isCall {
						continue
					}
				}
				n++
				for _, rt := range (&evalModel{}).returns(fn) {
					ret := rt[0].(*ssa.Return)
					v, _ := rt[1].(ssa.Value)
					ev, _ := rt[2].(ssa.Value)
					if v == nil || ev == nil || !isNilConst(ev) || !isNilConst(v) {
						continue
					}
					if edgeDominates(d, outEdge, ret.Block()) || (len(d.Succs) == 2 && d.Succs[outEdge] == ret.Block()) {
						r.bad(rule, fn, "nil answered for a position beyond the end", ret.Pos(), "on the path where "+describeVal(e, bo, 0)+" rules the index out, the builtin returns nil and no error: an out-of-range position is outside the builtin's domain and must be an error")
					}
				}
			}
		}
	}
	r.add(rule, nil, "index-against-length tests in the collection builtins", token.NoPos, "ok", fmt.Sprintf("%d tests examined", n))
	r.floor(rule, "index-against-length tests in the collection builtins", n, 2)
}

// allElementsRule: the element-by-element comparison of two sequences looks at every position, and the
// comparison of two maps at every key: a counted loop over a sequence runs i = 0 .. len-1 (or len-1 .. 0) with
// step one, and nothing inside a comparison loop skips an element on the strength of the two values alone.
func allElementsRule(w *World, r *Report, e *Engine, rule string) {
	r.rule(rule, "in Equal_Q and the functions it is built from, a counted loop that indexes the operands visits every index (from 0 while i < len, or from len-1 while i >= 0, step 1), and within a loop that compares elements or map values the recursive comparison is reached for every element: no branch that depends on the two values themselves continues the loop without it; the outcome of each comparison decides a branch inside the loop (a difference ends it), it is not merely carried to the next lap")
	eq := w.Fn("types", "Equal_Q")
	if eq == nil {
		r.undecided(rule, nil, "types.Equal_Q", token.NoPos, "function no longer resolves")
		return
	}
	n := 0
	for _, f := range w.withPkgHelpers(eq) {
		for _, l := range naturalLoops(f) {
			blocks := loopBlocks(l)
			// does the loop compare elements? (a recursive call of Equal_Q inside)
			var rec *ssa.Call
			for b := range blocks {
				for _, in := range b.Instrs {
					if c, ok := in.(*ssa.Call); ok && c.Call.StaticCallee() == eq {
						rec = c
					}
				}
			}
			if rec == nil {
				continue
			}
			n++
			// (1) counted loops: the induction variable that indexes the operands
			for _, in := range l.header.Instrs {
				phi, ok := in.(*ssa.Phi)
				if !ok {
					break
				}
				if !isIntType(phi.Type()) {
					continue
				}
				usedAsIndex := false
				for b := range blocks {
					for _, in2 := range b.Instrs {
						switch x := in2.(type) {
						case *ssa.IndexAddr:
							if x.Index == ssa.Value(phi) {
								usedAsIndex = true
							}
						case *ssa.Index:
							if x.Index == ssa.Value(phi) {
								usedAsIndex = true
							}
						}
					}
				}
				if !usedAsIndex {
					continue // the hidden counter of a range loop
				}
				var init, step ssa.Value
				for i, op := range phi.Edges {
					if blocks[l.header.Preds[i]] {
						step = op
					} else {
						init = op
					}
				}
				up, down := false, false
				if bo, ok := step.(*ssa.BinOp); ok && bo.X == ssa.Value(phi) {
					if k, ok := bo.Y.(*ssa.Const); ok && k.Value != nil && k.Int64() == 1 {
						up, down = bo.Op == token.ADD, bo.Op == token.SUB
					}
				}
				okLoop := false
				why := "step is not one"
				if iff := blockIf(l.header); iff != nil {
					if c, ok := iff.Cond.(*ssa.BinOp); ok && c.X == ssa.Value(phi) {
						switch {
						case up:
							ik, isK := init.(*ssa.Const)
							ty, _, okLen := e.linOf(c.Y)
							okLoop = isK && ik.Value != nil && ik.Int64() == 0 && c.Op == token.LSS && okLen && ty.Kind == 1
							why = "an ascending loop must run from 0 while i < len"
						case down:
							ti, off, okI := e.linOf(init)
							yk, isK := c.Y.(*ssa.Const)
							okLoop = okI && ti.Kind == 1 && off == -1 && isK && yk.Value != nil && ((c.Op == token.GEQ && yk.Int64() == 0) || (c.Op == token.GTR && yk.Int64() == -1))
							why = "a descending loop must run from len-1 while i >= 0"
						}
					}
				}
				r.check(okLoop, rule, f, "indices visited by the element loop", phi.Pos(), "every index of the sequence", "the loop that compares the elements does not visit every index ("+why+"): sequences that differ only at a skipped position compare equal, and equality stops being symmetric between lists and vectors")
			}
			// (2) the recursive comparison is not skipped on the strength of the values
			for b := range blocks {
				iff := blockIf(b)
				if iff == nil || b == l.header {
					continue
				}
				// a branch one of whose edges returns to the header without passing the comparison, decided by
				// a call on the element values (anything but the comma-ok presence test)
				for i, succ := range b.Succs {
					if !blocks[succ] {
						continue
					}
					skips := succ == l.header || (succ != rec.Block() && !rec.Block().Dominates(succ) && !blockReachesWithin(succ, rec.Block(), blocks, l.header))
					if !skips || rec.Block() == b || rec.Block().Dominates(b) {
						continue
					}
					dependsOnValues := false
					for _, a := range condsOf(b, iff.Cond, i == 0) {
						if c, ok := a.v.(*ssa.Call); ok && c.Call.StaticCallee() != nil && inModule(c.Call.StaticCallee()) {
							dependsOnValues = true
						}
					}
					if dependsOnValues {
						r.bad(rule, f, "element skipped without being compared", iff.Pos(), "inside the comparison loop a test on the two values ("+describeVal(e, iff.Cond, 0)+") continues with the next element without comparing them: values that differ but pass that test are taken for equal, so equal maps can hold unequal values under a key")
					}
				}
			}
			// (3) a comparison that fails ends the loop: its result is a branch condition inside the loop (or is
			// and-ed into what the loop carries), never just assigned to a variable the next lap overwrites
			decides := false
			var use func(v ssa.Value, depth int)
			use = func(v ssa.Value, depth int) {
				if v == nil || v.Referrers() == nil || depth > 3 {
					return
				}
				for _, ref := range *v.Referrers() {
					switch u := ref.(type) {
					case *ssa.If:
						if blocks[u.Block()] {
							decides = true
						}
					case *ssa.UnOp:
						use(u, depth+1)
					case *ssa.BinOp:
						use(u, depth+1) // and-ed / compared: the combination is followed
					case *ssa.Phi:
						// a boolean merge inside the loop body (&&, ||) is followed; the loop-carried variable is not
						if u.Block() != l.header && blocks[u.Block()] {
							use(u, depth+1)
						}
					}
				}
			}
			use(rec, 0)
			r.check(decides, rule, f, "outcome of the element comparison", rec.Pos(), "decides a branch inside the loop", "the result of comparing one pair of elements is only stored for later (the next pair's result replaces it): sequences that end in equal elements compare equal whatever comes before")
		}
	}
	r.floor(rule, "loops comparing elements in Equal_Q", n, 2)
}

// blockReachesWithin: from a there is a path to b that stays inside blocks and does not pass through header.
func blockReachesWithin(a, b *ssa.BasicBlock, blocks map[*ssa.BasicBlock]bool, header *ssa.BasicBlock) bool {
	if a == b {
		return true
	}
	seen := map[*ssa.BasicBlock]bool{a: true}
	work := []*ssa.BasicBlock{a}
	for len(work) > 0 {
		x := work[len(work)-1]
		work = work[:len(work)-1]
		for _, s := range x.Succs {
			if seen[s] || !blocks[s] || s == header {
				continue
			}
			if s == b {
				return true
			}
			seen[s] = true
			work = append(work, s)
		}
	}
	return false
}

// isPositionFn: part of the position machinery of package types: a method of Position, or a function that hands
// out a Position (wherever in the package it is written).
func isPositionFn(fn *ssa.Function) bool {
	isPos := func(t types.Type) bool {
		if p, ok := t.(*types.Pointer); ok {
			t = p.Elem()
		}
		nt, ok := t.(*types.Named)
		return ok && nt.Obj().Name() == "Position" && nt.Obj().Pkg() != nil && nt.Obj().Pkg().Path() == modPath+"/types"
	}
	root := fn
	for root.Parent() != nil {
		root = root.Parent()
	}
	if recv := root.Signature.Recv(); recv != nil && isPos(recv.Type()) {
		return true
	}
	res := root.Signature.Results()
	for i := 0; i < res.Len(); i++ {
		if isPos(res.At(i).Type()) {
			return true
		}
	}
	return false
}

// applyArgsRule: (apply f a b … xs) calls f with a, b, … followed by the elements of xs: every argument list the
// apply builtin hands to types.Apply is made of both parts - the leading arguments and the spread sequence - and
// a shortcut that passes only one of them is taken only where the other one is known to be empty.
func applyArgsRule(w *World, r *Report, e *Engine, rule string) {
	r.rule(rule, "the apply builtin passes on the leading arguments followed by the elements of its last argument on every path: an argument slice that contains only one of the two parts is used only under the test that the other part is empty")
	ap := w.builtin("apply")
	target := w.Fn("types", "Apply")
	getSlice := w.Fn("types", "GetSlice")
	if ap == nil || target == nil || getSlice == nil || len(ap.Params) == 0 {
		r.undecided(rule, nil, "apply / types.Apply / types.GetSlice", token.NoPos, "functions no longer resolve")
		return
	}
	variadic := ssa.Value(ap.Params[len(ap.Params)-1])
	var sources func(v ssa.Value, depth int) (lead, last bool)
	sources = func(v ssa.Value, depth int) (bool, bool) {
		if depth > 10 {
			return false, false
		}
		switch x := v.(type) {
		case *ssa.Slice:
			if x.X == variadic {
				return true, false
			}
			return sources(x.X, depth+1)
		case *ssa.Extract:
			if c, ok := x.Tuple.(*ssa.Call); ok && c.Call.StaticCallee() == getSlice && x.Index == 0 {
				return false, true
			}
		case *ssa.Phi:
			ld, la := false, false
			for _, op := range x.Edges {
				a, b := sources(op, depth+1)
				ld, la = ld || a, la || b
			}
			return ld, la
		case *ssa.Call:
			if bi, ok := x.Call.Value.(*ssa.Builtin); ok && bi.Name() == "append" {
				a1, b1 := sources(x.Call.Args[0], depth+1)
				a2, b2 := false, false
				if len(x.Call.Args) > 1 {
					a2, b2 = sources(x.Call.Args[1], depth+1)
				}
				return a1 || a2, b1 || b2
			}
		}
		return false, false
	}
	n := 0
	for _, f := range w.withPkgHelpers(ap) {
		if f != ap {
			continue
		}
		for _, c := range staticCallsTo(f, target) {
			if len(c.Call.Args) < 3 {
				continue
			}
			n++
			lead, last := sources(c.Call.Args[2], 0)
			// emptiness tests in force at the call
			leadEmpty, lastEmpty := false, false
			for _, a := range knownConds(c.Block()) {
				bo, ok := a.v.(*ssa.BinOp)
				if !ok {
					continue
				}
				k, isK := bo.Y.(*ssa.Const)
				lc, isLen := bo.X.(*ssa.Call)
				if !isK || !isLen || k.Value == nil || k.Int64() != 0 {
					continue
				}
				if bi, ok := lc.Call.Value.(*ssa.Builtin); !ok || bi.Name() != "len" {
					continue
				}
				isZero := (bo.Op == token.EQL && a.pol) || (bo.Op == token.NEQ && !a.pol) || (bo.Op == token.GTR && !a.pol) || (bo.Op == token.LEQ && a.pol)
				if !isZero {
					continue
				}
				ld, la := sources(lc.Call.Args[0], 0)
				leadEmpty = leadEmpty || (ld && !la)
				lastEmpty = lastEmpty || (la && !ld)
			}
			ok := (lead || leadEmpty) && (last || lastEmpty)
			what := "neither part"
			switch {
			case lead && !last:
				what = "the leading arguments only"
			case last && !lead:
				what = "the spread sequence only"
			case lead && last:
				what = "both parts"
			}
			r.check(ok, rule, f, "argument list handed on by apply", c.Pos(), what+" (the other part known empty where left out)", "apply calls the function with "+what+" on a path where the other part is not known to be empty: arguments are dropped, so the callee sees fewer arguments than the program passed")
		}
	}
	r.floor(rule, "calls of types.Apply in the apply builtin", n, 1)
}

// nilBranchRule: on the way down a path (get-in, assoc-in, update-in) a branch that is missing *or nil* reads as an
// empty collection - the three builtins agree on it, and get-in reads through what the other two write
// through. The empty default is therefore chosen by testing the looked-up value for nil, not by testing the
// presence of the key (a key bound to nil would otherwise be an error for assoc-in/update-in and nil for get-in).
func nilBranchRule(w *World, r *Report, e *Engine, rule string) {
	r.rule(rule, "in the nested-path builtins (get-in, assoc-in, update-in and the functions they are built from) the empty collection that stands in for an absent branch is selected by a test of the looked-up value against nil: a key bound to nil is read through and written through like a missing key, in all three alike")
	n := 0
	seen := map[*ssa.Function]bool{}
	for _, name := range []string{"get-in", "assoc-in", "update-in"} {
		root := w.builtin(name)
		if root == nil {
			r.undecided(rule, nil, name, token.NoPos, "builtin no longer resolves")
			continue
		}
		for _, f := range w.withPkgHelpers(root) {
			if seen[f] {
				continue
			}
			seen[f] = true
			for _, b := range f.Blocks {
				for _, in := range b.Instrs {
					phi, ok := in.(*ssa.Phi)
					if !ok || !isMalType(phi.Type()) {
						continue
					}
					// a merge of a looked-up element with an empty collection literal
					var looked ssa.Value
					var defIdx = -1
					for i, op := range phi.Edges {
						switch x := op.(type) {
						case *ssa.MakeInterface:
							if ld, ok := x.X.(*ssa.UnOp); ok {
								if al, ok := ld.X.(*ssa.Alloc); ok && al.Comment == "complit" && len(*al.Referrers()) <= 2 {
									defIdx = i
								}
							}
							if _, isC := x.X.(*ssa.Const); isC {
								defIdx = i
							}
						case *ssa.Lookup, *ssa.Extract:
							looked = op
						case *ssa.UnOp:
							if _, isIA := x.X.(*ssa.IndexAddr); isIA {
								looked = op
							}
						}
					}
					if looked == nil || defIdx < 0 {
						continue
					}
					n++
					// the test that sends control to the default
					pred := b.Preds[defIdx]
					okNil := false
					what := "no test found"
					for _, d := range f.Blocks {
						iff := blockIf(d)
						if iff == nil || !(d == pred || edgeDominates(d, 0, pred) || edgeDominates(d, 1, pred) || d.Succs[0] == pred || d.Succs[1] == pred) {
							continue
						}
						if bo, ok := iff.Cond.(*ssa.BinOp); ok && (bo.Op == token.EQL || bo.Op == token.NEQ) && isNilConst(bo.Y) {
							if bo.X == looked {
								okNil = true
							}
							if ex, ok := looked.(*ssa.Extract); ok && bo.X == ssa.Value(ex) {
								okNil = true
							}
						} else if d == pred || d.Succs[0] == pred || d.Succs[1] == pred {
							what = describeVal(e, iff.Cond, 0)
						}
					}
					r.check(okNil, rule, f, "test that selects the empty default branch", phi.Pos(), "the looked-up value compared with nil", "the empty collection is substituted on the strength of "+what+", not because the looked-up value is nil: a key that is present but bound to nil is no longer treated like a missing one (get-in still reads through it, assoc-in/update-in then fail on it)")
				}
			}
		}
	}
	r.floor(rule, "defaulted branches in the nested-path builtins", n, 4)
}

// builtinRepositionRule: when a builtin fails, the error is positioned at the call form - whatever position it may
// carry already (a builtin that evaluates or reads text returns errors with coordinates of that other text).
func builtinRepositionRule(w *World, r *Report, e *Engine, rule string) {
	m := newEvalModel(w, e)
	nle := w.Fn("lisperror", "NewLispError")
	if !m.ok || nle == nil {
		r.undecided(rule, nil, "evaluator model / NewLispError", token.NoPos, "not available")
		return
	}
	n := 0
	isRepositioned := func(ev ssa.Value) bool {
		if mi, ok := ev.(*ssa.MakeInterface); ok {
			if nc, ok := mi.X.(*ssa.Call); ok && nc.Call.StaticCallee() == nle {
				return true
			}
		}
		if nc, ok := ev.(*ssa.Call); ok {
			if _, isDeco := errDecorator(nc.Call.StaticCallee()); isDeco {
				return true
			}
		}
		return false
	}
	// every return of fn whose error comes from the call c: repositioned there, or - in a function of the package
	// that the application region calls - handed back to be repositioned by the caller
	var follow func(fn *ssa.Function, c *ssa.Call, depth int)
	follow = func(fn *ssa.Function, c *ssa.Call, depth int) {
		errEx := extractOf(c, 1)
		if errEx == nil || depth > 3 {
			return
		}
		for _, rt := range m.returns(fn) {
			ret := rt[0].(*ssa.Return)
			ev, _ := rt[2].(ssa.Value)
			if ev == nil || isNilConst(ev) || !(c.Block() == ret.Block() || c.Block().Dominates(ret.Block())) || !derivesFromErr(ev, errEx, 0) {
				continue
			}
			if isRepositioned(ev) {
				n++
				// ... at the call form itself, not at one of its operands (a fault reported at the condition of an
				// assert that starts on a later line does not cover the line the failing form starts on)
				atForm := true
				carrier := ""
				if mi, ok := ev.(*ssa.MakeInterface); ok && fn == m.EVAL {
					if nc, ok := mi.X.(*ssa.Call); ok && nc.Call.StaticCallee() == nle && len(nc.Call.Args) == 2 {
						// an operand of the form: an element of its list, or a variable that holds nil or such an element
						fk := m.formKey()
						var isPart func(v ssa.Value, depth int) bool
						isPart = func(v ssa.Value, depth int) bool {
							v = unboxed(v)
							if depth > 4 || fk == "" {
								return false
							}
							if phi, ok := v.(*ssa.Phi); ok {
								parts := 0
								for _, op := range phi.Edges {
									if isNilConst(op) {
										continue
									}
									if !isPart(op, depth+1) {
										return false
									}
									parts++
								}
								return parts > 0
							}
							k := e.keyOf(v).String()
							return k != fk && strings.HasPrefix(k, fk+".") && strings.Contains(k[len(fk):], ".Val[")
						}
						if isPart(nc.Call.Args[1], 0) {
							atForm, carrier = false, describeVal(e, nc.Call.Args[1], 0)
						}
					}
				}
				r.check(atForm, rule, fn, "error of a failing builtin call", ret.Pos(), "positioned at the call form (NewLispError(err, form))", "the error a builtin returned is positioned at an operand of the call ("+carrier+") instead of the call form: the reported rows need not cover the line the failing form starts on")
				continue
			}
			if fn != m.EVAL {
				sites := 0
				for _, site := range e.callSites(fn) {
					sc, ok := site.(*ssa.Call)
					if !ok || site.Parent() == nil || site.Parent().Pkg != m.EVAL.Pkg || isTestFunc(w, site.Parent()) {
						continue
					}
					sites++
					follow(site.Parent(), sc, depth+1)
				}
				if sites > 0 {
					continue
				}
			}
			n++
			r.check(false, rule, fn, "error of a failing builtin call", ret.Pos(), "positioned at the call form (NewLispError(err, form))", "on this path the error a builtin returned leaves EVAL as it came: if it carries coordinates of its own (a library callback, text read by the builtin) the failure is reported there, not at the failing call of the program")
		}
	}
	isBuiltinCall := func(in ssa.Instruction) *ssa.Call {
		c, ok := in.(*ssa.Call)
		if !ok || c.Call.StaticCallee() != nil || c.Call.IsInvoke() {
			return nil
		}
		if _, isB := c.Call.Value.(*ssa.Builtin); isB {
			return nil
		}
		if c.Call.Signature().Results().Len() != 2 {
			return nil
		}
		return c
	}
	seenH := map[*ssa.Function]bool{}
	for _, b := range m.EVAL.Blocks {
		if !m.defaultRegion[b] {
			continue
		}
		for _, in := range b.Instrs {
			if c := isBuiltinCall(in); c != nil {
				follow(m.EVAL, c, 0)
				continue
			}
			// a function of the package that makes the call for the application region
			if sc, ok := in.(*ssa.Call); ok {
				h := sc.Call.StaticCallee()
				if h == nil || h.Pkg != m.EVAL.Pkg || h == m.EVAL || m.isCore(h) || seenH[h] || len(h.Blocks) == 0 {
					continue
				}
				seenH[h] = true
				for _, hb := range h.Blocks {
					for _, hin := range hb.Instrs {
						if c := isBuiltinCall(hin); c != nil {
							follow(h, c, 0)
						}
					}
				}
			}
		}
	}
	r.floor(rule, "error returns of builtin calls in the application region", n, 1)
}

// symbolBuiltForToken: v is a Symbol literal whose Cursor is the position of a token (its Cursor field or
// GetPosition()), or the result of a helper of the module all of whose returns are such literals.
func symbolBuiltForToken(w *World, v ssa.Value, depth int) bool {
	v = unboxed(v)
	if c, ok := v.(*ssa.Call); ok && depth < 3 {
		callee := c.Call.StaticCallee()
		if callee == nil || !inModule(callee) || len(callee.Blocks) == 0 || callee.Signature.Results().Len() != 1 {
			return false
		}
		n := 0
		for _, b := range callee.Blocks {
			if ret, ok := b.Instrs[len(b.Instrs)-1].(*ssa.Return); ok {
				if !symbolBuiltForToken(w, resolveRet(ret.Results[0]), depth+1) {
					return false
				}
				n++
			}
		}
		return n > 0
	}
	ld, ok := v.(*ssa.UnOp)
	if !ok || ld.Op != token.MUL {
		return false
	}
	al, ok := ld.X.(*ssa.Alloc)
	if !ok || al.Comment != "complit" {
		return false
	}
	for _, ref := range *al.Referrers() {
		fa, ok := ref.(*ssa.FieldAddr)
		if !ok || fieldName(fa.X.Type(), fa.Field) != "Cursor" {
			continue
		}
		for _, u2 := range *fa.Referrers() {
			if st, ok := u2.(*ssa.Store); ok && st.Addr == ssa.Value(fa) {
				if cfa, ok := st.Val.(*ssa.FieldAddr); ok && fieldName(cfa.X.Type(), cfa.Field) == "Cursor" && isTokenStruct(cfa.X.Type()) {
					return true
				}
				if c, ok := st.Val.(*ssa.Call); ok && c.Call.StaticCallee() != nil && c.Call.StaticCallee().Name() == "GetPosition" {
					return true
				}
			}
		}
	}
	return false
}

// countArithRule: a count the program supplies can be any integer, the most negative one included. Where a
// collection builtin subtracts such a count from a length, the count is known not to be negative at that
// point (a clamp, or an error for negative counts, comes first): len - n with n near the smallest integer
// wraps round to a negative start, the clamp that follows turns that into 0, and the whole sequence is
// returned where nothing should be.
func countArithRule(w *World, r *Report, e *Engine, rule string) {
	r.rule(rule, "in the collection builtins and the functions they are built from, an integer that comes from the program (an int parameter, or an argument asserted to be an int) is subtracted from a length only where it is proven non-negative: the difference cannot wrap round, so extreme counts behave like any other out-of-range count")
	fromProgram := func(v ssa.Value) bool {
		seen := map[ssa.Value]bool{}
		var walk func(v ssa.Value, depth int) bool
		walk = func(v ssa.Value, depth int) bool {
			if seen[v] || depth > 8 {
				return false
			}
			seen[v] = true
			switch x := v.(type) {
			case *ssa.Parameter:
				if !isIntType(x.Type()) {
					return false
				}
				// a parameter of a helper: what its callers pass
				if fn := x.Parent(); fn != nil && fn.Parent() == nil && fn.Object() != nil && !fn.Object().Exported() && !w.isRegistered(fn) {
					for _, a := range w.callSiteArgs(x) {
						if walk(a, depth+1) {
							return true
						}
					}
					return false
				}
				return true
			case *ssa.Call:
				// the result of a helper that hands back (a clamped form of) a count it was given
				if callee := x.Call.StaticCallee(); callee != nil && inModule(callee) && len(callee.Blocks) > 0 && isIntType(x.Type()) {
					for _, cb := range callee.Blocks {
						if ret, ok := cb.Instrs[len(cb.Instrs)-1].(*ssa.Return); ok && len(ret.Results) == 1 {
							if p, isP := ret.Results[0].(*ssa.Parameter); isP {
								for i, q := range callee.Params {
									if q == p && i < len(x.Call.Args) && walk(x.Call.Args[i], depth+1) {
										return true
									}
								}
							}
							if phi, isPhi := ret.Results[0].(*ssa.Phi); isPhi {
								for _, ed := range phi.Edges {
									if p, isP := ed.(*ssa.Parameter); isP {
										for i, q := range callee.Params {
											if q == p && i < len(x.Call.Args) && walk(x.Call.Args[i], depth+1) {
												return true
											}
										}
									}
								}
							}
						}
					}
				}
				return false
			case *ssa.TypeAssert:
				return isIntType(x.AssertedType)
			case *ssa.Extract:
				if ta, ok := x.Tuple.(*ssa.TypeAssert); ok && x.Index == 0 {
					return isIntType(ta.AssertedType)
				}
			case *ssa.Convert:
				return walk(x.X, depth+1)
			case *ssa.Phi:
				for _, ed := range x.Edges {
					if walk(ed, depth+1) {
						return true
					}
				}
			}
			return false
		}
		return walk(v, 0)
	}
	// a length: len(x), or a parameter of a helper that is handed a length at every call
	var lengthLike func(v ssa.Value, depth int) bool
	lengthLike = func(v ssa.Value, depth int) bool {
		if t, _, ok := e.linOf(v); ok && t.Kind == 1 {
			return true
		}
		p, ok := v.(*ssa.Parameter)
		if !ok || depth > 3 || p.Parent() == nil || p.Parent().Object() == nil || p.Parent().Object().Exported() || w.isRegistered(p.Parent()) {
			return false
		}
		args := w.callSiteArgs(p)
		for _, a := range args {
			if !lengthLike(a, depth+1) {
				return false
			}
		}
		return len(args) > 0
	}
	seenF := map[*ssa.Function]bool{}
	n := 0
	for _, root := range w.registeredFuncs() {
		if !strings.HasPrefix(fnPkgPath(root), modPath+"/lib/core") {
			continue
		}
		for _, fn := range w.withPkgHelpers(root) {
			if seenF[fn] {
				continue
			}
			seenF[fn] = true
			for _, b := range fn.Blocks {
				for _, in := range b.Instrs {
					bo, ok := in.(*ssa.BinOp)
					if !ok || bo.Op != token.SUB || !isIntType(bo.Type()) {
						continue
					}
					if !lengthLike(bo.X, 0) {
						continue // not a length
					}
					if !fromProgram(bo.Y) {
						continue
					}
					n++
					okLo, why := e.proveGE0(bo.Y, b)
					r.check(okLo, rule, fn, "count subtracted from a length: "+nz(w.srcExpr(bo), describeVal(e, bo, 0)), bo.Pos(), "the count is known to be >= 0 here", "a count supplied by the program is subtracted from a length without being known non-negative ("+why+"): for counts near the smallest integer the difference wraps round, and the builtin returns the whole sequence (or a wrong part of it) instead of what an out-of-range count gives")
				}
			}
		}
	}
	r.floor(rule, "program-supplied counts subtracted from lengths", n, 2)
}

// lnotationTotalRule: the L-notation constructors build the form the reader would build from the
// corresponding text, element for element. In each loop of the package that runs over an argument, every
// lap puts something into the result (a map update, an append, an element store): no path round the loop
// skips the element, so no entry - one whose value is nil, say - is left out of the form.
func lnotationTotalRule(w *World, r *Report, rule string) {
	r.rule(rule, "in every loop of package lnotation each iteration stores into the collection being built (map update, append or element store) on every path back to the loop header: the constructed form has every element and entry of the Go value it was built from, as the reader keeps every element of the text")
	n := 0
	for _, fn := range w.Funcs {
		if isTestFunc(w, fn) || fnPkgPath(fn) != modPath+"/lnotation" || len(fn.Blocks) == 0 {
			continue
		}
		for _, l := range naturalLoops(fn) {
			blocks := loopBlocks(l)
			stores := func(b *ssa.BasicBlock) bool {
				for _, in := range b.Instrs {
					switch x := in.(type) {
					case *ssa.MapUpdate:
						return true
					case *ssa.Store:
						if _, ok := x.Addr.(*ssa.IndexAddr); ok {
							return true
						}
					case *ssa.Call:
						if bi, ok := x.Call.Value.(*ssa.Builtin); ok && bi.Name() == "append" {
							return true
						}
					}
				}
				return false
			}
			n++
			// a path from the header round to the header through blocks that store nothing
			skip := false
			seen := map[*ssa.BasicBlock]bool{}
			var stack []*ssa.BasicBlock
			for _, s := range l.header.Succs {
				if blocks[s] {
					stack = append(stack, s)
				}
			}
			if stores(l.header) {
				stack = nil
			}
			for len(stack) > 0 {
				b := stack[len(stack)-1]
				stack = stack[:len(stack)-1]
				if b == l.header {
					skip = true
					break
				}
				if seen[b] || !blocks[b] || stores(b) {
					continue
				}
				seen[b] = true
				stack = append(stack, b.Succs...)
			}
			r.check(!skip, rule, fn, "loop over the argument", instrPos(l.header.Instrs[len(l.header.Instrs)-1]), "every lap stores into the result", "an iteration can go round without storing anything into the collection being built: the element or entry it looked at is missing from the form (the reader keeps it), so the same program built from Go has a different AST")
		}
	}
	r.floor(rule, "loops of package lnotation", n, 3)
}

// positionWrites: every store into a field of a Position, in the functions selected, goes to a Position
// allocated in the same activation. Returns the number of such stores.
func positionWrites(w *World, r *Report, e *Engine, rule string, in func(*ssa.Function) bool) int {
	npi := 0
	for _, fn := range w.Funcs {
		if isTestFunc(w, fn) || !in(fn) {
			continue
		}
		for _, b := range fn.Blocks {
			for _, in := range b.Instrs {
				st, ok := in.(*ssa.Store)
				if !ok {
					continue
				}
				fa, ok := st.Addr.(*ssa.FieldAddr)
				if !ok {
					continue
				}
				if _, name, ok := w.namedStruct(derefType(fa.X.Type())); !ok || name != "Position" {
					continue
				}
				npi++
				base := fa.X
				for {
					inner, ok := base.(*ssa.FieldAddr) // a Position embedded in a struct that is being built
					if !ok {
						break
					}
					base = inner.X
				}
				r.check(e.freshPtr(base, 1), rule, fn, "write to Position."+fieldName(fa.X.Type(), fa.Field), st.Pos(), "the Position was allocated in this activation", "a Position that came from outside ("+describeVal(e, fa.X, 0)+") is written in place: every holder of that position (the caller's cursor, tokens, forms, errors) sees the change")
			}
		}
	}
	return npi
}

// moduleAsGivenRule: a position names the module the program was read under - the name the caller gave,
// character for character. The cursor constructors of package types that take a module name store the
// address of their own name parameter, which nothing else is assigned to: the name is not cleaned,
// shortened, resolved or re-cased on the way into the position.
func moduleAsGivenRule(w *World, r *Report, e *Engine, rule string) {
	n := 0
	for _, fn := range w.pkgFuncs("types") {
		if fn.Parent() != nil || fn.Signature.Recv() != nil || len(fn.Blocks) == 0 {
			continue
		}
		res := fn.Signature.Results()
		if res.Len() != 1 {
			continue
		}
		if _, name, ok := w.namedStruct(res.At(0).Type()); !ok || name != "Position" {
			continue
		}
		var nameParam *ssa.Parameter
		for _, p := range fn.Params {
			if isBasic(p.Type(), types.String) {
				nameParam = p
			}
		}
		if nameParam == nil {
			continue
		}
		{
			for _, pw := range positionFieldWrites(w, fn, false) {
				if pw.field != "Module" {
					continue
				}
				st := pw
				n++
				okName := false
				if cell, isCell := pw.val.(*ssa.Alloc); isCell {
					stores := 0
					onlyParam := true
					for _, ref := range *cell.Referrers() {
						if s2, ok := ref.(*ssa.Store); ok && s2.Addr == ssa.Value(cell) {
							stores++
							if s2.Val != ssa.Value(nameParam) {
								onlyParam = false
							}
						}
					}
					okName = stores >= 1 && onlyParam
				}
				r.check(okName, rule, fn, "module name stored in the position", st.pos, "the name parameter as given", "the module name is rewritten before it is stored ("+describeVal(e, st.val, 0)+"): positions - and so every run-time error - name a module other than the one the program was read under")
			}
		}
	}
	r.floor(rule, "cursor constructors that take a module name", n, 2)
}

// seqErrorUsedRule: "is this argument a sequence" is answered by the error of the sequence accessor. A builtin
// that calls the accessor on an argument whose kind it has not established, and drops that error, treats every
// other kind of value as the empty sequence: a wrong value where the definition prescribes an error.
func seqErrorUsedRule(w *World, r *Report, e *Engine, rule string) {
	r.rule(rule, "in the collection builtins (registered functions of lib/core and the functions they are built from) every call of the sequence accessor on a value not already known to be a list or a vector binds the accessor's error and tests it: no builtin answers for a non-sequence as if it were empty")
	gs := w.Fn("types", "GetSlice")
	if gs == nil {
		r.undecided(rule, nil, "types.GetSlice", token.NoPos, "function no longer resolves")
		return
	}
	tsc := w.ByPath[modPath+"/types"].Types.Scope()
	listT, vecT := tsc.Lookup("List").Type(), tsc.Lookup("Vector").Type()
	seen := map[*ssa.Function]bool{}
	n := 0
	for _, root := range w.registeredFuncs() {
		if !strings.HasPrefix(fnPkgPath(root), modPath+"/lib/core") {
			continue
		}
		for _, fn := range w.withPkgHelpers(root) {
			if seen[fn] {
				continue
			}
			seen[fn] = true
			for _, c := range staticCallsTo(fn, gs) {
				n++
				if okL, _ := e.hasType(c.Call.Args[0], listT, c.Block()); okL {
					continue
				}
				if okV, _ := e.hasType(c.Call.Args[0], vecT, c.Block()); okV {
					continue
				}
				if typedOnAllPaths(e, c.Call.Args[0], c.Block(), []types.Type{listT, vecT}, map[*ssa.BasicBlock]bool{}) {
					continue // `case List, Vector:`
				}
				errEx := extractOf(c, 1)
				tested := false
				if errEx != nil {
					for _, ref := range *errEx.Referrers() {
						switch u := ref.(type) {
						case *ssa.BinOp:
							tested = true
						case *ssa.Return, *ssa.Store, *ssa.Phi:
							tested = true // handed on or kept: somebody looks at it
							_ = u
						}
					}
				}
				// `return GetSlice(x)`: the results go to the caller as they are
				for _, ref := range *c.Referrers() {
					if _, isRet := ref.(*ssa.Return); isRet {
						tested = true
					}
				}
				r.check(tested, rule, fn, "error of the sequence accessor", c.Pos(), "bound and tested", "the accessor's error is dropped: for an argument that is neither a list nor a vector ("+describeVal(e, c.Call.Args[0], 0)+") the builtin goes on with no elements and answers as for the empty sequence, where it has to fail")
			}
		}
	}
	r.floor(rule, "calls of the sequence accessor in the collection builtins", n, 4)
}

// fabricatedPositionRule: a form made while a program runs (by a builtin, by quasiquote) has no position, and
// an error raised in it then carries none. It must not be given a made-up one: a Cursor that is non-nil but
// says nothing (a Position literal without rows or module) is taken for a real position by the error
// constructors, and the error is reported at line 0 of no module instead of staying unpositioned.
func fabricatedPositionRule(w *World, r *Report, rule string) {
	r.rule(rule, "no function reachable from evaluation (the evaluator, Apply, the registered builtins) stores into the Cursor of a form a Position it has just allocated and left empty: values built at run time either carry a real position or none")
	reach := w.reachableFrom(append(evalEntries(w), w.registeredFuncs()...))
	n := 0
	for fn := range reach {
		if isTestFunc(w, fn) || strings.HasSuffix(fnPkgPath(fn), "/reader") {
			continue
		}
		for _, b := range fn.Blocks {
			for _, in := range b.Instrs {
				st, ok := in.(*ssa.Store)
				if !ok {
					continue
				}
				fa, ok := st.Addr.(*ssa.FieldAddr)
				if !ok || fieldName(fa.X.Type(), fa.Field) != "Cursor" {
					continue
				}
				n++
				al, ok := st.Val.(*ssa.Alloc)
				if !ok {
					continue
				}
				if _, name, ok := w.namedStruct(al.Type()); !ok || name != "Position" {
					continue
				}
				filled := false
				for _, ref := range *al.Referrers() {
					if fa2, ok := ref.(*ssa.FieldAddr); ok {
						for _, u := range *fa2.Referrers() {
							if s2, ok := u.(*ssa.Store); ok && s2.Addr == ssa.Value(fa2) {
								filled = true
							}
						}
					}
					if s2, ok := ref.(*ssa.Store); ok && s2.Addr == ssa.Value(al) {
						filled = true
					}
				}
				r.check(filled, rule, fn, "position given to a value built at run time", st.Pos(), "a position with content, or none", "an empty Position is allocated and stored as the Cursor of a new value: errors raised in forms built from it (the calls a macro generates) are positioned at row 0 of no module, where without it they would be positioned at the enclosing form or not at all")
			}
		}
	}
	r.add(rule, nil, "assignments to Cursor fields reachable from evaluation", token.NoPos, "ok", fmt.Sprintf("%d examined", n))
	r.floor(rule, "assignments to Cursor fields reachable from evaluation", n, 3)
}

// naturalLoopsWithHeader: the natural loops of fn whose header is b.
func naturalLoopsWithHeader(fn *ssa.Function, b *ssa.BasicBlock) []natLoop {
	var out []natLoop
	for _, l := range naturalLoops(fn) {
		if l.header == b {
			out = append(out, l)
		}
	}
	return out
}

// scanBetween: some path from the store to the load passes a call of the scanner's Scan method (the value
// stored was read before that Scan, the load uses it after).
func scanBetween(st *ssa.Store, ld ssa.Instruction) bool {
	isScan := func(in ssa.Instruction) bool {
		c, ok := in.(*ssa.Call)
		return ok && c.Call.StaticCallee() != nil && c.Call.StaticCallee().Name() == "Scan" && c.Call.StaticCallee().Signature.Recv() != nil
	}
	// rest of the store's block
	after := false
	for _, in := range st.Block().Instrs {
		if in == ssa.Instruction(st) {
			after = true
			continue
		}
		if !after {
			continue
		}
		if in == ld {
			return false
		}
		if isScan(in) {
			// a Scan follows the store in its own block: does the load lie beyond it?
			return blockReaches(st.Block(), ld.Block(), false) || st.Block() == ld.Block()
		}
	}
	// blocks reachable from the store's block without passing a Scan: if the load is among them it is reached
	// Scan-free; otherwise every way to it passes a Scan
	seen := map[*ssa.BasicBlock]bool{}
	stack := append([]*ssa.BasicBlock{}, st.Block().Succs...)
	for len(stack) > 0 {
		b := stack[len(stack)-1]
		stack = stack[:len(stack)-1]
		if seen[b] {
			continue
		}
		seen[b] = true
		blocked := false
		for _, in := range b.Instrs {
			if in == ld {
				return false
			}
			if isScan(in) {
				blocked = true
				break
			}
		}
		if !blocked {
			stack = append(stack, b.Succs...)
		}
	}
	return true
}

type fnSelection struct {
	fn  *ssa.Function
	blk *ssa.BasicBlock // the block in which this function value was chosen (nil: unknown)
}

// fnSelections: the function values a value of function type can hold, each with the block where it was chosen
// (the predecessor of the merge it arrives through, or the block of the assignment to the variable).
func fnSelections(e *Engine, v ssa.Value, at *ssa.BasicBlock, depth int) []fnSelection {
	if depth > 6 {
		return nil
	}
	switch x := v.(type) {
	case *ssa.Function:
		return []fnSelection{{x, at}}
	case *ssa.ChangeType:
		return fnSelections(e, x.X, at, depth+1)
	case *ssa.MakeInterface:
		return fnSelections(e, x.X, at, depth+1)
	case *ssa.Phi:
		var out []fnSelection
		for i, ed := range x.Edges {
			out = append(out, fnSelections(e, ed, x.Block().Preds[i], depth+1)...)
		}
		return out
	case *ssa.UnOp:
		if cell := cellOf(x.X); cell != nil && x.Op == token.MUL {
			var out []fnSelection
			for _, st := range e.storesTo(cell) {
				out = append(out, fnSelections(e, st.Val, st.Block(), depth+1)...)
			}
			return out
		}
	}
	return nil
}

// derivedNameExtra: the steps between the runtime name of a function and the name it is registered under are
// cutting (slices), lower-casing and replacing _ by -; returns the first other string operation found ("" if none).
func derivedNameExtra(e *Engine, v ssa.Value, depth int) string {
	if depth > 10 {
		return ""
	}
	switch x := v.(type) {
	case *ssa.Slice:
		return derivedNameExtra(e, x.X, depth+1)
	case *ssa.Phi:
		for _, ed := range x.Edges {
			if s := derivedNameExtra(e, ed, depth+1); s != "" {
				return s
			}
		}
	case *ssa.UnOp:
		if cell := cellOf(x.X); cell != nil {
			for _, st := range e.storesTo(cell) {
				if s := derivedNameExtra(e, st.Val, depth+1); s != "" {
					return s
				}
			}
		}
	case *ssa.Call:
		if isStringsFn(x, "ToLower") {
			return derivedNameExtra(e, x.Call.Args[0], depth+1)
		}
		if isStringsFn(x, "Replace", "ReplaceAll") {
			f, _ := constString(x.Call.Args[1])
			t, _ := constString(x.Call.Args[2])
			if f == "_" && t == "-" {
				return derivedNameExtra(e, x.Call.Args[0], depth+1)
			}
			return "strings." + x.Call.StaticCallee().Name() + fmt.Sprintf("(%q, %q)", f, t)
		}
		if sc := x.Call.StaticCallee(); sc != nil && sc.Pkg != nil && sc.Pkg.Pkg.Path() == "strings" {
			switch sc.Name() {
			case "LastIndex", "Index", "HasPrefix", "HasSuffix", "Contains":
				return ""
			}
			return "strings." + sc.Name()
		}
	}
	return ""
}

// typedOnAllPaths: every path from the entry of the function to block b takes the true edge of a checked
// assertion of v to one of the types ts (the shared arm `case A, B:` of a type switch), or passes a block where
// one of them is an established fact.
func typedOnAllPaths(e *Engine, v ssa.Value, b *ssa.BasicBlock, ts []types.Type, seen map[*ssa.BasicBlock]bool) bool {
	if seen[b] {
		return true
	}
	seen[b] = true
	for _, t := range ts {
		if ok, _ := e.hasType(v, t, b); ok {
			return true
		}
	}
	if len(b.Preds) == 0 {
		return false
	}
	for _, p := range b.Preds {
		if iff := blockIf(p); iff != nil && p.Succs[0] == b && p.Succs[1] != b {
			if ex, ok := iff.Cond.(*ssa.Extract); ok && ex.Index == 1 {
				if ta, ok := ex.Tuple.(*ssa.TypeAssert); ok && ta.CommaOk && ta.X == v {
					hit := false
					for _, t := range ts {
						if types.Identical(ta.AssertedType, t) {
							hit = true
						}
					}
					if hit {
						continue
					}
				}
			}
		}
		if !typedOnAllPaths(e, v, p, ts, seen) {
			return false
		}
	}
	return true
}

// posWrite: one field of a Position a function fills in, directly in a literal or through a constructor of the
// package that only stores its parameters.
type posWrite struct {
	field string
	val   ssa.Value
	pos   token.Pos
}

func positionStruct(fn *ssa.Function) types.Type {
	t := fn.Signature.Results().At(0).Type()
	if p, ok := t.(*types.Pointer); ok {
		return p.Elem()
	}
	return t
}

// thinPositionCtor: fn is an unexported function of package types that returns the one Position literal it
// builds and stores nothing in it but its own parameters: field number -> parameter number.
func thinPositionCtor(w *World, fn *ssa.Function) map[int]int {
	if fn == nil || len(fn.Blocks) != 1 || fn.Object() == nil || fn.Object().Exported() || fn.Signature.Recv() != nil || fn.Signature.Results().Len() != 1 || fnPkgPath(fn) != modPath+"/types" {
		return nil
	}
	if _, name, ok := w.namedStruct(fn.Signature.Results().At(0).Type()); !ok || name != "Position" {
		return nil
	}
	out := map[int]int{}
	var lit *ssa.Alloc
	for _, in := range fn.Blocks[0].Instrs {
		switch x := in.(type) {
		case *ssa.Alloc:
			if lit != nil {
				return nil
			}
			lit = x
		case *ssa.FieldAddr:
			if x.X != ssa.Value(lit) {
				return nil
			}
		case *ssa.Store:
			fa, ok := x.Addr.(*ssa.FieldAddr)
			p, isParam := x.Val.(*ssa.Parameter)
			if !ok || !isParam {
				return nil
			}
			for i, q := range fn.Params {
				if q == p {
					out[fa.Field] = i
				}
			}
		case *ssa.Return:
			if len(x.Results) != 1 || x.Results[0] != ssa.Value(lit) {
				return nil
			}
		case *ssa.DebugRef:
		default:
			return nil
		}
	}
	if lit == nil {
		return nil
	}
	return out
}

func positionFieldWrites(w *World, fn *ssa.Function, literalsOnly bool) []posWrite {
	var out []posWrite
	for _, b := range fn.Blocks {
		for _, in := range b.Instrs {
			switch x := in.(type) {
			case *ssa.Store:
				fa, ok := x.Addr.(*ssa.FieldAddr)
				if !ok {
					continue
				}
				if _, name, ok := w.namedStruct(fa.X.Type()); !ok || name != "Position" {
					continue
				}
				if al, ok := fa.X.(*ssa.Alloc); literalsOnly && (!ok || al.Comment != "complit") {
					continue
				}
				out = append(out, posWrite{fieldName(fa.X.Type(), fa.Field), x.Val, x.Pos()})
			case *ssa.Call:
				callee := x.Call.StaticCallee()
				fields := thinPositionCtor(w, callee)
				if fields == nil {
					continue
				}
				var idx []int
				for fi := range fields {
					idx = append(idx, fi)
				}
				sort.Ints(idx)
				for _, fi := range idx {
					out = append(out, posWrite{fieldName(types.NewPointer(positionStruct(callee)), fi), x.Call.Args[fields[fi]], x.Pos()})
				}
			}
		}
	}
	return out
}

// builtinErrorMappedRule: the adapters hand the bound function's error back as the Go error it is; it becomes a
// lisp error where the evaluator calls the builtin: there every error of that call leaves wrapped by
// NewLispError. An error that leaves raw takes catch's route for foreign errors: the handler is bound to its
// text, and the object the function returned is lost to the program.
func builtinErrorMappedRule(w *World, r *Report, rule string) {
	r.rule(rule, "in the evaluator (EVAL and the functions of its package it is built from) every return that hands on the error of a call through types.Func.Fn hands it on wrapped by NewLispError, on every path: the error result of a bound function always reaches the program as a lisp error")
	ev := w.Fn("", "EVAL")
	if ev == nil {
		r.undecided(rule, nil, "EVAL", token.NoPos, "function no longer resolves")
		return
	}
	n := 0
	for _, fn := range w.withPkgHelpers(ev) {
		if fn == nil {
			continue
		}
		for _, b := range fn.Blocks {
			for _, in := range b.Instrs {
				c, ok := in.(*ssa.Call)
				if !ok || c.Call.StaticCallee() != nil || c.Call.IsInvoke() {
					continue
				}
				var holder types.Type
				switch x := c.Call.Value.(type) {
				case *ssa.Field:
					holder = x.X.Type()
				case *ssa.UnOp:
					if fa, ok := x.X.(*ssa.FieldAddr); ok {
						holder = fa.X.Type()
					}
				}
				if holder == nil {
					continue
				}
				if _, name, ok := w.namedStruct(holder); !ok || name != "Func" {
					continue
				}
				errEx := extractOf(c, 1)
				if errEx == nil {
					continue
				}
				ei := hasErrorResult(fn)
				for _, d := range fn.Blocks {
					iff := blockIf(d)
					if iff == nil || ei < 0 {
						continue
					}
					bo, ok := iff.Cond.(*ssa.BinOp)
					if !ok || !isNilConst(bo.Y) || bo.X != ssa.Value(errEx) || (bo.Op != token.NEQ && bo.Op != token.EQL) {
						continue
					}
					edge := 0
					if bo.Op == token.EQL {
						edge = 1
					}
					for _, rb := range fn.Blocks {
						if len(rb.Instrs) == 0 || !edgeDominates(d, edge, rb) {
							continue
						}
						ret, ok := rb.Instrs[len(rb.Instrs)-1].(*ssa.Return)
						if !ok || ei >= len(ret.Results) {
							continue
						}
						evv := resolveRet(ret.Results[ei])
						n++
						wrapped := true
						var walk func(v ssa.Value, depth int)
						walk = func(v ssa.Value, depth int) {
							if depth > 6 {
								wrapped = false
								return
							}
							switch y := v.(type) {
							case *ssa.MakeInterface:
								walk(y.X, depth+1)
							case *ssa.ChangeInterface:
								walk(y.X, depth+1)
							case *ssa.Phi:
								for _, op := range y.Edges {
									walk(op, depth+1)
								}
							case *ssa.Call:
								g := y.Call.StaticCallee()
								switch {
								case g == nil:
									wrapped = false
								case g.Name() == "NewLispError":
								case inModule(g) && len(g.Blocks) > 0 && g.Signature.Results().Len() == 1:
									// a function of the module (or a literal of this one) every return of which wraps
									nr := 0
									for _, gb := range g.Blocks {
										if len(gb.Instrs) == 0 || gb == g.Recover {
											continue
										}
										if gr, ok := gb.Instrs[len(gb.Instrs)-1].(*ssa.Return); ok && len(gr.Results) == 1 {
											nr++
											walk(resolveRet(gr.Results[0]), depth+1)
										}
									}
									if nr == 0 {
										wrapped = false
									}
								default:
									wrapped = false
								}
							default:
								wrapped = false
							}
						}
						walk(evv, 0)
						r.check(wrapped, rule, fn, "error of the builtin handed on", ret.Pos(), "wrapped by NewLispError", "on this path the error the bound function returned leaves the evaluator as it is ("+describeVal(newEngine(w), evv, 0)+"): it is no lisp error, catch binds its text instead of the object, and unwrap-error / type? see a string")
					}
				}
			}
		}
	}
	r.floor(rule, "returns handing on a builtin's error", n, 1)
}

// accessorTotalRule: callers that have established "list or vector" drop the sequence accessor's error (Equal_Q,
// the shared arms of the sequence builtins). That is sound because the accessor's only failure is the kind of
// its argument: every return of an error lies where the argument is known to be neither a List nor a Vector.
func accessorTotalRule(w *World, r *Report, e *Engine, rule string) {
	r.rule(rule, "the sequence accessor (types.GetSlice) fails for no list and no vector: every return of a non-nil error lies behind the negative outcome of the tests for both kinds - length, content and position of a sequence are no grounds to refuse it (callers that know the kind drop the error and would take the sequence for empty)")
	gs := w.Fn("types", "GetSlice")
	if gs == nil || len(gs.Params) == 0 {
		r.undecided(rule, nil, "types.GetSlice", token.NoPos, "function no longer resolves")
		return
	}
	tsc := w.ByPath[modPath+"/types"].Types.Scope()
	listT, vecT := tsc.Lookup("List").Type(), tsc.Lookup("Vector").Type()
	n := 0
	ei := hasErrorResult(gs)
	for _, b := range gs.Blocks {
		if len(b.Instrs) == 0 || b == gs.Recover || ei < 0 {
			continue
		}
		ret, ok := b.Instrs[len(b.Instrs)-1].(*ssa.Return)
		if !ok || ei >= len(ret.Results) || isNilConst(resolveRet(ret.Results[ei])) {
			continue
		}
		n++
		okKind := e.notType(gs.Params[0], listT, b) && e.notType(gs.Params[0], vecT, b)
		r.check(okKind, rule, gs, "error answer of the sequence accessor", ret.Pos(), "only for an argument that is neither a list nor a vector", "the accessor can refuse a list or a vector here: callers that have established the kind drop its error and go on with no elements - two long sequences compare equal, a refused sequence counts as empty")
	}
	r.floor(rule, "error answers of the sequence accessor", n, 1)
}

// processStateRule: no function of the module changes the working directory of the process.
func processStateRule(w *World, r *Report, rule string) {
	r.rule(rule, "no function of the module calls os.Chdir: relative file names in a program (slurp, load-file) name the same files whichever way the program is delivered")
	n := 0
	for _, fn := range w.Funcs {
		if isTestFunc(w, fn) || !inModule(fn) {
			continue
		}
		for _, b := range fn.Blocks {
			for _, in := range b.Instrs {
				ci, ok := in.(ssa.CallInstruction)
				if !ok {
					continue
				}
				if sc := ci.Common().StaticCallee(); sc != nil && fnPkgPath(sc) == "os" && (sc.Name() == "Chdir") {
					n++
					r.bad(rule, fn, "change of the working directory", in.Pos(), w.fnName(fn)+" changes the working directory of the process: a program delivered this way resolves its relative file names elsewhere than the same program read as text, fed to REPL or loaded with load-file")
				}
			}
		}
	}
	r.add(rule, nil, "calls of os.Chdir in the module", token.NoPos, "ok", fmt.Sprintf("%d found", n))
}

// getPositionOwnRule: the position of a form is the form's own cursor. A form without one has no position:
// answering with the position of a part of it (its head) places every error raised for the form on the part's
// line, which need not be where the fault is - and errors that rightly had no position now have a wrong one.
func getPositionOwnRule(w *World, r *Report, rule string) {
	r.rule(rule, "lisperror.GetPosition answers with the cursor of the value it was handed (or nil): it does not call itself on a part of that value, so a form without a position of its own is not given the position of its head")
	gp := w.Fn("lisperror", "GetPosition")
	if gp == nil {
		r.undecided(rule, nil, "lisperror.GetPosition", token.NoPos, "function no longer resolves")
		return
	}
	n := 0
	for _, fn := range w.withPkgHelpers(gp) {
		if fn == nil {
			continue
		}
		n++
		for _, c := range staticCallsTo(fn, gp) {
			// (a value that carries another value whole - an error around a form - may be unwrapped; a part of a list may not)
			arg := unboxed(c.Call.Args[0])
			part := false
			if ld, ok := arg.(*ssa.UnOp); ok {
				if _, isElem := ld.X.(*ssa.IndexAddr); isElem {
					part = true
				}
			}
			r.check(!part, rule, fn, "position taken from a part of the form", c.Pos(), "the form's own cursor", "the position of an element of the form ("+describeVal(nil, c.Call.Args[0], 0)+") is answered for the form: a form assembled by a macro is located at its head symbol, and an error raised for it is reported on a line that need not hold the fault")
		}
	}
	r.add(rule, gp, "functions of GetPosition", token.NoPos, "ok", fmt.Sprintf("%d examined", n))
}

// equalityReadsValOnlyRule: two collections are equal when their members are. Equal_Q (and what it is built from
// in its package) reads no field of a List, Vector, HashMap or Set but Val: metadata, positions and any summary
// kept beside the members (a cached fingerprint or size) take no part in the answer.
func equalityReadsValOnlyRule(w *World, r *Report, rule string) {
	r.rule(rule, "Equal_Q and the functions of package types it is built from read, of a List, Vector, HashMap or Set, the Val field only: equality is decided by the members, not by metadata, positions or cached summaries of the value")
	eq := w.Fn("types", "Equal_Q")
	if eq == nil {
		r.undecided(rule, nil, "types.Equal_Q", token.NoPos, "function no longer resolves")
		return
	}
	n := 0
	for _, fn := range w.withPkgHelpers(eq) {
		if fn == nil {
			continue
		}
		for _, b := range fn.Blocks {
			for _, in := range b.Instrs {
				var t types.Type
				field := -1
				switch x := in.(type) {
				case *ssa.Field:
					t, field = x.X.Type(), x.Field
				case *ssa.FieldAddr:
					t, field = x.X.Type(), x.Field
				}
				if field < 0 {
					continue
				}
				_, name, ok := w.namedStruct(t)
				if !ok {
					continue
				}
				switch name {
				case "List", "Vector", "HashMap", "Set":
				default:
					continue
				}
				n++
				fname := fieldName(t, field)
				r.check(fname == "Val", rule, fn, "field of a "+name+" read by the comparison", in.Pos(), "Val", "the comparison reads "+name+"."+fname+": two values with the same members can be told apart (or different ones taken for equal) by something that is not a member")
			}
		}
	}
	r.floor(rule, "fields of collections read by the comparison", n, 2)
}
