package main

// Lengths guaranteed by regular expressions: the sub-match of a capture group that takes part in every
// match of a constant pattern is at least as long as the shortest string the group can match.

import (
	"regexp/syntax"
	"unicode/utf8"

	"golang.org/x/tools/go/ssa"
)

// globalRegexPattern: the constant pattern of a package-level *regexp.Regexp initialised with
// regexp.MustCompile / regexp.Compile of a constant and never assigned again.
func (w *World) globalRegexPattern(g *ssa.Global) (string, bool) {
	if g == nil || g.Pkg == nil {
		return "", false
	}
	pat, n := "", 0
	for _, f := range w.Funcs {
		for _, b := range f.Blocks {
			for _, in := range b.Instrs {
				st, ok := in.(*ssa.Store)
				if !ok || st.Addr != ssa.Value(g) {
					continue
				}
				n++
				if c, ok := st.Val.(*ssa.Call); ok && c.Call.StaticCallee() != nil && fnPkgPath(c.Call.StaticCallee()) == "regexp" && len(c.Call.Args) == 1 {
					if s, ok := constString(c.Call.Args[0]); ok {
						pat = s
					}
				}
			}
		}
	}
	return pat, n == 1 && pat != ""
}

// regexOfSubmatch: v is the string matches[i][g] (FindAllStringSubmatch) or match[g] (FindStringSubmatch) of a
// global constant pattern; returns the pattern and the group number.
func (w *World) regexOfSubmatch(v ssa.Value) (string, int, bool) {
	elem := func(v ssa.Value) (ssa.Value, ssa.Value, bool) { // v = *(&x[idx])
		ld, ok := v.(*ssa.UnOp)
		if !ok {
			return nil, nil, false
		}
		ia, ok := ld.X.(*ssa.IndexAddr)
		if !ok {
			return nil, nil, false
		}
		return ia.X, ia.Index, true
	}
	row, gidx, ok := elem(v)
	if !ok {
		return "", 0, false
	}
	k, ok := gidx.(*ssa.Const)
	if !ok || k.Value == nil {
		return "", 0, false
	}
	g := int(k.Int64())
	var call *ssa.Call
	if c, ok := row.(*ssa.Call); ok {
		call = c
	} else if m, _, ok := elem(row); ok {
		call, _ = m.(*ssa.Call)
	}
	if call == nil || call.Call.StaticCallee() == nil || fnPkgPath(call.Call.StaticCallee()) != "regexp" {
		return "", 0, false
	}
	switch call.Call.StaticCallee().Name() {
	case "FindAllStringSubmatch", "FindStringSubmatch":
	default:
		return "", 0, false
	}
	ld, ok := call.Call.Args[0].(*ssa.UnOp)
	if !ok {
		return "", 0, false
	}
	gl, ok := ld.X.(*ssa.Global)
	if !ok {
		return "", 0, false
	}
	pat, ok := w.globalRegexPattern(gl)
	return pat, g, ok
}

// regexGroupMinLen: the least number of bytes of sub-match g in any match of pat; ok is false when the group
// does not take part in every match (then the sub-match may be empty) or the pattern does not parse.
func regexGroupMinLen(pat string, g int) (int, bool) {
	re, err := syntax.Parse(pat, syntax.Perl)
	if err != nil {
		return 0, false
	}
	if g == 0 {
		return reMinLen(re), true
	}
	return reMandatoryGroup(re, g)
}

func reMinLen(re *syntax.Regexp) int {
	switch re.Op {
	case syntax.OpLiteral:
		if re.Flags&syntax.FoldCase != 0 {
			return len(re.Rune) // at least one byte per rune
		}
		n := 0
		for _, r := range re.Rune {
			n += utf8.RuneLen(r)
		}
		return n
	case syntax.OpCharClass, syntax.OpAnyCharNotNL, syntax.OpAnyChar:
		return 1
	case syntax.OpCapture, syntax.OpPlus:
		return reMinLen(re.Sub[0])
	case syntax.OpRepeat:
		return re.Min * reMinLen(re.Sub[0])
	case syntax.OpConcat:
		n := 0
		for _, s := range re.Sub {
			n += reMinLen(s)
		}
		return n
	case syntax.OpAlternate:
		best := -1
		for _, s := range re.Sub {
			if m := reMinLen(s); best < 0 || m < best {
				best = m
			}
		}
		if best < 0 {
			best = 0
		}
		return best
	}
	return 0 // empty match, anchors, star, quest, no-match
}

func reMandatoryGroup(re *syntax.Regexp, g int) (int, bool) {
	switch re.Op {
	case syntax.OpCapture:
		if re.Cap == g {
			return reMinLen(re.Sub[0]), true
		}
		return reMandatoryGroup(re.Sub[0], g)
	case syntax.OpConcat:
		for _, s := range re.Sub {
			if n, ok := reMandatoryGroup(s, g); ok {
				return n, true
			}
		}
	case syntax.OpPlus:
		return reMandatoryGroup(re.Sub[0], g)
	case syntax.OpRepeat:
		if re.Min >= 1 {
			return reMandatoryGroup(re.Sub[0], g)
		}
	}
	return 0, false
}

// submatchLen: v is the result of FindStringSubmatch / FindSubmatch of a global constant pattern; returns the
// number of elements of a non-nil result (1 + number of groups).
func (w *World) submatchLen(v ssa.Value) (int, bool) {
	call, ok := v.(*ssa.Call)
	if !ok || call.Call.StaticCallee() == nil || fnPkgPath(call.Call.StaticCallee()) != "regexp" {
		return 0, false
	}
	switch call.Call.StaticCallee().Name() {
	case "FindStringSubmatch", "FindSubmatch":
	default:
		return 0, false
	}
	ld, ok := call.Call.Args[0].(*ssa.UnOp)
	if !ok {
		return 0, false
	}
	gl, ok := ld.X.(*ssa.Global)
	if !ok {
		return 0, false
	}
	pat, ok := w.globalRegexPattern(gl)
	if !ok {
		return 0, false
	}
	re, err := syntax.Parse(pat, syntax.Perl)
	if err != nil {
		return 0, false
	}
	return re.MaxCap() + 1, true
}
