package main

import (
	"fmt"
	"go/constant"
	"go/token"
	"go/types"
	"sort"
	"strings"

	"golang.org/x/tools/go/ssa"
)

// ---------------------------------------------------------------------------
// C03

func checkC03(w *World, r *Report) {
	m, e := needModel(w, r, "C03.once")
	if m == nil {
		return
	}
	// an error that travels through a future is still the error its body raised, for every reader
	r.include("C03.future-", "C10.", "an error raised in a future's body reaches every catch around a deref unchanged and as an error", checkC10, func(rule string) bool {
		return rule == "C10.redeposit" || rule == "C10.single-outcome" || rule == "C10.outcome-own" || rule == "C10.deref-waits"
	})
	errorIsRule(w, r, "C03.is")
	oneErrorTypeRule(w, r, "C03.one-error-type")
	droppedErrorRule(w, r, "C03.checked-first")
	handlerThrowLint(w, r, "C03.lisp-handlers")
	loopErrorRule(w, r, "C03.loop-errors", func(fn *ssa.Function) bool { return runtimePkg(fnPkgPath(fn)) })
	r.rule("C03.once", "the value of the try body and of the catch handler is returned / continued as a form exactly once: no result of an evaluating call flows back into the evaluator (shared with C01.once)")
	r.rule("C03.finally-dom", "the finally evaluation is registered (defer) exactly once, outside any inner loop, in a block that dominates every exit of the try region reachable after the body has run")
	r.rule("C03.finally-pure", "the deferred finally closure stores to no result variable of EVAL and discards the results of the body helper")
	r.rule("C03.finally-scope", "a closure deferred by the evaluator does not capture by reference a variable that is assigned after the defer statement (the scope, context and form cells are reassigned by the loop): finally runs in the scope of the try form")
	r.rule("C03.catch-scope", "the handler is evaluated in a fresh child of the current scope whose single binding is the catch symbol bound to the caught object (scope rules shared with C01.scope)")
	r.rule("C03.object", "the object bound by catch is ErrorValue() of the error when it has that method, else its message; ErrorValue returns the stored object; throw returns an error argument as is and wraps any other value with NewLispError(value, nil); re-positioning an existing LispError writes only its cursor; Unwrap returns the stored error")
	r.rule("C03.wrap", "every fmt.Errorf in the library that receives an error operand formats it with %w, so errors.Is still reaches the original")
	r.rule("C03.propagate", "an error obtained from a nested evaluating call is returned as the same value; the only constructors applied to an existing error are NewLispError (object preserved) and fmt.Errorf with %w")
	r.rule("C03.recover", "the try body runs in a closure whose first action is to defer a total recover handler that stores into the closure's own error result")
	ruleOnce(m, r, "C03.once")
	ruleScope(m, r, "C03.catch-scope")
	reg, ok := m.regions["try"]
	if !ok {
		r.undecided("C03.finally-dom", m.EVAL, "try region", token.NoPos, "special form not found")
		return
	}
	// body runner: the closure called in the region that is a recover barrier
	var bodyCall *ssa.Call
	var runner *ssa.Function
	var defers []*ssa.Defer
	var unguarded *ssa.Call
	var unguardedFn *ssa.Function
	for _, b := range m.EVAL.Blocks {
		if !reg[b] {
			continue
		}
		for _, in := range b.Instrs {
			switch x := in.(type) {
			case *ssa.Call:
				var fn *ssa.Function
				if mc, ok := x.Call.Value.(*ssa.MakeClosure); ok {
					fn = mc.Fn.(*ssa.Function)
				} else if sc := x.Call.StaticCallee(); sc != nil {
					if _, isHelper := m.helperSites[sc]; isHelper && callsFn(sc, m.doFn) {
						fn = sc // the body runner as a function of the package
					}
				}
				if fn != nil {
					if _, isBarrier := w.barrierOf(fn); isBarrier {
						bodyCall, runner = x, fn
					} else if callsFn(fn, m.doFn) && unguarded == nil {
						unguarded, unguardedFn = x, fn
					}
				}
			case *ssa.Defer:
				if !m.stepBlocks[b] {
					defers = append(defers, x)
				}
			}
		}
	}
	if bodyCall == nil && unguarded != nil {
		r.bad("C03.recover", m.EVAL, "try body runner", unguarded.Pos(), "the function that evaluates the try body does not start with a deferred recover handler")
		bodyCall, runner = unguarded, unguardedFn
	}
	if bodyCall == nil {
		r.undecided("C03.recover", m.EVAL, "try body runner", token.NoPos, "no closure call evaluating the try body found in the try region")
		return
	}
	r.ok("C03.recover", runner, "try body runner", bodyCall.Pos(), "starts with a deferred recover handler")
	// the handler stores into the runner's own named error result
	if h, ok := w.barrierOf(runner); ok {
		for _, b := range runner.Blocks[:1] {
			for _, in := range b.Instrs {
				if d, ok := in.(*ssa.Defer); ok && d.Call.StaticCallee() == h {
					okArg := false
					if len(d.Call.Args) > 0 {
						if al, ok := d.Call.Args[len(d.Call.Args)-1].(*ssa.Alloc); ok && al.Parent() == runner {
							// the variable the handler fills in is the runner's error result: every return
							// (also the one taken after a recovered panic) reads it
							okArg = true
							nret := 0
							for _, rb := range runner.Blocks {
								if len(rb.Instrs) == 0 {
									continue
								}
								ret, isRet := rb.Instrs[len(rb.Instrs)-1].(*ssa.Return)
								if !isRet || len(ret.Results) == 0 {
									continue
								}
								nret++
								ld, isLd := ret.Results[len(ret.Results)-1].(*ssa.UnOp)
								if !isLd || ld.X != ssa.Value(al) {
									okArg = false
								}
							}
							if nret == 0 || runner.Recover == nil {
								okArg = false
							}
						}
					}
					r.check(okArg, "C03.recover", runner, "recover handler target", d.Pos(), "the runner's own error result", "the recover handler does not write the runner's error result")
				}
			}
		}
	}
	// the runner's do calls use (0,0) (checked in C01.body) and its context is a child of the outer one (C07.handler)

	// finally registration
	if !r.check(len(defers) == 1, "C03.finally-dom", m.EVAL, "finally registrations in the try region", token.NoPos, "exactly one defer", fmt.Sprintf("%d defer statements in the try region", len(defers))) {
		return
	}
	d := defers[0]
	var finFn *ssa.Function
	if mc, ok := d.Call.Value.(*ssa.MakeClosure); ok {
		finFn = mc.Fn.(*ssa.Function)
	} else if sc := d.Call.StaticCallee(); sc != nil {
		finFn = sc
	}
	if finFn == nil || !callsFn(finFn, m.doFn) {
		r.bad("C03.finally-dom", m.EVAL, "deferred finally closure", d.Pos(), "the deferred function does not evaluate the finally body")
		return
	}
	for _, l := range naturalLoops(m.EVAL) {
		if l.header != m.header && loopBlocks(l)[d.Block()] {
			r.bad("C03.finally-dom", m.EVAL, "finally registration inside a loop", d.Pos(), "registered once per iteration: finally would run several times")
		}
	}
	n := 0
	for _, rt := range m.returns(m.EVAL) {
		ret := rt[0].(*ssa.Return)
		if !reg[ret.Block()] || !bodyCall.Block().Dominates(ret.Block()) {
			continue
		}
		n++
		okDom := d.Block().Dominates(ret.Block())
		if d.Block() == ret.Block() {
			okDom = true
		}
		r.check(okDom, "C03.finally-dom", m.EVAL, "exit of the try region after the body ran", ret.Pos(), "finally registered on every path to this return", "a path from the body to this return does not register the finally evaluation")
	}
	for _, b := range m.EVAL.Blocks {
		if !reg[b] || !bodyCall.Block().Dominates(b) {
			continue
		}
		for _, s := range b.Succs {
			if !reg[s] {
				n++
				r.check(d.Block().Dominates(b), "C03.finally-dom", m.EVAL, "continuation of the loop after the handler", instrPos(b.Instrs[len(b.Instrs)-1]), "finally registered before the handler's tail form continues the loop", "the handler's tail call leaves the region without finally being registered")
			}
		}
	}
	r.floor("C03.finally-dom", "exits of the try region after the body", n, 5)
	// body call must precede the defer or be in a dominating position (finally must not run before the body: defer guarantees that)
	// pure
	pure := true
	for _, b := range finFn.Blocks {
		for _, in := range b.Instrs {
			if st, ok := in.(*ssa.Store); ok {
				if fv, ok := st.Addr.(*ssa.FreeVar); ok {
					pure = false
					r.bad("C03.finally-pure", finFn, "store to captured "+fv.Name(), st.Pos(), "the finally closure changes a variable of EVAL")
				}
			}
			if c, ok := in.(*ssa.Call); ok && c.Call.StaticCallee() == m.doFn {
				used := false
				for _, ref := range *c.Referrers() {
					switch u := ref.(type) {
					case *ssa.DebugRef:
					case *ssa.Extract:
						for _, r2 := range *u.Referrers() {
							if _, isDbg := r2.(*ssa.DebugRef); !isDbg {
								used = true
							}
						}
					default:
						used = true
					}
				}
				if used {
					pure = false
					r.bad("C03.finally-pure", finFn, "result of the finally body used", c.Pos(), "the value or error of the finally body can influence the result")
				}
			}
		}
	}
	if pure {
		r.ok("C03.finally-pure", finFn, "finally closure", finFn.Pos(), "no store to captured variables, results of the body helper discarded")
	}
	// scope: generic rule over every deferred closure in the evaluator functions
	ns := 0
	for _, fn := range m.evalFuncs() {
		for _, b := range fn.Blocks {
			for _, in := range b.Instrs {
				df, ok := in.(*ssa.Defer)
				if !ok {
					continue
				}
				mc, ok := df.Call.Value.(*ssa.MakeClosure)
				if !ok {
					continue
				}
				cf := mc.Fn.(*ssa.Function)
				for i, bind := range mc.Bindings {
					cell, ok := bind.(*ssa.Alloc)
					if !ok {
						continue
					}
					// is the captured cell read inside the closure?
					read := false
					for _, ref := range *cf.FreeVars[i].Referrers() {
						if u, ok := ref.(*ssa.UnOp); ok && u.Op == token.MUL {
							read = true
						}
						if _, ok := ref.(*ssa.MakeClosure); ok {
							read = true
						}
					}
					if !read {
						continue
					}
					ns++
					// any store to the cell reachable from the defer?
					var later *ssa.Store
					// a cell declared inside the loop is a new variable on every iteration: stores that can
					// only be reached by executing its declaration again do not touch this instance
					reach := reachableBlocksAvoiding(b, cell.Block())
					for _, st := range m.e.storesTo(cell) {
						if st.Parent() != fn {
							continue
						}
						if reach[st.Block()] && st.Block() != b {
							later = st
						}
						if st.Block() == b && instrIndex(st) > instrIndex(df) {
							later = st
						}
					}
					construct := "deferred closure reads captured " + nz(cell.Comment, cell.Name())
					if later == nil {
						r.ok("C03.finally-scope", fn, construct, df.Pos(), "the variable is not assigned after the defer statement")
					} else if isResultCell(fn, cell) || m.stepBlocks[b] {
						r.ok("C03.finally-scope", fn, construct, df.Pos(), "result variable read by a stepping-mode report (intended to see the final value)")
					} else {
						r.bad("C03.finally-scope", fn, construct, df.Pos(), "the variable is assigned at "+w.pos(later.Pos())+" after the defer statement: the closure sees the handler's / callee's value, not the try form's")
					}
				}
			}
		}
	}
	r.floor("C03.finally-scope", "cells read by deferred closures", ns, 2)
	// finally receives the current scope at defer time
	if len(d.Call.Args) > 0 {
		okArg := false
		for _, a := range d.Call.Args {
			if m.isCurrentScope(a) {
				okArg = true
			}
		}
		r.check(okArg, "C03.finally-scope", m.EVAL, "scope handed to the finally closure", d.Pos(), "the current scope, read when the defer statement executes", "the finally closure is not given the try form's scope")
	} else if m.envCell != nil {
		// no argument: the closure must not read the scope cell at all (checked above) - otherwise nothing to add
	}
	ruleObject(m, r, e, reg)
	// "the thrown value is delivered to the nearest enclosing catch clause": the handler's scope is built by the
	// binder, which binds the catch symbol - whatever its name - to the caught object
	r.include("C03.catch-", "C01.", "the catch symbol is bound to the caught object like any parameter to its argument", checkC01, func(rule string) bool {
		// (and a try form standing anywhere in a call form - in operator position too - is evaluated once, with the
		// rest of the call: its body, handler and finally run once per evaluation of the call)
		return rule == "C01.binds" || rule == "C01.order"
	})
	tryShapeRule(m, r)
	catchPresentRule(m, r, "C03.delivered")
	recoverDirectRule(w, r, "C03.recover-direct")
	constFormatRule(w, r, "C03.const-format")
	r.rule("C03.panic-conversion", "every adapter of the reflective binder starts with a deferred handler that calls recover() itself and converts the panic into an error that wraps the original (so a panicking builtin is delivered to catch like a returned error)")
	nad := 0
	extSig := w.ByPath[modPath+"/types"].Types.Scope().Lookup("ExternalCall").Type().Underlying().(*types.Signature)
	for _, f := range w.addrTaken() {
		if fnPkgPath(f) == modPath+"/lib/call" && sameParamsResults(f.Signature, extSig) && !isTestFunc(w, f) {
			nad++
			_, ok := w.barrierOf(f)
			r.check(ok, "C03.panic-conversion", f, "binder adapter", f.Pos(), "defer of a function that calls recover() directly", "the deferred function does not call recover() itself (recover only works in the deferred function): a panicking builtin is not converted into an error")
		}
	}
	r.floor("C03.panic-conversion", "binder adapters", nad, 2)
	// ... "that wraps the original": errors.Is / errors.As / unwrap-error reach the panic value of a builtin
	r.include("C03.builtin-", "C20.", "a panic of a builtin reaches catch as an error that still wraps the panic value (the original stays reachable with errors.Is / unwrap-error)", checkC20, func(rule string) bool {
		// (and an error object a handler hands back as a value stays a value on its way through Apply: it is not
		// thrown a second time)
		// ... and an error a builtin returns is an error of the language whatever Go value it is: the adapters decide
		// "error or not" by comparing with nil, and the evaluator wraps every one of them the same way
		return rule == "C20.panic" || rule == "C20.apply-verbatim" || rule == "C20.mapped" || rule == "C20.results"
	})
	ruleWrap(w, r)
	rulePropagate(m, r)
}

func callsFn(fn, target *ssa.Function) bool {
	for _, b := range fn.Blocks {
		for _, in := range b.Instrs {
			if ci, ok := in.(ssa.CallInstruction); ok && ci.Common().StaticCallee() == target {
				return true
			}
		}
	}
	return false
}

func instrIndex(in ssa.Instruction) int {
	for i, x := range in.Block().Instrs {
		if x == in {
			return i
		}
	}
	return -1
}

func reachableBlocks(from *ssa.BasicBlock) map[*ssa.BasicBlock]bool {
	seen := map[*ssa.BasicBlock]bool{}
	stack := append([]*ssa.BasicBlock{}, from.Succs...)
	for len(stack) > 0 {
		b := stack[len(stack)-1]
		stack = stack[:len(stack)-1]
		if seen[b] {
			continue
		}
		seen[b] = true
		stack = append(stack, b.Succs...)
	}
	return seen
}

func reachableBlocksAvoiding(from, avoid *ssa.BasicBlock) map[*ssa.BasicBlock]bool {
	seen := map[*ssa.BasicBlock]bool{}
	stack := append([]*ssa.BasicBlock{}, from.Succs...)
	for len(stack) > 0 {
		b := stack[len(stack)-1]
		stack = stack[:len(stack)-1]
		if seen[b] || (b == avoid && avoid != from && avoid.Parent().Blocks[0] != avoid) {
			continue
		}
		seen[b] = true
		stack = append(stack, b.Succs...)
	}
	return seen
}

func isResultCell(fn *ssa.Function, cell *ssa.Alloc) bool {
	res := fn.Signature.Results()
	for i := 0; i < res.Len(); i++ {
		if res.At(i).Name() != "" && res.At(i).Name() == cell.Comment {
			return true
		}
	}
	return false
}

func ruleObject(m *evalModel, r *Report, e *Engine, reg map[*ssa.BasicBlock]bool) {
	w := m.w
	// 1. the caught object
	var binds *ssa.Call
	for b := range reg {
		for _, in := range b.Instrs {
			if c, ok := in.(*ssa.Call); ok && c.Call.StaticCallee() == m.newSubBinds {
				binds = c
			}
		}
	}
	if binds == nil {
		r.bad("C03.object", m.EVAL, "handler scope", token.NoPos, "no NewSubordinateEnvWithBinds in the try region")
	} else {
		// exprs = NewList(caught) ; caught = phi[ErrorValue(), Error()]
		okObj := false
		detail := ""
		if nl, ok := binds.Call.Args[2].(*ssa.Call); ok && nl.Call.StaticCallee() != nil && nl.Call.StaticCallee().Name() == "NewList" {
			elems := sliceLiteralElems(nl.Call.Args[0])
			if len(elems) == 1 {
				// the choice is a two-way merge in EVAL, or the two returns of a function of the package given the error
				var alts []ssa.Value
				inFn := m.EVAL
				if phi, ok := elems[0].(*ssa.Phi); ok && len(phi.Edges) == 2 {
					alts = phi.Edges
				} else if hc, ok := elems[0].(*ssa.Call); ok {
					if h := hc.Call.StaticCallee(); h != nil && h.Pkg == m.EVAL.Pkg && h.Parent() == nil && len(hc.Call.Args) == 1 && isErrorType(hc.Call.Args[0].Type()) {
						inFn = h
						for _, rt := range m.returns(h) {
							alts = append(alts, rt[1].(ssa.Value))
						}
					}
				}
				if len(alts) == 2 {
					var hasEV, hasMsg bool
					for _, op := range alts {
						switch x := op.(type) {
						case *ssa.Call:
							if x.Call.IsInvoke() && x.Call.Method.Name() == "ErrorValue" {
								// receiver is the comma-ok assertion of the error to the ErrorValue interface, on its ok edge
								if ex, ok := x.Call.Value.(*ssa.Extract); ok {
									if ta, ok := ex.Tuple.(*ssa.TypeAssert); ok && ta.CommaOk {
										hasEV = true
									}
								}
							}
						case *ssa.MakeInterface:
							if c, ok := x.X.(*ssa.Call); ok && c.Call.IsInvoke() && c.Call.Method.Name() == "Error" {
								// the message is used only when the error has no ErrorValue method: the block is
								// entered exclusively through the not-ok edge of the comma-ok assertion
								for _, d := range inFn.Blocks {
									iff := blockIf(d)
									if iff == nil {
										continue
									}
									if ex, ok := iff.Cond.(*ssa.Extract); ok && ex.Index == 1 {
										if ta, ok := ex.Tuple.(*ssa.TypeAssert); ok && ta.CommaOk && edgeDominates(d, 1, c.Block()) && len(c.Block().Preds) == 1 {
											hasMsg = true
										}
									}
								}
							}
						}
					}
					okObj = hasEV && hasMsg
					detail = fmt.Sprintf("ErrorValue branch: %v, message branch: %v", hasEV, hasMsg)
				}
			}
		}
		r.check(okObj, "C03.object", m.EVAL, "object handed to the handler", binds.Pos(), "ErrorValue() when available, else the message", "the caught object is not chosen as ErrorValue()/message: "+detail)
		// binds = NewList(catch symbol operand)
		okBind := false
		if nl, ok := binds.Call.Args[1].(*ssa.Call); ok && nl.Call.StaticCallee() != nil && nl.Call.StaticCallee().Name() == "NewList" {
			elems := sliceLiteralElems(nl.Call.Args[0])
			if len(elems) == 1 {
				leaves := e.producers(elems[0], map[ssa.Value]bool{}, 0)
				nl := 0
				okBind = true
				for _, lf := range leaves {
					if isNilConst(lf) {
						continue // no catch clause: the handler is not reached
					}
					nl++
					if !strings.HasSuffix(e.keyOf(lf).String(), ".Val[1]") {
						okBind = false
					}
				}
				okBind = okBind && nl > 0
			}
		}
		r.check(okBind, "C03.catch-scope", m.EVAL, "single binding of the handler scope", binds.Pos(), "the catch clause's operand 1", "the handler scope does not bind exactly the catch symbol")
	}
	// 2. LispError methods
	le := func(name string) *ssa.Function { return w.Fn("lisperror", name) }
	if fn := le("(LispError).ErrorValue"); fn != nil {
		okEV := true
		for _, rt := range m.returns(fn) {
			if k := describeVal(e, rt[1].(ssa.Value), 0); !strings.HasSuffix(k, ".err") {
				okEV = false
			}
		}
		r.check(okEV, "C03.object", fn, "ErrorValue", fn.Pos(), "returns the stored object unchanged", "ErrorValue does not return the stored object")
	} else {
		r.undecided("C03.object", nil, "LispError.ErrorValue", token.NoPos, "method no longer resolves")
	}
	unwrapRule(w, r, m, e, "C03.object")
	if fn := le("(LispError).Is"); fn == nil {
		r.bad("C03.object", nil, "LispError.Is", token.NoPos, "method Is(error) bool is gone")
	}
	// 3. NewLispError: an existing LispError is copied and only re-positioned; any other object is stored as given
	newLispErrorRule(w, r, "C03.object")
	// 4. throw
	if fn := w.Fn("lib/core", "throw"); fn != nil {
		okErr, okWrap := false, false
		for _, rt := range m.returns(fn) {
			ev, _ := rt[2].(ssa.Value)
			if ev == nil {
				continue
			}
			// error argument returned as is: Extract#0 of commaok assert of the parameter to error
			if ex, ok := ev.(*ssa.Extract); ok {
				if ta, ok := ex.Tuple.(*ssa.TypeAssert); ok && ta.X == ssa.Value(fn.Params[0]) {
					okErr = true
				}
			}
			if mi, ok := ev.(*ssa.MakeInterface); ok {
				if c, ok := mi.X.(*ssa.Call); ok && c.Call.StaticCallee() != nil && c.Call.StaticCallee().Name() == "NewLispError" && c.Call.Args[0] == ssa.Value(fn.Params[0]) && isNilConst(c.Call.Args[1]) {
					okWrap = true
				}
			}
		}
		r.check(okErr, "C03.object", fn, "throw of an error value", fn.Pos(), "returned as is", "throw does not return an error argument unchanged")
		r.check(okWrap, "C03.object", fn, "throw of any other value", fn.Pos(), "wrapped with NewLispError(value, nil)", "throw does not wrap the thrown value itself")
	} else {
		r.undecided("C03.object", nil, "throw", token.NoPos, "function no longer resolves")
	}
}

// ruleWrap: fmt.Errorf with an error-typed operand uses %w for it.
func ruleWrap(w *World, r *Report) { ruleWrapAs(w, r, "C03.wrap") }

func ruleWrapAs(w *World, r *Report, rule string) {
	n := 0
	errT := types.Universe.Lookup("error").Type()
	for _, fn := range w.Funcs {
		if isTestFunc(w, fn) || !libraryPkg(fnPkgPath(fn)) {
			continue
		}
		for _, b := range fn.Blocks {
			for _, in := range b.Instrs {
				c, ok := in.(*ssa.Call)
				if !ok {
					continue
				}
				callee := c.Call.StaticCallee()
				if callee == nil || callee.Pkg == nil || callee.Pkg.Pkg.Path() != "fmt" || callee.Name() != "Errorf" {
					continue
				}
				fc, ok := c.Call.Args[0].(*ssa.Const)
				if !ok || fc.Value == nil {
					continue
				}
				format := constant.StringVal(fc.Value)
				verbs := formatVerbs(format)
				args := sliceLiteralElems(c.Call.Args[1])
				// sliceLiteralElems returns stores in referrer order = index order for varargs arrays
				for i, a := range args {
					isErr := false
					if mi, ok := a.(*ssa.MakeInterface); ok && types.Identical(mi.X.Type(), errT) {
						isErr = true
					}
					if ci, ok := a.(*ssa.ChangeInterface); ok && types.Identical(ci.X.Type(), errT) {
						isErr = true
					}
					if !isErr {
						continue
					}
					n++
					v := byte('?')
					if i < len(verbs) {
						v = verbs[i]
					}
					if reason, ok := exemptionsC03[w.fnName(fn)+" | fmt.Errorf "+format]; ok {
						r.add(rule, fn, fmt.Sprintf("fmt.Errorf(%q) operand %d", format, i), c.Pos(), "exempt", reason)
						continue
					}
					// the same exemption by what the operand is rather than where it stands: the arity error the
					// parameter binder has just created (through a helper's parameter: at every call site)
					if binderErrorOnly(w, newEngine(w), a, 0) {
						r.add(rule, fn, fmt.Sprintf("fmt.Errorf(%q) operand %d", format, i), c.Pos(), "exempt", exemptionsC03["lisp.EVAL | fmt.Errorf %s (around %s)"])
						continue
					}
					r.check(v == 'w', rule, fn, fmt.Sprintf("fmt.Errorf(%q) operand %d", format, i), c.Pos(), "%w", fmt.Sprintf("error operand formatted with %%%c: the original is no longer reachable with errors.Is", v))
				}
			}
		}
	}
	r.floor(rule, "fmt.Errorf calls with an error operand", n, 3)
}

func formatVerbs(f string) []byte {
	var out []byte
	for i := 0; i < len(f); i++ {
		if f[i] != '%' {
			continue
		}
		i++
		for i < len(f) && strings.ContainsRune("+-# 0123456789.*[]", rune(f[i])) {
			i++
		}
		if i < len(f) && f[i] != '%' {
			out = append(out, f[i])
		}
	}
	return out
}

// rulePropagate: error results of nested evaluating calls are returned unchanged.
func rulePropagate(m *evalModel, r *Report) {
	n := 0
	for _, fn := range []*ssa.Function{m.EVAL, m.evalAst, m.doFn, m.macroexpand} {
		for _, rt := range m.returns(fn) {
			ret := rt[0].(*ssa.Return)
			ev, _ := rt[2].(ssa.Value)
			if ev == nil || isNilConst(ev) {
				continue
			}
			// constructors applied to an existing error
			if mi, ok := ev.(*ssa.MakeInterface); ok {
				if c, ok := mi.X.(*ssa.Call); ok && c.Call.StaticCallee() != nil && c.Call.StaticCallee().Name() == "NewLispError" {
					arg := c.Call.Args[0]
					if ci, ok := arg.(*ssa.ChangeInterface); ok {
						arg = ci.X
					}
					if pcs := m.producingCalls(arg, map[ssa.Value]bool{}); len(pcs) > 0 {
						pc := pcs[0]
						callee := pc.Call.StaticCallee()
						// (the runner of the try body - a literal of EVAL or a function of the package that evaluates - is nested evaluation too)
						nested := callee != nil && callee != m.EVAL && (callee.Parent() == m.EVAL || m.helperOf(callee) != nil) && m.evalRelevant(callee, map[*ssa.Function]bool{})
						if callee == m.EVAL || callee == m.evalAst || callee == m.doFn || callee == m.macroexpand || callee == m.apply || nested {
							n++
							r.bad("C03.propagate", fn, "error of "+callee.Name()+" re-positioned", ret.Pos(), "an error coming back from nested evaluation is re-positioned on the way up: the innermost position is lost")
						}
					}
				}
				continue
			}
			pcs := m.producingCalls(ev, map[ssa.Value]bool{})
			for _, pc := range pcs {
				callee := pc.Call.StaticCallee()
				if callee == m.EVAL || callee == m.evalAst || callee == m.doFn || callee == m.macroexpand || callee == m.apply || callee == m.quasiquote {
					n++
					r.ok("C03.propagate", fn, "error of "+callee.Name()+" returned", ret.Pos(), "the same error value")
				}
			}
		}
	}
	r.floor("C03.propagate", "error returns fed by nested evaluation", n, 8)
	// the error returned under a failed check is the error that was checked
	nc := 0
	var checkedIn []*ssa.Function
	inSet := map[*ssa.Function]bool{}
	for _, fn := range m.evalFuncs() {
		checkedIn = append(checkedIn, fn)
		inSet[fn] = true
	}
	for _, fn := range m.w.Funcs {
		if !inSet[fn] && runtimePkg(fnPkgPath(fn)) && !isTestFunc(m.w, fn) && fn.Signature.Results().Len() > 0 && isErrorType(fn.Signature.Results().At(fn.Signature.Results().Len()-1).Type()) {
			checkedIn = append(checkedIn, fn)
		}
	}
	for _, fn := range checkedIn {
		for _, rt := range errorReturns(fn) {
			ret := rt[0].(*ssa.Return)
			ev, _ := rt[2].(ssa.Value)
			if ev == nil || isNilConst(ev) || !isErrorType(ev.Type()) {
				continue
			}
			checked := nearestCheckedError(ret.Block())
			if checked == nil {
				continue
			}
			nc++
			if !derivesFromErr(ev, checked, 0) && !carriesExistingError(ev, 0) {
				r.ok("C03.propagate", fn, "error returned after a failed check of "+describeVal(m.e, checked, 0), ret.Pos(), "a newly constructed error that replaces the checked one")
				continue
			}
			r.check(derivesFromErr(ev, checked, 0), "C03.propagate", fn, "error returned after a failed check of "+describeVal(m.e, checked, 0), ret.Pos(), "the checked error itself (possibly positioned or wrapped)", "the branch taken because "+describeVal(m.e, checked, 0)+" is an error returns a different error ("+describeVal(m.e, ev, 0)+"): the error that actually occurred is lost")
		}
	}
	r.floor("C03.propagate", "error returns under a failed error check", nc, 10)
	// (a) an error that comes out of nested evaluation reaches the caller as the same value: not wrapped, not
	// re-positioned; (b) once a nested evaluation has failed, the function returns that error - it does not retry,
	// continue or return something else
	isEvalCallee := func(f *ssa.Function) bool {
		return f != nil && (f == m.EVAL || f == m.evalAst || f == m.doFn || f == m.macroexpand || f == m.apply || f == m.quasiquote)
	}
	nf := 0
	for _, fn := range checkedIn {
		for _, rt := range errorReturns(fn) {
			ret := rt[0].(*ssa.Return)
			ev, _ := rt[2].(ssa.Value)
			if ev == nil || isNilConst(ev) || !isErrorType(ev.Type()) {
				continue
			}
			for _, leaf := range existingErrorLeaves(ev, 0) {
				if leaf == ev {
					continue
				}
				for _, pc := range m.producingCalls(leaf, map[ssa.Value]bool{}) {
					if isEvalCallee(pc.Call.StaticCallee()) {
						nf++
						r.bad("C03.propagate", fn, "error of "+pc.Call.StaticCallee().Name()+" altered on the way up", ret.Pos(), "the error of a nested evaluation is wrapped or re-built ("+describeVal(m.e, ev, 0)+"): catch and the Go caller no longer receive the thrown object itself")
					}
				}
			}
		}
		for _, b := range fn.Blocks {
			for _, in := range b.Instrs {
				c, ok := in.(*ssa.Call)
				if !ok || !isEvalCallee(c.Call.StaticCallee()) {
					continue
				}
				x := extractOf(c, 1)
				if x == nil {
					continue
				}
				for _, ref := range *x.Referrers() {
					bo, ok := ref.(*ssa.BinOp)
					if !ok || (bo.Op != token.NEQ && bo.Op != token.EQL) || !(isNilConst(bo.X) || isNilConst(bo.Y)) {
						continue
					}
					for _, u := range *bo.Referrers() {
						iff, ok := u.(*ssa.If)
						if !ok {
							continue
						}
						idx := 0
						if bo.Op == token.EQL {
							idx = 1
						}
						nf++
						problem := ""
						seenB := map[*ssa.BasicBlock]bool{}
						work := []*ssa.BasicBlock{iff.Block().Succs[idx]}
						for len(work) > 0 && problem == "" {
							cur := work[len(work)-1]
							work = work[:len(work)-1]
							if seenB[cur] {
								continue
							}
							seenB[cur] = true
							if cur == c.Block() {
								problem = "the evaluation is attempted again after it failed (the error is dropped)"
								break
							}
							if len(cur.Instrs) > 0 {
								if ret, ok := cur.Instrs[len(cur.Instrs)-1].(*ssa.Return); ok {
									if len(ret.Results) == 0 {
										problem = "returns without the error"
										break
									}
									ev := resolveRet(ret.Results[len(ret.Results)-1])
									if !isErrorType(ev.Type()) || !derivesFromErr(ev, x, 0) {
										problem = "a return reachable after the failure does not return that error (" + describeVal(m.e, ev, 0) + ")"
									}
									continue
								}
							}
							work = append(work, cur.Succs...)
						}
						r.check(problem == "", "C03.propagate", fn, "after "+c.Call.StaticCallee().Name()+" failed", c.Pos(), "every path returns that error", problem)
					}
				}
			}
		}
	}
	// the error of a nested evaluation kept in a variable is not overwritten with an error made on the spot
	// where the variable is known to hold that error
	for _, fn := range checkedIn {
		for _, b := range fn.Blocks {
			for _, in := range b.Instrs {
				st0, ok := in.(*ssa.Store)
				if !ok {
					continue
				}
				x, ok := st0.Val.(*ssa.Extract)
				if !ok || !isErrorType(x.Type()) {
					continue
				}
				c, ok := x.Tuple.(*ssa.Call)
				if !ok || !isEvalCallee(c.Call.StaticCallee()) {
					continue
				}
				cell := cellOf(st0.Addr)
				if cell == nil {
					continue
				}
				// (the variable's address may be handed to the recover handler: the stores of this function are
				// what matters here)
				var sameFn []*ssa.Store
				for _, b2 := range fn.Blocks {
					for _, in2 := range b2.Instrs {
						if s2, ok := in2.(*ssa.Store); ok && s2.Addr == st0.Addr {
							sameFn = append(sameFn, s2)
						}
					}
				}
				for _, st1 := range sameFn {
					if st1 == st0 || st1.Parent() != fn || !b.Dominates(st1.Block()) || len(existingErrorLeaves(st1.Val, 0)) > 0 || isNilConst(st1.Val) {
						continue
					}
					// ... under a test that the variable is not nil
					for _, a := range knownConds(st1.Block()) {
						bo, ok := a.v.(*ssa.BinOp)
						if !ok || !isNilConst(bo.Y) {
							continue
						}
						ld, isLd := bo.X.(*ssa.UnOp)
						if !isLd || cellOf(ld.X) != cell {
							continue
						}
						if (bo.Op == token.NEQ && a.pol) || (bo.Op == token.EQL && !a.pol) {
							nf++
							r.bad("C03.propagate", fn, "error of "+c.Call.StaticCallee().Name()+" replaced", st1.Pos(), "where the variable holds the error of the nested evaluation it is assigned an error built on the spot ("+describeVal(m.e, st1.Val, 0)+"): the thrown value is lost - catch receives the replacement, and errors.Is / ErrorValue at the Go caller no longer find the original")
						}
					}
				}
			}
		}
	}
	r.floor("C03.propagate", "failed-evaluation edges followed to their returns", nf, 10)
}

// existingErrorLeaves: the pre-existing error values v is, positions or wraps (empty for an error built on the spot).
func existingErrorLeaves(v ssa.Value, depth int) []ssa.Value {
	if depth > 8 {
		return nil
	}
	switch y := v.(type) {
	case *ssa.Const:
		return nil
	case *ssa.MakeInterface:
		if !isErrorType(y.X.Type()) {
			if c, ok := y.X.(*ssa.Call); ok {
				return existingErrorLeaves(c, depth+1)
			}
			return nil
		}
		return existingErrorLeaves(y.X, depth+1)
	case *ssa.ChangeInterface:
		return existingErrorLeaves(y.X, depth+1)
	case *ssa.Phi:
		var out []ssa.Value
		for _, op := range y.Edges {
			out = append(out, existingErrorLeaves(op, depth+1)...)
		}
		return out
	case *ssa.Call:
		c := y.Call.StaticCallee()
		if c == nil {
			return []ssa.Value{v}
		}
		switch c.Name() {
		case "New":
			return nil
		case "NewLispError":
			a := y.Call.Args[0]
			if _, isIface := unboxed(a).Type().Underlying().(*types.Interface); !isIface {
				return nil
			}
			return existingErrorLeaves(unboxed(a), depth+1)
		case "Errorf":
			var out []ssa.Value
			if len(y.Call.Args) == 2 {
				for _, el := range sliceLiteralElems(y.Call.Args[1]) {
					if u := unboxed(el); isErrorType(u.Type()) {
						out = append(out, existingErrorLeaves(u, depth+1)...)
					}
				}
			}
			return out
		}
		return []ssa.Value{v}
	}
	return []ssa.Value{v}
}

// nearestCheckedError: the error value whose non-nil test is the innermost branch condition the block is under.
func nearestCheckedError(b *ssa.BasicBlock) ssa.Value {
	for d := b.Idom(); d != nil; d = d.Idom() {
		iff := blockIf(d)
		if iff == nil {
			continue
		}
		bo, ok := iff.Cond.(*ssa.BinOp)
		if !ok || (bo.Op != token.NEQ && bo.Op != token.EQL) {
			continue
		}
		var x ssa.Value
		switch {
		case isNilConst(bo.Y) && isErrorType(bo.X.Type()):
			x = bo.X
		case isNilConst(bo.X) && isErrorType(bo.Y.Type()):
			x = bo.Y
		default:
			continue
		}
		nonNilEdge := 0
		if bo.Op == token.EQL {
			nonNilEdge = 1
		}
		if edgeDominates(d, nonNilEdge, b) {
			return x
		}
		if edgeDominates(d, 1-nonNilEdge, b) {
			return nil // under the no-error edge of the innermost check: nothing to say
		}
	}
	return nil
}

// derivesFromErr: v is x, or x positioned (NewLispError), boxed or wrapped (fmt.Errorf with x as an operand).
func derivesFromErr(v, x ssa.Value, depth int) bool {
	if v == x {
		return true
	}
	if depth > 8 {
		return false
	}
	switch y := v.(type) {
	case *ssa.MakeInterface:
		return derivesFromErr(y.X, x, depth+1)
	case *ssa.ChangeInterface:
		return derivesFromErr(y.X, x, depth+1)
	case *ssa.Phi:
		for _, op := range y.Edges {
			if derivesFromErr(op, x, depth+1) {
				return true
			}
		}
	case *ssa.UnOp:
		if y.Op == token.MUL {
			// a result cell: any value stored into it
			if al, ok := y.X.(*ssa.Alloc); ok {
				// the check read the same cell and nothing was stored into it since
				if xl, ok := x.(*ssa.UnOp); ok && xl.Op == token.MUL && xl.X == ssa.Value(al) {
					clean := true
					for _, ref := range *al.Referrers() {
						if st, ok := ref.(*ssa.Store); ok && st.Addr == ssa.Value(al) && st.Block() != xl.Block() && st.Block() != y.Block() && xl.Block().Dominates(st.Block()) && st.Block().Dominates(y.Block()) {
							clean = false
						}
						if st, ok := ref.(*ssa.Store); ok && st.Addr == ssa.Value(al) && st.Block() == y.Block() && st.Block() != xl.Block() {
							// only stores that precede the load matter
							for _, in := range y.Block().Instrs {
								if in == ssa.Instruction(st) {
									clean = false
								}
								if in == ssa.Instruction(y) {
									break
								}
							}
						}
					}
					if clean {
						return true
					}
				}
				for _, ref := range *al.Referrers() {
					if st, ok := ref.(*ssa.Store); ok && st.Addr == ssa.Value(al) && derivesFromErr(st.Val, x, depth+1) {
						return true
					}
				}
			}
		}
	case *ssa.Call:
		c := y.Call.StaticCallee()
		if c == nil {
			return false
		}
		switch c.Name() {
		case "NewLispError":
			return derivesFromErr(y.Call.Args[0], x, depth+1)
		case "Errorf":
			if len(y.Call.Args) == 2 {
				for _, el := range sliceLiteralElems(y.Call.Args[1]) {
					if derivesFromErr(el, x, depth+1) {
						return true
					}
				}
			}
		}
		// a function of the module that positions or decorates the error it is given: every error it returns
		// derives from its error parameter
		if pi, ok := errDecorator(c); ok && pi < len(y.Call.Args) {
			return derivesFromErr(y.Call.Args[pi], x, depth+1)
		}
	}
	return false
}

var errDecoBusy = map[*ssa.Function]bool{}

// errDecorator: fn is an unexported module function with one error parameter and one error result all of whose
// returns derive from that parameter (it only positions / rewords the error). Returns the parameter's index.
func errDecorator(fn *ssa.Function) (int, bool) {
	if fn == nil || len(fn.Blocks) == 0 || !inModule(fn) || errDecoBusy[fn] {
		return 0, false
	}
	if fn.Parent() == nil && (fn.Object() == nil || fn.Object().Exported()) {
		return 0, false // (a function literal called where it is defined is as private as an unexported function)
	}
	res := fn.Signature.Results()
	if res.Len() != 1 || !isErrorType(res.At(0).Type()) {
		return 0, false
	}
	pi := -1
	for i, p := range fn.Params {
		if isErrorType(p.Type()) {
			if pi >= 0 {
				return 0, false
			}
			pi = i
		}
	}
	if pi < 0 {
		return 0, false
	}
	errDecoBusy[fn] = true
	defer delete(errDecoBusy, fn)
	n := 0
	for _, b := range fn.Blocks {
		if len(b.Instrs) == 0 || b == fn.Recover {
			continue
		}
		ret, ok := b.Instrs[len(b.Instrs)-1].(*ssa.Return)
		if !ok || len(ret.Results) != 1 {
			continue
		}
		n++
		if !derivesFromErr(resolveRet(ret.Results[0]), fn.Params[pi], 0) {
			return 0, false
		}
	}
	return pi, n > 0
}

// ---------------------------------------------------------------------------
// C08

func checkC08(w *World, r *Report) {
	m, _ := needModel(w, r, "C08.tail")
	if m == nil {
		return
	}
	r.rule("C08.tail", "EVAL never returns the result of an evaluating call in a tail region (let, do, if, quasiquote, closure application, catch handler): the tail form continues the loop; the only returns of evaluating calls are eval_ast on a non-list form, the try body's value, a Go builtin's result, unevaluated expansions and the stepping-mode continuation under Stepper != nil")
	r.rule("C08.once", "the body helper is used in its 'return last as a form' mode in every tail region (otherwise the tail form would be evaluated by recursion through eval_ast and then again by the loop): shared with C01.once / C01.body")
	r.rule("C08.iter", "between the loop header and the special-form dispatch the only evaluating calls are macro expansion (which returns before the loop continues) and eval_ast on non-list forms")
	ruleTail(m, r, "C08.tail")
	ruleOnce(m, r, "C08.once")
	n := 0
	for _, ec := range m.evalCalls() {
		if ec.fn != m.EVAL || m.regionOf(ec.call.Block()) != "" || m.stepBlocks[ec.call.Block()] {
			continue
		}
		n++
		okc := ec.callee == m.macroexpand || ec.callee == m.evalAst
		if ec.callee == m.EVAL && m.stepperGuarded(ec.call.Block()) {
			okc = true
		}
		r.check(okc, "C08.iter", m.EVAL, "evaluating call before the dispatch: "+ec.callee.Name(), ec.call.Pos(), "macro expansion / non-list evaluation / stepping continuation", "the evaluator recurses before dispatching: every iteration of a tail loop adds a host frame")
	}
	r.floor("C08.iter", "evaluating calls before the dispatch", n, 3)
	macroTailRule(w, r, "C08.lisp")
	// "loops of any length complete": the evaluator spends no budget per iteration - no counter of its own is
	// compared with a fixed limit (a guard against runaway recursion that is charged per tail call, or per macro
	// expansion, ends long loops that use no stack at all), and it keeps no such counter at package level
	r.rule("C08.no-budget", "no function of the evaluator (EVAL, eval_ast, the body helper, macroexpand and the functions of the package they are built from) compares an integer count with a constant limit, and the evaluator's package keeps no counters: a tail-recursive loop is not ended by how many iterations, calls or expansions it has made")
	{
		var efs []*ssa.Function
		for _, f := range []*ssa.Function{m.EVAL, m.evalAst, m.doFn, m.macroexpand} {
			efs = append(efs, w.withPkgHelpers(f)...)
		}
		countLimitScan(w, r, "C08.no-budget", efs, "the evaluator", true)
		sharedStateRule(w, r, "C08.no-budget", "")
	}
	stepperDefaultRule(w, r, m, "C08.stepper-default")
	// closures stay closures: the loop continues only for MalFunc operators
	r.rule("C08.no-trampoline", "no builtin creates, while a program runs, a Go function value (types.Func) whose body applies a lisp closure it captured: such a wrapper hides the closure from the evaluation loop, so every tail call through it nests Apply and EVAL on the host stack (a closure with metadata, a decorated closure must stay a MalFunc)")
	{
		extSig := w.ByPath[modPath+"/types"].Types.Scope().Lookup("ExternalCall").Type().Underlying().(*types.Signature)
		ntr := 0
		seenT := map[*ssa.Function]bool{}
		var troots []*ssa.Function
		for _, root := range w.registeredFuncs() {
			if strings.HasPrefix(fnPkgPath(root), modPath+"/lib/") {
				troots = append(troots, root)
			}
		}
		// ... nor does the evaluator itself (a definition that stores a wrapper instead of the closure)
		for _, f := range w.Funcs {
			if f.Pkg == m.EVAL.Pkg && f.Parent() == nil && !isTestFunc(w, f) {
				troots = append(troots, f)
			}
		}
		for _, root := range troots {
			for _, f := range w.withPkgHelpers(root) {
				for _, g := range append([]*ssa.Function{f}, allAnon(f)...) {
					if seenT[g] {
						continue
					}
					seenT[g] = true
					for _, b := range g.Blocks {
						for _, in := range b.Instrs {
							mc, ok := in.(*ssa.MakeClosure)
							if !ok {
								continue
							}
							cl := mc.Fn.(*ssa.Function)
							if !sameParamsResults(cl.Signature, extSig) {
								continue
							}
							ntr++
							wraps := false
							for _, cb := range cl.Blocks {
								for _, cin := range cb.Instrs {
									c, ok := cin.(*ssa.Call)
									if !ok || (c.Call.StaticCallee() != m.apply && c.Call.StaticCallee() != m.EVAL) || len(c.Call.Args) < 2 {
										continue
									}
									// the function applied is one the closure captured
									arg := c.Call.Args[1]
									for depth := 0; depth < 4; depth++ {
										switch y := arg.(type) {
										case *ssa.MakeInterface:
											arg = y.X
										case *ssa.ChangeInterface:
											arg = y.X
										case *ssa.UnOp:
											arg = y.X
										case *ssa.Field:
											arg = y.X
										}
									}
									if _, isFree := arg.(*ssa.FreeVar); isFree {
										wraps = true
									}
								}
							}
							r.check(!wraps, "C08.no-trampoline", g, "Go function value built around a captured closure", mc.Pos(), "does not apply a captured lisp function", "a builtin hands out a types.Func whose body applies the closure it captured: calls through it, tail calls included, go Fn -> Apply -> EVAL and add host frames per iteration")
						}
					}
				}
			}
		}
		r.add("C08.no-trampoline", nil, "function values created by builtins at run time", token.NoPos, "ok", fmt.Sprintf("%d examined", ntr))
	}
	// loop-carried state besides the form and the scope
	r.rule("C08.loop-state", "the evaluation loop carries only the form and the scope from one iteration to the next: the context it runs under stays the one EVAL was given (a context derived from the previous iteration's context grows a chain that Done/Err/Value descend recursively, one host frame per iteration, and that is never released)")
	{
		nls := 0
		for _, b := range m.EVAL.Blocks {
			if !m.header.Dominates(b) || m.stepBlocks[b] {
				continue
			}
			for _, in := range b.Instrs {
				switch x := in.(type) {
				case *ssa.Store:
					if m.ctxCell != nil && cellOf(x.Addr) == m.ctxCell {
						nls++
						reach := blockReaches(b, m.header, false)
						r.check(!reach || x.Val == ssa.Value(m.ctxParam), "C08.loop-state", m.EVAL, "context replaced inside the evaluation loop", x.Pos(), "does not reach the next iteration", "the loop continues under a context built in this iteration: every tail call lengthens the context chain, which the cancellation check and every blocking builtin walk recursively")
					}
				case *ssa.Phi:
					if b == m.header && isContext(x.Type()) {
						nls++
						okp := true
						for _, ed := range x.Edges {
							if ed != ssa.Value(m.ctxParam) && ed != ssa.Value(x) {
								okp = false
							}
						}
						r.check(okp, "C08.loop-state", m.EVAL, "loop-carried context", x.Pos(), "always the context EVAL was given", "the loop continues under a context built in an earlier iteration: every tail call lengthens the context chain, which the cancellation check and every blocking builtin walk recursively")
					}
				}
			}
		}
		r.add("C08.loop-state", m.EVAL, "contexts carried around the evaluation loop", m.EVAL.Pos(), "ok", fmt.Sprintf("%d assignment(s) to the context inside the loop examined", nls))
	}
	// informational: defers inside the loop
	for _, b := range m.EVAL.Blocks {
		for _, in := range b.Instrs {
			if d, ok := in.(*ssa.Defer); ok && m.header.Dominates(b) && !m.stepBlocks[b] {
				r.add("C08.defer", m.EVAL, "defer inside the evaluation loop", d.Pos(), "info", "a tail-recursive function containing try grows the defer chain (heap, not stack) by one entry per iteration")
			}
		}
	}
	r.rule("C08.defer", "informational: defers registered inside the evaluation loop")
	r.Assumptions = append(r.Assumptions, "measured stack depth, Go's own stack growth for builtins and mutual recursion through builtins (apply, map) are not decided; the header macros cond/and/or are covered only through the tail regions they expand to")
}

// ---------------------------------------------------------------------------
// C12

func checkC12(w *World, r *Report) {
	m, e := needModel(w, r, "C12.unevaluated")
	if m == nil {
		return
	}
	// "everything else returned literally": the literal parts of a template and the operands a macro receives are
	// the source's own objects; a builtin that writes into a value it was handed changes the template, and the
	// next evaluation of the same template or call site builds another form
	r.include("C12.template-", "C02.", "the maps, lists and vectors of a template (and a macro's operands) are objects of the program text itself: no builtin writes into a value it was handed, so evaluating a template twice yields the same form twice", checkC02, func(rule string) bool {
		return rule == "C02.write"
	})
	// the expansion of a template is a chain of cons/concat/vec calls: what those builtins are handed must be the
	// values the template's parts evaluated to, not what another call of the same builtin left in shared storage
	r.rule("C12.adapter-state", "a template is built by builtin calls (cons, concat, vec): the adapter of a registered builtin keeps nothing writable between calls, so the elements one expansion collects are not replaced by those of another evaluation running the same builtin (shared with C10.adapter-state)")
	capturedStateRule(w, r, e, "C12.adapter-state")
	// a splice puts all the elements of its value in place: concat walks all of its arguments (an empty splice in
	// the middle of a template does not end it)
	argLoopCompleteRule(w, r, "C12.splice-all")
	// "its expansion is evaluated in the caller's scope": what an expansion defines stays in the scope of the call
	// it was written in - every function call gets a scope of its own, also one without parameters
	scopeNewRule(w, r, "C12.scope-new")
	// the forms quasiquote writes ((quote x), (concat …), (cons …)) and the (do …) around a closure body mean what
	// they spell wherever they are evaluated
	dispatchRules(m, r, "C12")
	r.rule("C12.unevaluated", "the argument slice handed to the macro function in the expansion loop is a projection (elements from index 1) of the call form: operands are passed unevaluated")
	r.rule("C12.caller-scope", "the expansion replaces the form before the dispatch, in the caller's scope: macroexpand is called with the current scope, passes that scope to the macro test and to the lookup, and the scope is not changed between expansion and dispatch")
	r.rule("C12.fixpoint", "macroexpand loops while the macro test holds on the updated form and returns that form; the macroexpand and quasiquoteexpand special forms return expansions unevaluated")
	r.rule("C12.macro-lookup", "whether the head of a form is a macro is decided by the innermost binding of its name: Find/Get consult the receiver's own table first and ascend only when the name is not bound there (shared with C01.lookup-order), so a macro bound as a parameter or let variable is found like any other")
	{
		before, beforeF := len(r.Obl), len(r.Floors)
		ruleLookupOrder(w, r, e)
		for i := before; i < len(r.Obl); i++ {
			if r.Obl[i].Rule == "C01.lookup-order" {
				r.Obl[i].Rule = "C12.macro-lookup"
			}
		}
		for i := beforeF; i < len(r.Floors); i++ {
			if r.Floors[i].Rule == "C01.lookup-order" {
				r.Floors[i].Rule = "C12.macro-lookup"
			}
		}
	}
	// the macro test reads the scope chain while other evaluations define names in it: every table of the chain is
	// read under the lock of the scope it belongs to (an unguarded read of a table being written aborts the process)
	// "defmacro binds a macro in the current scope": the scope rules of the evaluator (shared with C01.scope)
	r.rule("C12.defining-scope", "defmacro (like def) writes its binding into the current scope, never into a scope found by looking the name up: a macro defined inside a function or let does not replace a binding of the same name further out (shared with C01.scope)")
	ruleScope(m, r, "C12.defining-scope")
	// "ordinary functions are unaffected": what def binds is the value its operand evaluated to, not an older
	// value of that name patched up (which would keep the old value's macro flag)
	r.rule("C12.def-verbatim", "def binds exactly the value it evaluated: a closure bound by def is the closure fn built (macro flag false), never a copy of what the name held before (shared with C01.def)")
	{
		before, beforeF := len(r.Obl), len(r.Floors)
		ruleDef(m, r)
		for i := before; i < len(r.Obl); i++ {
			if r.Obl[i].Rule == "C01.def" {
				r.Obl[i].Rule = "C12.def-verbatim"
			}
		}
		for i := beforeF; i < len(r.Floors); i++ {
			if r.Floors[i].Rule == "C01.def" {
				r.Floors[i].Rule = "C12.def-verbatim"
			}
		}
	}
	r.rule("C12.macro-lookup-guard", "every access to a scope's table of bindings - the macro test's Find included - is made while the mutex of that very scope is held (or on a scope not yet shared): shared with C11.data")
	guardRule(w, r, e, "C12.macro-lookup-guard", w.guardRows()[2])
	r.rule("C12.copy", "a function value rebuilt field by field from an existing one (with-meta and the like) accounts for every field of MalFunc, so the macro flag, the scope builder and the evaluator travel with the copy")
	partialCopyRule(w, r, "C12.copy", "MalFunc")
	r.rule("C12.flag", "defmacro binds the result of SetMacro (a value-receiver method setting IsMacro on its copy) applied to the evaluated function; fn builds IsMacro:false; the macro test is true only through GetMacro; the application region never looks at the macro flag")
	r.rule("C12.names", "every symbol the quasiquote transform generates is a special form or a registered builtin, and the tags it tests are the ones the reader generates for ~ and ~@")
	r.rule("C12.qq-dispatch", "quasiquote dispatches on exactly List, Vector, HashMap and Symbol (everything else returned literally); the vector case wraps the element loop with the vector constructor; splice-unquote is recognised only for list elements; the element loop runs from the last element to the first with the accumulator as last operand (order preserved)")
	r.rule("C12.once", "expansions and quasiquote results are forms; values never flow back into the evaluator (shared with C01.once)")
	ruleOnce(m, r, "C12.once")
	cl := m.classifier()
	// unevaluated
	applies := staticCallsTo(m.macroexpand, m.apply)
	if r.check(len(applies) == 1, "C12.unevaluated", m.macroexpand, "application of the macro function", m.macroexpand.Pos(), "one Apply per expansion step", fmt.Sprintf("%d Apply calls", len(applies))) {
		ap := applies[0]
		args := ap.Call.Args[2]
		k := cl.of(args)
		okProj := false
		if sl, ok := args.(*ssa.Slice); ok && sl.High == nil {
			if c, ok := sl.Low.(*ssa.Const); ok && c.Value != nil && c.Int64() == 1 {
				okProj = true
			}
		}
		r.check(k == clsForm && okProj, "C12.unevaluated", m.macroexpand, "arguments of the macro function", ap.Pos(), "the form's elements from index 1, unevaluated", "macro operands are "+k.String()+" / not the form's elements from index 1")
		// macro function looked up in the scope parameter under the head symbol
	}
	// caller scope
	var envP *ssa.Parameter
	for _, p := range m.macroexpand.Params {
		if strings.HasSuffix(p.Type().String(), "types.EnvType") {
			envP = p
		}
	}
	n := 0
	for _, b := range m.macroexpand.Blocks {
		for _, in := range b.Instrs {
			ci, ok := in.(ssa.CallInstruction)
			if !ok {
				continue
			}
			c := ci.Common()
			if c.StaticCallee() == m.isMacroCall {
				n++
				r.check(c.Args[1] == ssa.Value(envP), "C12.caller-scope", m.macroexpand, "scope of the macro test", in.Pos(), "the caller's scope", "the macro test looks the head up in another scope")
			}
			if c.IsInvoke() && c.Method.Name() == "Get" {
				n++
				r.check(c.Value == ssa.Value(envP), "C12.caller-scope", m.macroexpand, "scope of the macro lookup", in.Pos(), "the caller's scope", "the macro is looked up in another scope")
			}
		}
	}
	for _, ec := range m.evalCalls() {
		if ec.callee == m.macroexpand && ec.fn == m.EVAL {
			n++
			k, _ := m.scopeKindOf(ec.env)
			r.check(k == scCurrent, "C12.caller-scope", m.EVAL, "scope given to macroexpand in "+nz(m.regionOf(ec.call.Block()), "the loop head"), ec.call.Pos(), "current scope", "expansion happens in "+k.String())
		}
	}
	// no store to the scope cell between the loop header and the dispatch
	for _, st := range m.scopeSwitches() {
		if m.regionOf(st.block) == "" && m.header.Dominates(st.block) && !m.defaultRegion[st.block] {
			r.bad("C12.caller-scope", m.EVAL, "scope changed before the dispatch", st.pos, "the expansion would be evaluated in another scope than the macro call")
		}
	}
	r.floor("C12.caller-scope", "scope uses around expansion", n, 4)
	// fixpoint
	loops := naturalLoops(m.macroexpand)
	if r.check(len(loops) == 1, "C12.fixpoint", m.macroexpand, "expansion loop", m.macroexpand.Pos(), "one loop", "macroexpand is not a loop") {
		h := loops[0].header
		var formPhi *ssa.Phi
		for _, in := range h.Instrs {
			if phi, ok := in.(*ssa.Phi); ok && isMalType(phi.Type()) {
				formPhi = phi
			}
		}
		okCond := false
		if iff := blockIf(h); iff != nil {
			if c, ok := iff.Cond.(*ssa.Call); ok && c.Call.StaticCallee() == m.isMacroCall && formPhi != nil && c.Call.Args[0] == ssa.Value(formPhi) {
				okCond = true
			}
		}
		r.check(okCond, "C12.fixpoint", m.macroexpand, "loop condition", m.macroexpand.Pos(), "the macro test applied to the updated form", "the loop does not re-test the updated form")
		okRet := expanderReturnsLoopForm(m, formPhi)
		r.check(okRet, "C12.fixpoint", m.macroexpand, "value returned", m.macroexpand.Pos(), "the form the loop stopped at", "macroexpand returns something other than the fully expanded form")
		// back-edge value of the form is the Apply result
		if formPhi != nil {
			okBack := false
			for i, op := range formPhi.Edges {
				if loopBlocks(loops[0])[h.Preds[i]] {
					if pcs := m.producingCalls(op, map[ssa.Value]bool{}); len(pcs) == 1 && pcs[0].Call.StaticCallee() == m.apply {
						okBack = true
					}
				}
			}
			r.check(okBack, "C12.fixpoint", m.macroexpand, "form after one step", m.macroexpand.Pos(), "the macro function's result", "the loop does not continue with the macro's result")
		}
	}
	for _, name := range []string{"macroexpand", "quasiquoteexpand", "quote"} {
		reg, ok := m.regions[name]
		if !ok {
			r.undecided("C12.fixpoint", m.EVAL, "special form "+name, token.NoPos, "not found in the dispatch")
			continue
		}
		okNoEval := true
		for _, ec := range m.evalCalls() {
			if ec.fn == m.EVAL && reg[ec.call.Block()] && ec.callee != m.macroexpand {
				okNoEval = false
			}
		}
		r.check(okNoEval && !m.reachesHeader(reg), "C12.fixpoint", m.EVAL, name+" returns its result unevaluated", token.NoPos, "no evaluating call, does not continue the loop", name+" evaluates its result")
	}
	// flag
	if _, ok := m.regions["defmacro"]; ok {
		okSet := false
		for _, b := range m.regionBlocks("defmacro") {
			for _, in := range b.Instrs {
				ci, ok := in.(ssa.CallInstruction)
				if !ok || !ci.Common().IsInvoke() || ci.Common().Method.Name() != "Set" {
					continue
				}
				vals := m.valuesIn(ci.Common().Args[1], "defmacro", 0)
				allMarked := len(vals) > 0
				for _, v := range vals {
					c, ok := v.(*ssa.Call)
					// receiver of SetMacro is the evaluated value (asserted to MalFunc)
					if !ok || c.Call.StaticCallee() == nil || c.Call.StaticCallee().Name() != "SetMacro" || cl.of(c.Call.Args[0]) != clsValue {
						allMarked = false
					}
				}
				if allMarked {
					okSet = true
				}
			}
		}
		r.check(okSet, "C12.flag", m.EVAL, "value bound by defmacro", token.NoPos, "SetMacro() of the evaluated function", "defmacro does not bind the macro-flagged copy of the evaluated function")
		// ... and the value of the defmacro form is the macro it bound (Set's own result, or the marked copy), not
		// the closure the operand evaluated to: (def m2 (defmacro m1 ...)) makes m2 a macro too
		if reg, ok := m.regions["defmacro"]; ok {
			for _, rt := range m.returns(m.EVAL) {
				ret := rt[0].(*ssa.Return)
				ev, _ := rt[2].(ssa.Value)
				if !reg[ret.Block()] || (ev != nil && !isNilConst(ev)) {
					continue
				}
				v := rt[1].(ssa.Value)
				okVal := false
				for _, lf := range append([]ssa.Value{v}, m.valuesIn(v, "defmacro", 0)...) {
					lf = unboxed(lf)
					if c, isCall := lf.(*ssa.Call); isCall {
						if c.Call.IsInvoke() && c.Call.Method.Name() == "Set" {
							okVal = true
						}
						if sc := c.Call.StaticCallee(); sc != nil && (sc.Name() == "SetMacro" || m.helperOf(sc) != nil || (sc.Pkg == m.EVAL.Pkg && !m.isCore(sc))) {
							okVal = true
						}
					}
				}
				r.check(okVal, "C12.flag", m.EVAL, "value of the defmacro form", ret.Pos(), "the macro it bound (the scope's Set result)", "defmacro answers with "+describeVal(e, v, 0)+", the closure without the macro flag: a name given the value of a defmacro form is an ordinary function")
			}
		}
		// one binding, of the marked closure: the name never holds the unmarked function, not even for a moment
		r.rule("C12.defmacro-once", "defmacro evaluates its function operand itself (not a def form built around it) and binds the name exactly once, to the marked copy: another evaluation on the same environment never finds the name bound to the unmarked function, and a rejected definition leaves an earlier macro in place")
		sets, nev := 0, 0
		inReg := map[*ssa.BasicBlock]bool{}
		for _, b := range m.regionBlocks("defmacro") {
			inReg[b] = true
			for _, in := range b.Instrs {
				if ci, ok := in.(ssa.CallInstruction); ok && ci.Common().IsInvoke() && (ci.Common().Method.Name() == "Set" || ci.Common().Method.Name() == "SetNT" || ci.Common().Method.Name() == "Update") && strings.HasSuffix(ci.Common().Value.Type().String(), "types.EnvType") {
					sets++
				}
			}
		}
		r.check(sets == 1, "C12.defmacro-once", m.EVAL, "bindings made by defmacro", token.NoPos, "exactly one", fmt.Sprintf("%d binding writes in the defmacro region", sets))
		var leaves func(v ssa.Value, depth int) []ssa.Value
		leaves = func(v ssa.Value, depth int) []ssa.Value {
			var out []ssa.Value
			for _, lf := range e.producers(v, map[ssa.Value]bool{}, 0) {
				if p, ok := lf.(*ssa.Parameter); ok && depth < 4 {
					if args := m.argsFor(p); len(args) > 0 {
						for _, a := range args {
							out = append(out, leaves(a, depth+1)...)
						}
						continue
					}
				}
				out = append(out, lf)
			}
			return out
		}
		for _, ec := range m.evalCalls() {
			if !inReg[ec.call.Block()] || ec.ast == nil {
				continue
			}
			nev++
			okOp := true
			what := ""
			for _, lf := range leaves(ec.ast, 0) {
				if isNilConst(lf) {
					continue
				}
				if k := e.keyOf(lf).String(); !strings.HasSuffix(k, ".Val[2]") {
					okOp, what = false, describeVal(e, lf, 0)
				}
			}
			r.check(okOp, "C12.defmacro-once", ec.fn, "form evaluated by defmacro", ec.call.Pos(), "operand 2 of the defmacro form", "defmacro evaluates a form other than its function operand ("+what+"): a form built around the operand (a def, say) binds the name before the macro flag is set")
		}
		r.floor("C12.defmacro-once", "evaluating calls in the defmacro region", nev, 1)
	} else {
		r.undecided("C12.flag", m.EVAL, "defmacro region", token.NoPos, "special form not found")
	}
	if fn := w.Fn("types", "(MalFunc).SetMacro"); fn != nil {
		_, isPtr := fn.Signature.Recv().Type().(*types.Pointer)
		setsTrue, returnsCopy := false, false
		for _, b := range fn.Blocks {
			for _, in := range b.Instrs {
				if st, ok := in.(*ssa.Store); ok {
					if fa, ok := st.Addr.(*ssa.FieldAddr); ok && fieldName(fa.X.Type(), fa.Field) == "IsMacro" {
						if c, ok := st.Val.(*ssa.Const); ok && c.Value != nil && constant.BoolVal(c.Value) {
							setsTrue = true
						}
					}
				}
			}
		}
		for _, rt := range m.returns(fn) {
			if mi, ok := rt[1].(ssa.Value).(*ssa.MakeInterface); ok {
				if _, name, ok := w.namedStruct(mi.X.Type()); ok && name == "MalFunc" {
					returnsCopy = true
				}
			}
		}
		// nothing but the flag of the copy is written: no metadata, no shared map
		for _, b := range fn.Blocks {
			for _, in := range b.Instrs {
				switch x := in.(type) {
				case *ssa.MapUpdate:
					r.bad("C12.flag", fn, "SetMacro writes into a map", x.Pos(), "marking a closure as a macro writes into a map the closure shares with its other copies (its metadata): the function the macro was made from changes with it")
				case *ssa.Store:
					if fa, ok := x.Addr.(*ssa.FieldAddr); ok && fieldName(fa.X.Type(), fa.Field) != "IsMacro" {
						if _, name, ok := w.namedStruct(fa.X.Type()); ok && name == "MalFunc" {
							r.bad("C12.flag", fn, "SetMacro writes field "+fieldName(fa.X.Type(), fa.Field), x.Pos(), "marking a closure as a macro changes more than the macro flag of the copy")
						}
					}
				}
			}
		}
		r.check(!isPtr && setsTrue && returnsCopy, "C12.flag", fn, "SetMacro", fn.Pos(), "value receiver: marks and returns a copy", "SetMacro does not mark a copy (pointer receiver, flag not set, or copy not returned): ordinary uses of the function value would become macros")
	} else {
		r.undecided("C12.flag", nil, "SetMacro", token.NoPos, "method no longer resolves")
	}
	// GetMacro answers with the flag and nothing else (ordinary functions are unaffected, whatever their metadata says)
	if gm := w.Fn("types", "(MalFunc).GetMacro"); gm != nil {
		for _, rt := range m.returns(gm) {
			ret := rt[0].(*ssa.Return)
			v := rt[1].(ssa.Value)
			okFlag := false
			switch x := v.(type) {
			case *ssa.Field:
				okFlag = fieldName(x.X.Type(), x.Field) == "IsMacro"
			case *ssa.UnOp:
				if fa, ok := x.X.(*ssa.FieldAddr); ok {
					okFlag = fieldName(fa.X.Type(), fa.Field) == "IsMacro"
				}
			}
			r.check(okFlag, "C12.flag", gm, "value returned by GetMacro", ret.Pos(), "the IsMacro flag of the receiver", "whether a function is a macro is decided by something other than its macro flag ("+describeVal(e, v, 0)+"): a function that was never passed to defmacro can be called as a macro")
		}
	} else {
		r.undecided("C12.flag", nil, "GetMacro", token.NoPos, "method no longer resolves")
	}
	// macro test true only via GetMacro
	okTest := true
	nTrue := 0
	var viaFlag func(v ssa.Value, depth int)
	viaFlag = func(v ssa.Value, depth int) {
		if c, ok := v.(*ssa.Const); ok && c.Value != nil && !constant.BoolVal(c.Value) {
			return
		}
		// `ok && fn.GetMacro()`: a merge of false and the flag
		if phi, ok := v.(*ssa.Phi); ok && depth < 4 {
			for _, ed := range phi.Edges {
				viaFlag(ed, depth+1)
			}
			return
		}
		nTrue++
		c, ok := v.(*ssa.Call)
		if !ok || c.Call.StaticCallee() == nil || c.Call.StaticCallee().Name() != "GetMacro" {
			okTest = false
		}
	}
	for _, rt := range m.returns(m.isMacroCall) {
		viaFlag(rt[1].(ssa.Value), 0)
	}
	r.check(okTest && nTrue >= 1, "C12.flag", m.isMacroCall, "macro test", m.isMacroCall.Pos(), "true only as the value of GetMacro()", "the macro test can be true for a value whose macro flag is not set")
	// only a list is a call: a vector (or any other sequence) headed by a macro's name is data and stays as it is
	r.rule("C12.list-only", "the macro test answers anything but false only where its form is known to be a List: a vector, set or hash-map whose first element names a macro is not a macro call (vectors stay vectors; macroexpand stops at them)")
	{
		listT := w.ByPath[modPath+"/types"].Types.Scope().Lookup("List").Type()
		var formP *ssa.Parameter
		for _, p := range m.isMacroCall.Params {
			if isMalType(p.Type()) {
				formP = p
			}
		}
		nlo := 0
		for _, rt := range m.returns(m.isMacroCall) {
			ret, v := rt[0].(*ssa.Return), rt[1].(ssa.Value)
			if c, ok := v.(*ssa.Const); ok && c.Value != nil && !constant.BoolVal(c.Value) {
				continue
			}
			nlo++
			okList, _ := false, ""
			if formP != nil {
				okList, _ = e.hasType(formP, listT, ret.Block())
			}
			r.check(okList, "C12.list-only", m.isMacroCall, "macro test answered for a form", ret.Pos(), "the form is a List here", "the macro test can answer true for a form that is not known to be a list (a vector or set whose first element names a macro): such a form is expanded as if it were a call, so a template that yields a vector does not give that vector")
		}
		r.floor("C12.list-only", "answers of the macro test other than false", nlo, 1)
	}
	// application region does not look at the flag
	okApp := true
	for b := range m.defaultRegion {
		for _, in := range b.Instrs {
			if c, ok := in.(*ssa.Call); ok && c.Call.StaticCallee() != nil && c.Call.StaticCallee().Name() == "GetMacro" {
				okApp = false
			}
			if f, ok := in.(*ssa.Field); ok && fieldName(f.X.Type(), f.Field) == "IsMacro" {
				okApp = false
			}
		}
	}
	r.check(okApp, "C12.flag", m.EVAL, "application ignores the macro flag", token.NoPos, "no use of IsMacro/GetMacro", "function application depends on the macro flag")
	ruleQQ(m, r, e)
	// "all macros ... applied to any operands": a call form is a call form whether it was read from text or
	// built by the program (symbol, list, a macro's own expansion): positions take no part in recognising it
	positionBlindRule(w, r, "C12.position-blind")
	r.rule("C12.lisp", "every defmacro in the embedded headers binds a (fn …) literal, possibly wrapped in let/do forms that end in it (so the defmacro region's function check is met by library code)")
	if files, err := w.lispFiles(); err == nil {
		nm := 0
		for _, f := range files {
			for _, form := range f.forms {
				form.walk(func(s *sx) {
					if s.head() != "defmacro" {
						return
					}
					nm++
					okFn := len(s.items) == 3 && s.items[1].kind == "sym" && yieldsFn(s.items[2], 0)
					st, detail := "discharged", "name and a form that yields a (fn …) literal"
					if !okFn {
						st, detail = "violated", "defmacro without a symbol name and a (fn …) literal value"
					}
					name := "?"
					if len(s.items) > 1 {
						name = s.items[1].text
					}
					r.addRaw("C12.lisp", f.path, "defmacro "+name, fmt.Sprintf("%s:%d", f.path, s.line), st, detail)
				})
			}
		}
		r.floor("C12.lisp", "defmacro forms in the embedded headers", nm, 8)
	} else {
		r.undecided("C12.lisp", nil, "lisp headers", token.NoPos, err.Error())
	}
	// the builtins the transform generates calls to must not write their arguments' storage: a template
	// spliced twice must not influence itself (C02's ownership analysis restricted to those builtins)
	r.rule("C12.splice-fresh", "the builtins the quasiquote transform generates calls to (cons, concat, vec) only write storage allocated in their own activation, so the elements of a spliced value are copied into the result and two expansions never share a tail")
	gen := map[string]bool{}
	for _, fn := range []*ssa.Function{m.quasiquote, m.qqLoop} {
		for _, b := range fn.Blocks {
			for _, in := range b.Instrs {
				if c, ok := in.(*ssa.Call); ok && c.Call.StaticCallee() != nil && c.Call.StaticCallee().Name() == "NewList" {
					for _, el := range sliceLiteralElems(c.Call.Args[0]) {
						if s := symbolLiteral(el); s != "" {
							gen[s] = true
						}
					}
				}
			}
		}
	}
	var genFns []*ssa.Function
	for _, fn := range w.registeredFuncs() {
		if gen[strings.ReplaceAll(strings.ToLower(fn.Name()), "_", "-")] {
			genFns = append(genFns, fn)
		}
	}
	reachGen := w.reachableFrom(genFns)
	nsf := ruleContainerWrites(w, r, e, "C12.splice-fresh", func(fn *ssa.Function) bool { return reachGen[fn] && libraryPkg(fnPkgPath(fn)) }, false)
	r.floor("C12.splice-fresh", "container writes in the builtins generated by quasiquote", nsf, 2)
	// expansion result is re-validated before the dispatch indexes it (a macro may expand to () or to a non-list)
	r.rule("C12.post-expand", "between macro expansion and the special-form dispatch every index / assertion on the expanded form is guarded (a macro may expand to the empty list or to a non-list)")
	aud := newAudit(w, e, r, "C12.post-expand")
	aud.closure = []*ssa.Function{m.EVAL}
	aud.inClos[m.EVAL] = true
	aud.exempt = exemptionsC04
	aud.only = func(b *ssa.BasicBlock) bool {
		// blocks of the loop before the special-form dispatch (and not stepping code)
		return m.header.Dominates(b) && m.regionOf(b) == "" && !m.stepBlocks[b]
	}
	aud.run()
	r.floor("C12.post-expand", "guarded uses of the expanded form before the dispatch", r.count("C12.post-expand"), 3)
	// every list form goes through macro expansion, whatever its head is called
	r.rule("C12.expand-always", "the macro expansion at the top of the evaluation loop is on the path to every special-form region and to the application: no list form reaches the dispatch unexpanded (a macro bound to the name of a special form is a macro like any other: its call means its expansion)")
	{
		var mx *ssa.Call
		for _, ec := range m.evalCalls() {
			if ec.fn == m.EVAL && ec.callee == m.macroexpand && m.regionOf(ec.call.Block()) == "" && !m.defaultRegion[ec.call.Block()] && !m.stepBlocks[ec.call.Block()] {
				mx = ec.call
			}
		}
		if mx == nil {
			r.bad("C12.expand-always", m.EVAL, "macro expansion before the dispatch", m.EVAL.Pos(), "no macroexpand call before the dispatch")
		} else {
			nreg := 0
			for _, name := range m.regionNames {
				for b := range m.regions[name] {
					if !mx.Block().Dominates(b) {
						nreg++
						r.bad("C12.expand-always", m.EVAL, "special form "+name+" reachable without macro expansion", mx.Pos(), "the region of "+name+" can be entered on a path that skips the macroexpand call: a macro of that name visible in the caller's scope is ignored, so its call does not mean its expansion")
						break
					}
				}
			}
			okApp := true
			for b := range m.defaultRegion {
				if !mx.Block().Dominates(b) {
					okApp = false
				}
			}
			r.check(okApp && nreg == 0, "C12.expand-always", m.EVAL, "macro expansion before the dispatch", mx.Pos(), fmt.Sprintf("dominates all %d special-form regions and the application", len(m.regionNames)), "the application can be reached without macro expansion")
		}
	}
	// the value of a quasiquoted template is the value of its expansion, whatever kind of form the expansion is
	r.rule("C12.qq-evaluated", "the quasiquote form never hands its expansion back as its own value: every way out of that arm of the evaluator without an error continues the loop with the expansion as the form to evaluate (an expansion that is a vector or map - the template ~[a b] - is evaluated like any other)")
	{
		nq := 0
		reg := m.regions["quasiquote"]
		for _, rt := range m.returns(m.EVAL) {
			ret := rt[0].(*ssa.Return)
			if !reg[ret.Block()] {
				continue
			}
			nq++
			ev, _ := rt[2].(ssa.Value)
			if ev != nil && !isNilConst(ev) {
				r.ok("C12.qq-evaluated", m.EVAL, "error exit of the quasiquote arm", ret.Pos(), "reports an error")
				continue
			}
			r.bad("C12.qq-evaluated", m.EVAL, "value returned from the quasiquote arm", ret.Pos(), "the quasiquote arm returns "+describeVal(e, rt[1].(ssa.Value), 0)+" as the value of the form instead of continuing with it as the form to evaluate: a template whose expansion is of that kind yields the unevaluated expansion")
		}
		r.check(len(reg) > 0 && m.reachesHeader(reg), "C12.qq-evaluated", m.EVAL, "the quasiquote arm continues the loop", token.NoPos, "reaches the loop header", "the quasiquote arm never continues the evaluation loop")
		_ = nq
	}
	// whether a form is a macro call is decided when - and in the scope where - it is evaluated
	r.rule("C12.expand-site", "macro expansion happens in two places only: at the top of the evaluation loop, on the form about to be evaluated, and in the macroexpand special form; no other part of the evaluator (the fn form building a closure, the body helper handing back a tail form) expands forms ahead of their evaluation or tests them for being macro calls, since the scope that decides - a parameter that shadows a macro, a macro redefined later - is the scope at evaluation time")
	{
		nes := 0
		for _, ec := range m.evalCalls() {
			if ec.callee != m.macroexpand {
				continue
			}
			nes++
			regs := m.regionSet(ec.call.Block())
			okSite := false
			switch {
			case ec.fn == m.EVAL && m.regionOf(ec.call.Block()) == "" && !m.defaultRegion[ec.call.Block()]:
				okSite = true // the expansion at the top of the loop
			case len(regs) == 1 && regs["macroexpand"]:
				okSite = true
			}
			r.check(okSite, "C12.expand-site", ec.fn, "call of the macro expander", ec.call.Pos(), "the top of the loop or the macroexpand form", "a form is expanded ahead of its evaluation (in "+nz(m.regionOf(ec.call.Block()), w.fnName(ec.fn))+"): the macro test runs in the scope of that moment, so a parameter that shadows a macro's name, or a later redefinition, is ignored when the form is finally evaluated - the call no longer means what its expansion at evaluation time means")
		}
		for _, fn := range m.evalFuncs() {
			if fn == m.macroexpand {
				continue
			}
			for _, c := range staticCallsTo(fn, m.isMacroCall) {
				nes++
				r.bad("C12.expand-site", fn, "macro test outside the expander", c.Pos(), w.fnName(fn)+" tests a form for being a macro call itself: the decision is taken ahead of the form's evaluation, in whatever scope is current then")
			}
		}
		r.floor("C12.expand-site", "calls of the macro expander", nes, 2)
	}
	// the expansion is evaluated, whatever kind of form it is
	r.rule("C12.expansion-evaluated", "before the dispatch EVAL hands a form back as its own value only when that form is known to be a list (the empty list evaluates to itself): every other form a macro expands to - symbol, vector, hash-map, set - goes through eval_ast, so the call means what its expansion means")
	{
		listT := w.ByPath[modPath+"/types"].Types.Scope().Lookup("List").Type()
		nxe := 0
		for _, b := range m.EVAL.Blocks {
			if !(m.header.Dominates(b) && m.regionOf(b) == "" && !m.stepBlocks[b]) || len(b.Instrs) == 0 {
				continue
			}
			ret, ok := b.Instrs[len(b.Instrs)-1].(*ssa.Return)
			if !ok || len(ret.Results) != 2 {
				continue
			}
			v := resolveRet(ret.Results[0])
			if ev := resolveRet(ret.Results[1]); !isNilConst(ev) || isNilConst(v) {
				continue
			}
			// the value is a form (the loop-carried form or an expansion), not the result of an evaluation
			isForm := m.isLoopForm(v)
			if ex, ok := v.(*ssa.Extract); ok {
				if c, ok := ex.Tuple.(*ssa.Call); ok && c.Call.StaticCallee() == m.macroexpand {
					isForm = true
				}
			}
			if !isForm {
				continue
			}
			nxe++
			okT, how := e.hasType(v, listT, b)
			r.check(okT, "C12.expansion-evaluated", m.EVAL, "form returned unevaluated before the dispatch", ret.Pos(), "known to be a list: "+how, "a form that need not be a list is handed back as its own value: a macro that expands to a vector, hash-map or set gives its expansion unevaluated, not what evaluating the expansion gives")
		}
		r.floor("C12.expansion-evaluated", "forms returned unevaluated before the dispatch", nxe, 1)
	}
	r.Assumptions = append(r.Assumptions, "call-equals-expansion as a relation between runs and the algebra of the quasiquote transform beyond its dispatch shape are not decided")
}

func ruleQQ(m *evalModel, r *Report, e *Engine) {
	w := m.w
	// an operand is an operand whatever it is: the transform raises "requires an argument" on the length of the
	// form alone - nil is a template element (and the value of a nil placeholder) like any other
	{
		seenQ := map[*ssa.Function]bool{}
		nq := 0
		for _, root := range []*ssa.Function{m.quasiquote, m.qqLoop} {
			for _, f := range w.withPkgHelpers(root) {
				if seenQ[f] || m.isCore(f) && f != m.quasiquote && f != m.qqLoop {
					continue
				}
				seenQ[f] = true
				for _, rt := range m.returns(f) {
					ret := rt[0].(*ssa.Return)
					ev, _ := rt[2].(ssa.Value)
					if ev == nil || isNilConst(ev) {
						continue
					}
					if _, isEx := ev.(*ssa.Extract); isEx {
						continue // an error passed up from a nested transform
					}
					nq++
					for _, a := range knownConds(ret.Block()) {
						bo, ok := a.v.(*ssa.BinOp)
						if !ok || (bo.Op != token.EQL && bo.Op != token.NEQ) || !isNilConst(bo.Y) || !isMalType(bo.X.Type()) {
							continue
						}
						r.bad("C12.qq-dispatch", f, "error decided by the value of a template element", ret.Pos(), "the transform refuses a form because "+describeVal(e, bo.X, 0)+" is nil: (unquote nil), ~nil or a nil placeholder under ~ is an unquote of the value nil, and the template must be returned with nil in that place")
					}
				}
			}
		}
		r.add("C12.qq-dispatch", m.quasiquote, "errors raised by the quasiquote transform", m.quasiquote.Pos(), "ok", fmt.Sprintf("%d error returns examined: none decided by the value of an element", nq))
	}
	// the element loop always hands back the list it built (cons / concat forms), never a piece of the template
	for _, rt := range errorReturns(m.qqLoop) {
		ret := rt[0].(*ssa.Return)
		v, _ := rt[1].(ssa.Value)
		if v == nil || isNilConst(v) {
			continue
		}
		built := true
		var walk func(x ssa.Value, depth int)
		seenV := map[ssa.Value]bool{}
		walk = func(x ssa.Value, depth int) {
			if depth > 8 || seenV[x] {
				return
			}
			seenV[x] = true
			switch y := unboxed(x).(type) {
			case *ssa.Phi:
				for _, op := range y.Edges {
					walk(op, depth+1)
				}
			case *ssa.Call:
				if c := y.Call.StaticCallee(); c == nil || c.Name() != "NewList" {
					built = false
				}
			default:
				built = false
			}
		}
		walk(v, 0)
		r.check(built, "C12.qq-dispatch", m.qqLoop, "value returned by the element loop", ret.Pos(), "the list form it built with NewList (cons / concat)", "the element loop hands back a piece of the template itself ("+describeVal(e, v, 0)+"): a lone (splice-unquote x) yields x as it is - a vector, a non-sequence or a list with metadata - instead of a fresh list")
	}
	// names generated
	generated := map[string]token.Pos{}
	tested := map[string]token.Pos{}
	startsWith := w.Fn("", "starts_with")
	for _, fn := range []*ssa.Function{m.quasiquote, m.qqLoop} {
		for _, b := range fn.Blocks {
			for _, in := range b.Instrs {
				c, ok := in.(*ssa.Call)
				if !ok {
					continue
				}
				callee := c.Call.StaticCallee()
				if callee != nil && callee.Name() == "NewList" {
					for _, el := range sliceLiteralElems(c.Call.Args[0]) {
						if s := symbolLiteral(el); s != "" {
							generated[s] = c.Pos()
						}
					}
				}
				if callee != nil && callee == startsWith {
					if k, ok := c.Call.Args[1].(*ssa.Const); ok && k.Value != nil {
						tested[constant.StringVal(k.Value)] = c.Pos()
					}
				}
			}
		}
	}
	names := w.registeredNames()
	special := map[string]bool{}
	for _, s := range m.regionNames {
		special[s] = true
	}
	var gen []string
	for s := range generated {
		gen = append(gen, s)
	}
	sort.Strings(gen)
	for _, s := range gen {
		r.check(special[s] || names[s] != "", "C12.names", m.quasiquote, "generated symbol "+s, generated[s], "a special form or registered builtin", "the transform generates a call to '"+s+"', which is neither a special form nor a registered builtin")
	}
	r.floor("C12.names", "symbols generated by the quasiquote transform", len(gen), 4)
	// tags tested = reader's symbols for ~ and ~@
	readerTags := map[string]string{}
	if rf := w.Fn("reader", "read_form"); rf != nil {
		for _, b := range rf.Blocks {
			iff := blockIf(b)
			if iff == nil {
				continue
			}
			_, tok, ok := strEq(iff.Cond)
			if !ok || (tok != "~" && tok != "~@") {
				continue
			}
			// symbol literal built in the region of this case
			for _, c := range rf.Blocks {
				if !edgeDominates(b, 0, c) {
					continue
				}
				for _, in := range c.Instrs {
					for _, op := range in.Operands(nil) {
						if k, ok := (*op).(*ssa.Const); ok && k.Value != nil && k.Value.Kind() == constant.String {
							if s := constant.StringVal(k.Value); s != tok && s != "" {
								readerTags[tok] = s
							}
						}
					}
				}
			}
		}
	}
	want := map[string]bool{}
	for _, v := range readerTags {
		want[v] = true
	}
	okTags := len(readerTags) == 2 && len(tested) == 2
	for t := range tested {
		if !want[t] {
			okTags = false
		}
	}
	r.check(okTags, "C12.names", m.quasiquote, "tags tested by the transform", m.quasiquote.Pos(), fmt.Sprintf("%v = the reader's symbols for ~ and ~@ %v", keysOfPos(tested), readerTags), fmt.Sprintf("the transform tests %v but the reader generates %v", keysOfPos(tested), readerTags))
	// a tag is recognised by equality of the head symbol's name, never by a part of it
	r.rule("C12.tag-equality", "the quasiquote transform and the functions it is built from compare names as whole strings: no prefix, suffix, substring or case-folding match (strings.HasPrefix, HasSuffix, Contains, Index, EqualFold ...) is applied there, so a list headed by a symbol that merely begins with unquote is returned literally")
	{
		nte := 0
		seenT := map[*ssa.Function]bool{}
		for _, root := range []*ssa.Function{m.quasiquote, m.qqLoop} {
			for _, f := range w.withPkgHelpers(root) {
				if seenT[f] || (m.isCore(f) && f != m.quasiquote && f != m.qqLoop) {
					continue
				}
				seenT[f] = true
				nte++
				for _, b := range f.Blocks {
					for _, in := range b.Instrs {
						c, ok := in.(*ssa.Call)
						if !ok || c.Call.StaticCallee() == nil || fnPkgPath(c.Call.StaticCallee()) != "strings" {
							continue
						}
						switch c.Call.StaticCallee().Name() {
						case "HasPrefix", "HasSuffix", "Contains", "ContainsAny", "ContainsRune", "Index", "IndexByte", "IndexAny", "LastIndex", "EqualFold", "TrimPrefix", "TrimSuffix", "ToLower", "ToUpper", "Fields", "Split", "Cut":
							r.bad("C12.tag-equality", f, "partial match of a name in the quasiquote transform", c.Pos(), "strings."+c.Call.StaticCallee().Name()+" decides whether a list is an unquote or splice-unquote form: a list whose head symbol only resembles the tag (unquoted, unquote-later, splice-unquote-all) is substituted or spliced instead of being returned literally")
						}
					}
				}
			}
		}
		r.add("C12.tag-equality", nil, "functions of the quasiquote transform", token.NoPos, "ok", fmt.Sprintf("%d functions examined", nte))
		r.floor("C12.tag-equality", "functions of the quasiquote transform", nte, 2)
	}
	// dispatch types of quasiquote
	typesTested := map[string]bool{}
	for _, b := range m.quasiquote.Blocks {
		for _, in := range b.Instrs {
			if ta, ok := in.(*ssa.TypeAssert); ok && ta.CommaOk && ta.X == ssa.Value(m.quasiquote.Params[0]) {
				typesTested[shortType(ta.AssertedType)] = true
			}
		}
	}
	wantT := []string{"types.HashMap", "types.List", "types.Symbol", "types.Vector"}
	r.check(strings.Join(keysOf(typesTested), ",") == strings.Join(wantT, ","), "C12.qq-dispatch", m.quasiquote, "kinds with a dedicated case", m.quasiquote.Pos(), strings.Join(wantT, ","), "quasiquote dispatches on "+strings.Join(keysOf(typesTested), ","))
	// vector case generates vec around the element loop; other kinds are returned literally
	for _, rt := range m.returns(m.quasiquote) {
		ret := rt[0].(*ssa.Return)
		v := rt[1].(ssa.Value)
		hold := e.holding(ret.Block())
		kind := ""
		for _, f := range hold.list() {
			if f.Kind == "type" && f.K.Root == ssa.Value(m.quasiquote.Params[0]) && f.K.Path == "" {
				kind = shortType(f.T)
			}
		}
		ev, _ := rt[2].(ssa.Value)
		if ev != nil && !isNilConst(ev) {
			continue
		}
		switch kind {
		case "types.Vector":
			head := ""
			if c, ok := v.(*ssa.Call); ok && c.Call.StaticCallee() != nil && c.Call.StaticCallee().Name() == "NewList" {
				els := sliceLiteralElems(c.Call.Args[0])
				if len(els) == 2 {
					head = symbolLiteral(els[0])
					if pcs := m.producingCalls(els[1], map[ssa.Value]bool{}); len(pcs) != 1 || pcs[0].Call.StaticCallee() != m.qqLoop {
						head = ""
					}
				}
			}
			r.check(head != "" && w.registeredNames()[head] != "", "C12.qq-dispatch", m.quasiquote, "vector template", ret.Pos(), "(vec <element loop>): vectors stay vectors", "a vector template is not rebuilt as a vector")
		case "", "types.HashMap", "types.Symbol":
			// default: literal
			isTemplate := func(x ssa.Value) bool {
				if x == ssa.Value(m.quasiquote.Params[0]) {
					return true
				}
				// the template under its asserted type, boxed again
				if mi, ok := x.(*ssa.MakeInterface); ok {
					src := mi.X
					if ex, ok := src.(*ssa.Extract); ok {
						src = ex.Tuple
					}
					if ta, ok := src.(*ssa.TypeAssert); ok && ta.X == ssa.Value(m.quasiquote.Params[0]) {
						return true
					}
				}
				return false
			}
			okLit := isTemplate(v)
			if !okLit {
				// HashMap/Symbol share a case: (quote ast)
				if c, ok := v.(*ssa.Call); ok && c.Call.StaticCallee() != nil && c.Call.StaticCallee().Name() == "NewList" {
					els := sliceLiteralElems(c.Call.Args[0])
					okLit = len(els) == 2 && symbolLiteral(els[0]) == "quote" && isTemplate(els[1])
				}
			}
			r.check(okLit, "C12.qq-dispatch", m.quasiquote, "literal / quoted template", ret.Pos(), "returned literally or quoted", "a non-list, non-vector template is transformed")
		}
	}
	// element loop: descending, accumulator last, splice only for lists, recursion through quasiquote
	loops := naturalLoops(m.qqLoop)
	if !r.check(len(loops) == 1, "C12.qq-dispatch", m.qqLoop, "element loop", m.qqLoop.Pos(), "one loop", "no element loop") {
		return
	}
	desc := false
	var accPhi *ssa.Phi
	for _, in := range loops[0].header.Instrs {
		if phi, ok := in.(*ssa.Phi); ok {
			if isIntType(phi.Type()) {
				for i, op := range phi.Edges {
					if loopBlocks(loops[0])[loops[0].header.Preds[i]] {
						if _, off, ok := e.linOf(op); ok && off < 0 {
							desc = true
						}
					}
				}
			} else if isMalType(phi.Type()) {
				accPhi = phi
			}
		}
	}
	accLast := accPhi != nil
	nGen := 0
	for b := range loopBlocks(loops[0]) {
		for _, in := range b.Instrs {
			c, ok := in.(*ssa.Call)
			if !ok || c.Call.StaticCallee() == nil || c.Call.StaticCallee().Name() != "NewList" {
				continue
			}
			els := sliceLiteralElems(c.Call.Args[0])
			if len(els) != 3 {
				continue
			}
			nGen++
			if els[2] != ssa.Value(accPhi) {
				accLast = false
			}
			head := symbolLiteral(els[0])
			if head == "concat" {
				// only for list elements: dominated by type(elt, List)
				isList := false
				for _, f := range e.holding(b).list() {
					if f.Kind == "type" && shortType(f.T) == "types.List" {
						isList = true
					}
				}
				r.check(isList, "C12.qq-dispatch", m.qqLoop, "splice-unquote", c.Pos(), "recognised only for list elements", "splice-unquote is applied to a non-list element")
			} else {
				pcs := m.producingCalls(els[1], map[ssa.Value]bool{})
				r.check(len(pcs) == 1 && pcs[0].Call.StaticCallee() == m.quasiquote, "C12.qq-dispatch", m.qqLoop, "ordinary element", c.Pos(), "(cons (quasiquote elt) acc)", "an element is not transformed recursively")
			}
		}
	}
	r.check(desc && accLast && nGen == 2, "C12.qq-dispatch", m.qqLoop, "order of the generated calls", m.qqLoop.Pos(), "last element first, accumulator as the last operand: element order preserved", "the element loop does not preserve element order (direction / accumulator position)")
}

func keysOfPos(m map[string]token.Pos) []string {
	var s []string
	for k := range m {
		s = append(s, k)
	}
	sort.Strings(s)
	return s
}

// registeredNames: lisp name -> registering function, following the binder's own derivation
// (override literal, or the Go function's name lower-cased with _ replaced by -; C20.name checks that derivation).
func (w *World) registeredNames() map[string]string {
	if w.regNames != nil {
		return w.regNames
	}
	out := map[string]string{}
	callA, callB := w.Fn("lib/call", "Call"), w.Fn("lib/call", "CallOverrideFN")
	for _, fn := range w.Funcs {
		if isTestFunc(w, fn) {
			continue
		}
		for _, b := range fn.Blocks {
			for _, in := range b.Instrs {
				c, ok := in.(*ssa.Call)
				if !ok {
					continue
				}
				callee := c.Call.StaticCallee()
				if callee == nil {
					continue
				}
				switch callee {
				case callA:
					for _, g := range w.regFuncsOfArg(c.Call.Args[1], 0) {
						if g.Parent() == nil {
							out[strings.ReplaceAll(strings.ToLower(g.Name()), "_", "-")] = w.fnName(fn)
						}
					}
				case callB:
					if k, ok := c.Call.Args[1].(*ssa.Const); ok && k.Value != nil {
						out[constant.StringVal(k.Value)] = w.fnName(fn)
					} else {
						// a registration table walked by a loop
						for _, row := range tableRows(c.Call.Args[1]) {
							if s, ok := constString(row[0]); ok {
								out[s] = w.fnName(fn)
							}
						}
					}
				}
				// direct env.Set(Symbol{Val: "eval"}, Func{...})
			}
		}
	}
	w.regNames = out
	return out
}

// ---------------------------------------------------------------------------
// C18

func checkC18(w *World, r *Report) {
	m, e := needModel(w, r, "C18.guard")
	if m == nil {
		return
	}
	r.rule("C18.effects", "instructions that exist only for stepping (control-dependent on Stepper != nil or on a stepping flag, and closures created there) write only the stepping flags, call only the callback, printing functions, PRINT and panic on an out-of-enum command, and store to no variable of the evaluation (form, scope, context, results)")
	r.rule("C18.phi", "no value of the evaluation depends on whether stepping code ran: a phi may have a predecessor in stepping code only if the value on that edge equals the value on a non-stepping edge")
	r.rule("C18.flags-private", "the stepping flags are read only as branch conditions")
	r.rule("C18.recur", "the stepping-mode continuation return EVAL(ctx, ast, env) sits at the bottom of the loop, passes exactly the loop-carried form, scope and context the next iteration would start from (no assignment to them is pending) and returns the results unchanged")
	r.rule("C18.callback-args", "the callback is handed EVAL's incoming form and scope as they are at entry")
	r.rule("C18.enum", "the command switch has a case for every declared constant of debuggertypes.Command, so no valid command reaches the panic")
	nStep := 0
	for _, fn := range m.evalFuncs() {
		for _, b := range fn.Blocks {
			if !m.stepBlocks[b] {
				continue
			}
			for _, in := range b.Instrs {
				switch x := in.(type) {
				case *ssa.Store:
					nStep++
					if g, ok := x.Addr.(*ssa.Global); ok && m.flags[g] {
						r.ok("C18.effects", fn, "write "+g.Name(), x.Pos(), "stepping flag")
						continue
					}
					// stores into locals of the stepping code itself (varargs arrays for printing)
					if okLocalStore(x) {
						continue
					}
					// the stepping continuation returns the recursive call's results (checked by C18.recur)
					if al, ok := x.Addr.(*ssa.Alloc); ok && isResultCell(fn, al) {
						if ex, ok := x.Val.(*ssa.Extract); ok {
							if c, ok := ex.Tuple.(*ssa.Call); ok && c.Call.StaticCallee() == m.EVAL && c.Block() == b {
								continue
							}
						}
					}
					r.bad("C18.effects", fn, "store "+describeVal(e, x.Addr, 0), x.Pos(), "stepping code writes a variable of the evaluation")
				case ssa.CallInstruction:
					c := x.Common()
					if _, isB := c.Value.(*ssa.Builtin); isB {
						continue
					}
					nStep++
					name := describeCallInstr(e, x)
					okc := false
					why := ""
					switch {
					case c.StaticCallee() != nil && c.StaticCallee().Pkg != nil && c.StaticCallee().Pkg.Pkg.Path() == "fmt":
						okc, why = true, "printing"
					case c.StaticCallee() != nil && c.StaticCallee().Name() == "PRINT":
						okc, why = true, "printing"
					case c.StaticCallee() == m.EVAL:
						okc, why = true, "stepping continuation (C18.recur)"
					case c.StaticCallee() != nil && m.stepBlocks[firstBlock(c.StaticCallee())]:
						okc, why = true, "stepping closure"
					case c.StaticCallee() == nil && !c.IsInvoke():
						if ld, ok := c.Value.(*ssa.UnOp); ok {
							if g, ok := ld.X.(*ssa.Global); ok && g.Name() == "Stepper" {
								okc, why = true, "the callback"
							}
						}
						if mc, ok := c.Value.(*ssa.MakeClosure); ok && m.stepBlocks[firstBlock(mc.Fn.(*ssa.Function))] {
							okc, why = true, "stepping closure"
						}
					}
					r.check(okc, "C18.effects", fn, "call "+name, x.Pos(), why, "stepping code calls into the evaluation")
				}
			}
		}
	}
	r.floor("C18.effects", "effects in stepping code", nStep, 10)
	// phi rule
	np := 0
	for _, fn := range []*ssa.Function{m.EVAL, m.doFn, m.evalAst, m.macroexpand} {
		for _, b := range fn.Blocks {
			if m.stepBlocks[b] {
				continue
			}
			for _, in := range b.Instrs {
				phi, ok := in.(*ssa.Phi)
				if !ok {
					break
				}
				var stepVals, otherVals []ssa.Value
				for i, op := range phi.Edges {
					if m.stepBlocks[b.Preds[i]] {
						stepVals = append(stepVals, op)
					} else {
						otherVals = append(otherVals, op)
					}
				}
				if len(stepVals) == 0 {
					continue
				}
				np++
				okPhi := true
				for _, sv := range stepVals {
					found := false
					for _, ov := range otherVals {
						if ov == sv || sameConst(ov, sv) {
							found = true
						}
					}
					if !found {
						okPhi = false
					}
				}
				r.check(okPhi, "C18.phi", fn, "merge after stepping code of "+nz(phi.Comment, phi.Name()), phi.Pos(), "same value with and without stepping", "the value of "+nz(phi.Comment, phi.Name())+" depends on whether stepping code ran")
			}
		}
	}
	if m.astCell == nil {
		r.floor("C18.phi", "merges after stepping code", np, 1)
	} else {
		// the evaluator's variables are kept in cells: there are no merges to look at, and a store into
		// such a cell from stepping code is an effect C18.effects reports
		r.add("C18.phi", nil, "merges after stepping code", token.NoPos, "ok", fmt.Sprintf("%d (the form is kept in a cell; assignments in stepping code are covered by C18.effects)", np))
	}
	// params of the helper functions must not be reassigned inside stepping code: covered by the phi rule
	// flags private
	nf := 0
	for _, fn := range m.evalFuncs() {
		for _, b := range fn.Blocks {
			for _, in := range b.Instrs {
				ld, ok := in.(*ssa.UnOp)
				if !ok || ld.Op != token.MUL {
					continue
				}
				g, ok := ld.X.(*ssa.Global)
				if !ok || !m.flags[g] {
					continue
				}
				nf++
				okUse := true
				for _, ref := range *ld.Referrers() {
					switch u := ref.(type) {
					case *ssa.If, *ssa.DebugRef:
					case *ssa.UnOp:
						if u.Op != token.NOT {
							okUse = false
						}
					default:
						okUse = false
					}
				}
				r.check(okUse, "C18.flags-private", fn, "read "+g.Name(), ld.Pos(), "used only as a branch condition", "a stepping flag flows into a value of the evaluation")
			}
		}
	}
	r.floor("C18.flags-private", "reads of stepping flags", nf, 3)
	// where the stepper is looked at: at the top of an evaluation step and at the loop bottom, nowhere inside a form
	r.rule("C18.stepper-reads", "the Stepper variable and the stepping flags are read only by the stepping code itself: in EVAL outside every special-form region (the prologue that calls the stepper, the loop bottom that decides how to continue), at the entry of the body helper, in code that already runs only under a stepper, and in the stepping helpers - never inside a special form or a closure of one, where a branch on them makes the form itself behave differently under a stepper")
	{
		isStepHelper := map[*ssa.Function]bool{}
		for _, h := range m.stepHelpers {
			isStepHelper[h] = true
		}
		var stepperG *ssa.Global
		if mem, ok := m.EVAL.Pkg.Members["Stepper"].(*ssa.Global); ok {
			stepperG = mem
		}
		nsr := 0
		inEval := map[*ssa.Function]bool{}
		scan := append([]*ssa.Function{}, m.evalFuncs()...)
		for _, fn := range scan {
			inEval[fn] = true
		}
		// ... and by no other code that runs while a program is evaluated (a helper of the evaluator that builds
		// forms, a builtin): what such code does must not depend on a stepper being installed
		for _, fn := range w.Funcs {
			if !inEval[fn] && !isTestFunc(w, fn) && runtimePkg(fnPkgPath(fn)) {
				scan = append(scan, fn)
			}
		}
		for _, fn := range scan {
			for _, b := range fn.Blocks {
				for _, in := range b.Instrs {
					ld, ok := in.(*ssa.UnOp)
					if !ok || ld.Op != token.MUL {
						continue
					}
					g, ok := ld.X.(*ssa.Global)
					if !ok || !(m.flags[g] || (stepperG != nil && g == stepperG)) {
						continue
					}
					nsr++
					root := fn
					for root.Parent() != nil {
						root = root.Parent()
					}
					if !inEval[fn] {
						r.check(m.stepBlocks[b] || isStepHelper[root], "C18.stepper-reads", fn, "read of "+g.Name(), ld.Pos(), "in the stepping code of EVAL", "the stepper's presence (or a stepping flag) is consulted by code outside the evaluator's stepping sections: what that code builds or answers depends on whether a stepper is installed, so programs need not compute the same")
						continue
					}
					okPlace := m.stepBlocks[b] || isStepHelper[root] || (fn == m.EVAL && m.regionOf(b) == "" && !m.defaultRegion[b]) || (fn == m.EVAL && m.isLoopBottom(b)) || (m.isCore(fn) && b == fn.Blocks[0])
					r.check(okPlace, "C18.stepper-reads", fn, "read of "+g.Name(), ld.Pos(), "in the stepping code of EVAL", "the stepper's presence (or a stepping flag) is consulted inside a special form"+nz(" ("+m.regionOf(b)+")", "")+": that form takes another path when a stepper is installed, so programs need not compute the same")
				}
			}
		}
		r.floor("C18.stepper-reads", "reads of Stepper and the stepping flags", nsr, 4)
	}
	// recur
	nr := 0
	for _, ec := range m.evalCalls() {
		if ec.fn != m.EVAL || ec.callee != m.EVAL || !m.stepperGuarded(ec.call.Block()) || !m.header.Dominates(ec.call.Block()) {
			continue
		}
		// only continuation calls: those whose result is returned
		returned := false
		for _, rt := range m.returns(m.EVAL) {
			for _, pc := range m.producingCalls(rt[1].(ssa.Value), map[ssa.Value]bool{}) {
				if pc == ec.call {
					returned = true
				}
			}
		}
		if !returned {
			continue
		}
		nr++
		b := ec.call.Block()
		// the guard: b is the true successor of a block whose false successor is the loop header
		atBottom := false
		var guardBlock *ssa.BasicBlock
		for _, p := range b.Preds {
			if iff := blockIf(p); iff != nil && p.Succs[0] == b && p.Succs[1] == m.header {
				atBottom = true
				guardBlock = p
			}
		}
		okArgs := atBottom
		if atBottom {
			// form: the value that flows to the header phi from the guard block
			var formAtBottom ssa.Value
			for i, p := range m.header.Preds {
				if p == guardBlock && m.astPhi != nil {
					formAtBottom = m.astPhi.Edges[i]
				}
			}
			okArgs = (ec.ast == formAtBottom || (m.astCell != nil && m.isLoopForm(ec.ast))) && m.isCurrentScope(ec.env)
			if m.envCell == nil && m.envPhi != nil {
				// not spilled: exactly the value the next iteration would start from
				for i, p := range m.header.Preds {
					if p == guardBlock {
						okArgs = ec.ast == formAtBottom && ec.env == m.envPhi.Edges[i]
					}
				}
			}
			if m.ctxCell != nil {
				ld, ok := ec.ctx.(*ssa.UnOp)
				okArgs = okArgs && ok && cellOf(ld.X) == m.ctxCell
			} else {
				okArgs = okArgs && ec.ctx == ssa.Value(m.ctxParam)
			}
		}
		r.check(atBottom && okArgs, "C18.recur", m.EVAL, "stepping continuation", ec.call.Pos(), "at the loop bottom with the loop-carried form, scope and context", "a stepping-mode recursion is taken before the iteration's assignments to form/scope are complete, or passes other values than the loop would continue with")
		// results returned unchanged
		okRes := false
		for _, rt := range m.returns(m.EVAL) {
			ret := rt[0].(*ssa.Return)
			if ret.Block() == b {
				v0, v1 := rt[1].(ssa.Value), rt[2].(ssa.Value)
				if e0, ok := v0.(*ssa.Extract); ok && e0.Tuple == ssa.Value(ec.call) && e0.Index == 0 {
					if e1, ok := v1.(*ssa.Extract); ok && e1.Tuple == ssa.Value(ec.call) && e1.Index == 1 {
						okRes = true
					}
				}
			}
		}
		r.check(okRes, "C18.recur", m.EVAL, "results of the stepping continuation", ec.call.Pos(), "returned unchanged", "results of the recursive evaluation are altered")
	}
	r.floor("C18.recur", "stepping continuations", nr, 1)
	// callback args
	nc := 0
	for _, b := range m.EVAL.Blocks {
		for _, in := range b.Instrs {
			c, ok := in.(*ssa.Call)
			if !ok || c.Call.StaticCallee() != nil || c.Call.IsInvoke() {
				continue
			}
			ld, ok := c.Call.Value.(*ssa.UnOp)
			if !ok {
				continue
			}
			g, ok := ld.X.(*ssa.Global)
			if !ok || g.Name() != "Stepper" {
				continue
			}
			nc++
			okA := len(c.Call.Args) == 2 && m.isIncomingForm(c.Call.Args[0]) && m.isCurrentScope(c.Call.Args[1]) && !m.header.Dominates(b)
			r.check(okA, "C18.callback-args", m.EVAL, "arguments of the callback", c.Pos(), "the incoming form and the scope it is about to be evaluated in, before the loop", "the callback is handed something other than EVAL's incoming form and scope")
		}
	}
	r.floor("C18.callback-args", "calls of the callback", nc, 1)
	// enum
	cmdT := w.ByPath[modPath+"/debuggertypes"].Types.Scope().Lookup("Command")
	declared := map[int64]string{}
	if cmdT != nil {
		sc := w.ByPath[modPath+"/debuggertypes"].Types.Scope()
		for _, n := range sc.Names() {
			if k, ok := sc.Lookup(n).(*types.Const); ok && types.Identical(k.Type(), cmdT.Type()) {
				v, _ := constant.Int64Val(k.Val())
				declared[v] = n
			}
		}
	}
	handled := map[int64]bool{}
	for _, b := range m.EVAL.Blocks {
		if iff := blockIf(b); iff != nil {
			// (cmd == K taken care of in a branch, or cmd != K standing in front of what is left)
			if bo, ok := iff.Cond.(*ssa.BinOp); ok && (bo.Op == token.EQL || bo.Op == token.NEQ) && cmdT != nil && types.Identical(bo.X.Type(), cmdT.Type()) {
				if k, ok := bo.Y.(*ssa.Const); ok && k.Value != nil {
					handled[k.Int64()] = true
				}
			}
		}
	}
	var missing []string
	for v, n := range declared {
		if !handled[v] {
			missing = append(missing, n)
		}
	}
	sort.Strings(missing)
	r.check(len(declared) >= 4 && len(missing) == 0, "C18.enum", m.EVAL, "command switch", token.NoPos, fmt.Sprintf("all %d declared commands handled", len(declared)), "commands without a case (reach the panic): "+strings.Join(missing, ","))
	// the stepper this module ships answers for every form it is shown
	r.rule("C18.stepper-total", "the stepper the module ships (debugger.(*Debugger).Stepper and what it calls inside the module) cannot panic on any form or scope it is shown: every index, assertion, nil dereference and division in it is guarded (a panic in the callback surfaces inside EVAL as an error the program does not produce without a stepper)")
	if st := w.Fn("debugger", "(*Debugger).Stepper"); st == nil {
		r.undecided("C18.stepper-total", nil, "debugger.(*Debugger).Stepper", token.NoPos, "method no longer resolves")
	} else {
		aud := newAudit(w, e, r, "C18.stepper-total")
		aud.exempt = exemptionsC18
		aud.computeClosure([]*ssa.Function{st}, func(f *ssa.Function) bool {
			p := fnPkgPath(f)
			return p == modPath || p == modPath+"/reader"
		})
		aud.propagateNil()
		aud.run()
		r.floor("C18.stepper-total", "sites that can panic in the shipped stepper", r.count("C18.stepper-total"), 3)
	}
	// the code the evaluator runs only under a stepper (its closures and the package functions called from there
	// alone) is code the program does not run without one: a panic in it is an outcome the unstepped program lacks
	r.rule("C18.stepping-total", "the functions of the evaluator's package that run only under a stepper (closures created in stepping code, package functions called from stepping code alone) cannot panic on any form or value they are shown: every assertion, index, dereference, division and comparison of interface values in them is guarded")
	{
		var roots []*ssa.Function
		isRoot := map[*ssa.Function]bool{}
		for _, h := range m.stepHelpers {
			if !isRoot[h] {
				isRoot[h] = true
				roots = append(roots, h)
			}
		}
		for _, fn := range m.evalFuncs() {
			if fn.Parent() != nil && m.stepBlocks[firstBlock(fn)] && !isRoot[fn] {
				isRoot[fn] = true
				roots = append(roots, fn)
			}
		}
		if len(roots) > 0 {
			aud := newAudit(w, e, r, "C18.stepping-total")
			aud.cmp = true
			aud.exempt = exemptionsC18
			aud.computeClosure(roots, func(f *ssa.Function) bool { return !isRoot[f] })
			aud.propagateNil()
			aud.run()
		}
		r.add("C18.stepping-total", nil, "functions that run only under a stepper", token.NoPos, "ok", fmt.Sprintf("%d audited", len(roots)))
	}
	engineRule(w, r, e)
	r.Assumptions = append(r.Assumptions, "host-supplied callbacks other than the repository's own debugger engine do not touch interpreter state; output produced by the stepper (ANSWER:/ERROR: lines) is an effect of the debugger, not of the program")
}

func firstBlock(fn *ssa.Function) *ssa.BasicBlock {
	if fn == nil || len(fn.Blocks) == 0 {
		return nil
	}
	return fn.Blocks[0]
}

func sameConst(a, b ssa.Value) bool {
	ca, ok1 := a.(*ssa.Const)
	cb, ok2 := b.(*ssa.Const)
	if !ok1 || !ok2 {
		return false
	}
	if ca.Value == nil || cb.Value == nil {
		return ca.Value == nil && cb.Value == nil
	}
	return constant.Compare(ca.Value, token.EQL, cb.Value)
}

// okLocalStore: store into memory allocated by the same (stepping) code: varargs arrays, local temporaries.
func okLocalStore(st *ssa.Store) bool {
	switch a := st.Addr.(type) {
	case *ssa.IndexAddr:
		_, ok := a.X.(*ssa.Alloc)
		return ok
	case *ssa.Alloc:
		return a.Comment == "varargs" || a.Comment == "complit"
	}
	return false
}

// engineRule (C18.engine): the repository's own interactive engine (package debugger) evaluates only what the
// user typed (watch expressions read from strings); the form it is handed by the evaluator never flows into
// an evaluating call - evaluating (or macro-expanding) it a second time would duplicate its effects.
func engineRule(w *World, r *Report, e *Engine) {
	r.rule("C18.form-intact", "the repository's debugger engine writes into no form or value it is handed (container writes in package debugger go to storage allocated in the same activation; shared with C02.write): tracing a program does not change it")
	nfi := ruleContainerWrites(w, r, e, "C18.form-intact", func(fn *ssa.Function) bool { return fnPkgPath(fn) == modPath+"/debugger" }, false)
	r.add("C18.form-intact", nil, "container writes in package debugger", token.NoPos, "info", fmt.Sprintf("%d write site(s)", nfi))
	r.rule("C18.reentrant", "the repository's debugger engine holds no mutex while it calls into the evaluator (watch expressions, the expression prompt): EVAL calls the stepper again on the same goroutine, and a mutex is not reentrant")
	nre := 0
	for _, fn := range w.pkgFuncs("debugger") {
		for _, lc := range e.callsUnderLock(fn, func(k string) bool { return true }) {
			nre++
			bad, why := w.reachesEval(lc.in)
			r.check(!bad, "C18.reentrant", fn, "call "+describeCallInstr(e, lc.in)+" under "+lc.held.String(), lc.in.Pos(), "does not reach the evaluator", "a lock is held across a call that "+why+": the nested evaluation calls the stepper again and blocks on the same lock, so the debugged program never finishes")
		}
	}
	r.add("C18.reentrant", nil, "calls made under a lock in package debugger", token.NoPos, "info", fmt.Sprintf("%d call(s) made while a lock is held", nre))
	// "the callback is only ever handed forms together with the scope": a scope gives out values and accepts
	// definitions through its methods - its table of bindings stays its own, so displaying a scope cannot rebind
	tableEscapeRule(w, r, "C18.scope-table")
	// ... nor does it write the positions of the forms it is shown (they are shared with the forms and with the
	// errors the program goes on to raise)
	printPureRule(w, r, "C18.print-pure")
	undoAlwaysRunsRule(w, r, "C18.undo")
	if mm := newEvalModel(w, e); mm.ok {
		frameBlindRule(mm, r, "C18.frame-blind")
	}
	r.rule("C18.position-intact", "the repository's debugger engine writes no field of a Position it did not allocate itself: what it displays about a form's position is computed on copies, so the errors of the debugged program name the same module and rows as without a stepper")
	npw := positionWrites(w, r, e, "C18.position-intact", func(fn *ssa.Function) bool { return strings.HasSuffix(fnPkgPath(fn), "/debugger") })
	r.add("C18.position-intact", nil, "writes to Position fields in package debugger", token.NoPos, "ok", fmt.Sprintf("%d examined", npw))
	r.rule("C18.engine", "in package debugger the form handed to the Stepper callback never flows into the form argument of EVAL / REPL / Apply (the engine evaluates only expressions the user typed)")
	var stepper *ssa.Function
	for _, fn := range w.pkgFuncs("debugger") {
		if fn.Name() == "Stepper" && fn.Signature.Recv() != nil {
			stepper = fn
		}
	}
	if stepper == nil {
		r.undecided("C18.engine", nil, "debugger.Stepper", token.NoPos, "method no longer resolves")
		return
	}
	tainted := map[*ssa.Parameter]bool{}
	for _, p := range stepper.Params {
		if isMalType(p.Type()) {
			tainted[p] = true
		}
	}
	var derives func(v ssa.Value, depth int, seen map[ssa.Value]bool) bool
	derives = func(v ssa.Value, depth int, seen map[ssa.Value]bool) bool {
		if depth > 10 || seen[v] {
			return false
		}
		seen[v] = true
		switch x := v.(type) {
		case *ssa.Parameter:
			return tainted[x]
		case *ssa.MakeInterface:
			return derives(x.X, depth+1, seen)
		case *ssa.ChangeInterface:
			return derives(x.X, depth+1, seen)
		case *ssa.TypeAssert:
			return derives(x.X, depth+1, seen)
		case *ssa.Extract:
			return derives(x.Tuple, depth+1, seen)
		case *ssa.Field:
			return derives(x.X, depth+1, seen)
		case *ssa.Phi:
			for _, op := range x.Edges {
				if derives(op, depth+1, seen) {
					return true
				}
			}
		case *ssa.Slice:
			return derives(x.X, depth+1, seen)
		case *ssa.Alloc:
			// anything stored into the local (fields, elements, whole value)
			for _, ref := range *x.Referrers() {
				switch u := ref.(type) {
				case *ssa.Store:
					if u.Addr == ssa.Value(x) && derives(u.Val, depth+1, seen) {
						return true
					}
				case *ssa.FieldAddr:
					for _, r2 := range *u.Referrers() {
						if st, ok := r2.(*ssa.Store); ok && st.Addr == ssa.Value(u) && derives(st.Val, depth+1, seen) {
							return true
						}
					}
				case *ssa.IndexAddr:
					for _, r2 := range *u.Referrers() {
						if st, ok := r2.(*ssa.Store); ok && st.Addr == ssa.Value(u) && derives(st.Val, depth+1, seen) {
							return true
						}
					}
				}
			}
		case *ssa.UnOp:
			return derives(x.X, depth+1, seen)
		case *ssa.FieldAddr:
			return derives(x.X, depth+1, seen)
		case *ssa.IndexAddr:
			return derives(x.X, depth+1, seen)
		case *ssa.Call:
			// constructors such as NewList / L-notation helpers: tainted when an argument is
			for _, a := range x.Call.Args {
				if derives(a, depth+1, seen) {
					return true
				}
			}
		}
		return false
	}
	// propagate to parameters of the package's own functions
	for changed := true; changed; {
		changed = false
		for _, fn := range w.pkgFuncs("debugger") {
			for _, b := range fn.Blocks {
				for _, in := range b.Instrs {
					ci, ok := in.(ssa.CallInstruction)
					if !ok {
						continue
					}
					callee := ci.Common().StaticCallee()
					if callee == nil || fnPkgPath(callee) != modPath+"/debugger" {
						continue
					}
					for i, a := range ci.Common().Args {
						if i < len(callee.Params) && !tainted[callee.Params[i]] && derives(a, 0, map[ssa.Value]bool{}) {
							tainted[callee.Params[i]] = true
							changed = true
						}
					}
				}
			}
		}
	}
	n := 0
	for _, fn := range w.pkgFuncs("debugger") {
		for _, b := range fn.Blocks {
			for _, in := range b.Instrs {
				c, ok := in.(*ssa.Call)
				if !ok {
					continue
				}
				callee := c.Call.StaticCallee()
				if callee == nil {
					continue
				}
				idx := -1
				switch {
				case fnPkgPath(callee) == modPath && (callee == w.Fn("", "EVAL") || callee == w.Fn("", "eval_ast")):
					idx = 1
				case fnPkgPath(callee) == modPath+"/types" && callee.Name() == "Apply":
					idx = 1
				}
				if idx < 0 {
					continue
				}
				n++
				bad := derives(c.Call.Args[idx], 0, map[ssa.Value]bool{})
				if idx == 1 && callee.Name() == "Apply" && len(c.Call.Args) > 2 {
					bad = bad || derives(c.Call.Args[2], 0, map[ssa.Value]bool{})
				}
				r.check(!bad, "C18.engine", fn, "form evaluated by the debugger engine", c.Pos(), "not derived from the form being stepped (a user-typed expression)", "the engine evaluates (or expands) the form it was handed: its effects happen twice while a stepper is installed")
			}
		}
	}
	r.floor("C18.engine", "evaluating calls in package debugger", n, 1)
}

// tryShapeRule (C03.shape): the operands of the try form are split by its grammar
//
//	(try body… )                         body = form[1:]
//	(try body… (catch s h…))             body = form[1:len-1]  bind = last[1]     handler = last[2:]
//	(try body… (finally f…))             body = form[1:len-1]  finally = last[1:]
//	(try body… (catch s h…) (finally f…)) body = form[1:len-2]  bind = prelast[1]  handler = prelast[2:]  finally = last[1:]
//
// Every list literal built in the try region from a slice of the form / of a clause must be one of
// these, in the block where the corresponding clause tests hold.
func tryShapeRule(m *evalModel, r *Report) {
	r.rule("C03.shape", "the try form's operands are split by its grammar: the body is every operand before the trailing catch/finally clauses, the handler every operand of the catch clause after its symbol, the finally body every operand of the finally clause")
	reg, ok := m.regions["try"]
	if !ok {
		return
	}
	form := canonForm(m)
	if form == "" {
		r.undecided("C03.shape", m.EVAL, "form", token.NoPos, "cannot name the dispatched form")
		return
	}
	n := 0
	scan := func(fn *ssa.Function, inScope func(*ssa.BasicBlock) bool, form string) {
		X := form + ".(types.List).Val"
		if strings.HasPrefix(form, "=") {
			X = form[1:] // the operand list itself was handed over
		}
		if strings.HasPrefix(form, "~") {
			X = form[1:] + ".Val" // the form was handed over as a list value
		}
		last1 := X + "[len(" + X + ")-1]"
		last2 := X + "[len(" + X + ")-2]"
		lastAlt := []string{last1, last2, X + "[1]", X + "[2]", "φ"} // `last`/`prelast` are phis over the length switch
		want := map[string]bool{}
		add := func(f string, args ...interface{}) { want[fmt.Sprintf(f, args...)] = true }
		add("%s[1:]", X)
		add("%s[1:len(%s)-1]", X, X)
		add("%s[1:len(%s)-2]", X, X)
		for _, l := range lastAlt {
			add("%s.(types.List).Val[2:]", l)
			add("%s.(types.List).Val[1:]", l)
		}
		for _, b := range fn.Blocks {
			if !inScope(b) {
				continue
			}
			for _, in := range b.Instrs {
				sl, ok := in.(*ssa.Slice)
				if !ok || !lispContainer(sl.X.Type()) {
					continue
				}
				// only slices that become the Val of a list literal (the split), not argument lists
				isSplit := false
				for _, ref := range *sl.Referrers() {
					if st, ok := ref.(*ssa.Store); ok {
						if fa, ok := st.Addr.(*ssa.FieldAddr); ok && fieldName(fa.X.Type(), fa.Field) == "Val" {
							isSplit = true
						}
					}
				}
				if !isSplit {
					continue
				}
				n++
				c := canonVal(m.e, sl)
				// which clause tests hold here
				hasCatch, hasFinally := false, false
				for _, d := range fn.Blocks {
					if iff := blockIf(d); iff != nil && inScope(d) {
						cond, edge := iff.Cond, 0
						if bo, ok := cond.(*ssa.BinOp); ok && bo.Op == token.NEQ {
							// x != "catch": the clause is present on the false edge
							cond, edge = &ssa.BinOp{Op: token.EQL, X: bo.X, Y: bo.Y}, 1
						}
						if _, s, ok := strEq(cond); ok && edgeDominates(d, edge, b) {
							if s == "catch" {
								hasCatch = true
							}
							if s == "finally" {
								hasFinally = true
							}
						}
					}
				}
				okShape := want[c]
				detail := c
				// the body slice must match the clauses present
				if strings.HasPrefix(c, X+"[1:") {
					switch {
					case hasCatch && hasFinally:
						okShape = c == fmt.Sprintf("%s[1:len(%s)-2]", X, X)
					case hasCatch || hasFinally:
						okShape = c == fmt.Sprintf("%s[1:len(%s)-1]", X, X)
					default:
						okShape = c == X+"[1:]"
					}
					detail += fmt.Sprintf(" (catch clause: %v, finally clause: %v)", hasCatch, hasFinally)
				}
				r.check(okShape, "C03.shape", fn, "operands taken for a part of the try form: "+nz(m.w.srcExpr(sl), c), sl.Pos(), detail, "the slice "+detail+" does not match the grammar of the try form: a body form, the catch symbol or a handler form is dropped or misplaced")
			}
		}
	}
	scan(m.EVAL, func(b *ssa.BasicBlock) bool { return reg[b] }, form)
	// functions the region hands the whole form to that only take it apart
	doneSplit := map[*ssa.Function]bool{}
	for _, b := range m.EVAL.Blocks {
		if !reg[b] {
			continue
		}
		for _, in := range b.Instrs {
			c, ok := in.(*ssa.Call)
			if !ok || !m.formSplitter(c.Call.StaticCallee()) || doneSplit[c.Call.StaticCallee()] {
				continue
			}
			whole := false
			// the splitter is handed the operand list, or else the whole form (it may get both: the form then
			// only positions its errors)
			variant := ""
			for i, a := range c.Call.Args {
				if canonVal(m.e, a) == form+".(types.List).Val" {
					variant = fmt.Sprintf("=p%d", i)
				}
			}
			if variant == "" {
				for i, a := range c.Call.Args {
					if canonVal(m.e, a) == form {
						variant = fmt.Sprintf("p%d", i)
					}
					if canonVal(m.e, a) == form+".(types.List)" {
						variant = fmt.Sprintf("~p%d", i)
					}
				}
			}
			if variant != "" {
				whole = true
				doneSplit[c.Call.StaticCallee()] = true
				scan(c.Call.StaticCallee(), func(*ssa.BasicBlock) bool { return true }, variant)
			}
			if !whole {
				// a helper that is handed one clause: its slices, with the arguments of this call put in for
				// its parameters, are held against the same grammar
				callee := c.Call.StaticCallee()
				for _, hb := range callee.Blocks {
					for _, hin := range hb.Instrs {
						sl, ok := hin.(*ssa.Slice)
						if !ok || !lispContainer(sl.X.Type()) {
							continue
						}
						cs := canonVal(m.e, sl)
						for i := len(c.Call.Args) - 1; i >= 0; i-- {
							cs = strings.ReplaceAll(cs, fmt.Sprintf("p%d", i), canonVal(m.e, c.Call.Args[i]))
						}
						X := form + ".(types.List).Val"
						if !strings.Contains(cs, X) && !strings.HasPrefix(cs, "φ") {
							continue
						}
						n++
						okShape := false
						for _, l := range []string{X + "[len(" + X + ")-1]", X + "[len(" + X + ")-2]", X + "[1]", X + "[2]", "φ"} {
							if cs == l+".(types.List).Val[2:]" || cs == l+".(types.List).Val[1:]" {
								okShape = true
							}
						}
						r.check(okShape, "C03.shape", m.EVAL, "operands taken for a part of the try form by "+callee.Name(), c.Pos(), cs, "the slice "+cs+" does not match the grammar of the try form: the catch symbol or a handler form is dropped or misplaced")
					}
				}
			}
		}
	}
	r.floor("C03.shape", "operand splits of the try form", n, 6)
}

// canonForm: canonical rendering of the dispatched form (the value whose head feeds the dispatch).
func canonForm(m *evalModel) string {
	var find func(v ssa.Value, depth int) ssa.Value
	find = func(v ssa.Value, depth int) ssa.Value {
		if depth > 8 {
			return nil
		}
		switch x := v.(type) {
		case *ssa.Phi:
			for _, op := range x.Edges {
				if s := find(op, depth+1); s != nil {
					return s
				}
			}
		case *ssa.Field:
			return find(x.X, depth+1)
		case *ssa.TypeAssert:
			// a0.(Symbol): a0 is element 0 of the form's list, however the list was obtained
			if k := m.e.keyOf(x.X); k.Root != nil && strings.HasSuffix(k.Path, ".Val[0]") && strings.Count(k.Path, "[") == 1 {
				return k.Root
			}
			// a0.(Symbol): a0 = *(&form.(List).Val[0])
			if ld, ok := x.X.(*ssa.UnOp); ok {
				if ia, ok := ld.X.(*ssa.IndexAddr); ok {
					if f, ok := ia.X.(*ssa.Field); ok {
						if ta, ok := f.X.(*ssa.TypeAssert); ok {
							return ta.X
						}
					}
				}
			}
		case *ssa.Extract:
			if ta, ok := x.Tuple.(*ssa.TypeAssert); ok {
				return find(ta, depth+1)
			}
		case *ssa.Call:
			if head := headNameArg(x); head != nil {
				if k := m.e.keyOf(head); k.Root != nil && strings.HasSuffix(k.Path, ".Val[0]") && strings.Count(k.Path, "[") == 1 {
					return k.Root
				}
				if ld, ok := head.(*ssa.UnOp); ok {
					if ia, ok := ld.X.(*ssa.IndexAddr); ok {
						if f, ok := ia.X.(*ssa.Field); ok {
							if ta, ok := f.X.(*ssa.TypeAssert); ok {
								return ta.X
							}
						}
					}
				}
			}
		}
		return nil
	}
	if v := find(m.dispatch, 0); v != nil {
		return canonVal(m.e, v)
	}
	return ""
}

// newLispErrorRule decides what NewLispError(obj, ast) returns on every path: either a copy of obj itself
// (asserted to LispError, not looked up in its Unwrap chain) whose cursor alone is overwritten, or a new
// LispError{err: obj}; in both cases the cursor is GetPosition(ast), stored unconditionally.
func newLispErrorRule(w *World, r *Report, rule string) {
	fn := w.Fn("lisperror", "NewLispError")
	gp := w.Fn("lisperror", "GetPosition")
	if fn == nil || gp == nil || len(fn.Params) != 2 {
		r.undecided(rule, nil, "NewLispError", token.NoPos, "function no longer resolves")
		return
	}
	obj, ast := ssa.Value(fn.Params[0]), ssa.Value(fn.Params[1])
	isPos := func(v ssa.Value) bool {
		c, ok := v.(*ssa.Call)
		return ok && c.Call.StaticCallee() == gp && len(c.Call.Args) == 1 && c.Call.Args[0] == ast
	}
	// before(a, b): instruction a is executed on every path to b
	before := func(a, b ssa.Instruction) bool {
		if a.Block() == b.Block() {
			for _, in := range a.Block().Instrs {
				if in == a {
					return true
				}
				if in == b {
					return false
				}
			}
		}
		return a.Block().Dominates(b.Block())
	}
	n := 0
	for _, blk := range fn.Blocks {
		if len(blk.Instrs) == 0 || blk == fn.Recover {
			continue
		}
		ret, ok := blk.Instrs[len(blk.Instrs)-1].(*ssa.Return)
		if !ok || len(ret.Results) != 1 {
			continue
		}
		n++
		construct := "value returned by NewLispError"
		ld, ok := ret.Results[0].(*ssa.UnOp)
		var al *ssa.Alloc
		if ok && ld.Op == token.MUL {
			al, _ = ld.X.(*ssa.Alloc)
		}
		if al == nil {
			r.bad(rule, fn, construct, ret.Pos(), "the returned error is not a local copy / literal built here: "+describeVal(nil, ret.Results[0], 0))
			continue
		}
		var whole []*ssa.Store
		fieldStores := map[string][]*ssa.Store{}
		escapes := ""
		for _, ref := range *al.Referrers() {
			switch u := ref.(type) {
			case *ssa.Store:
				if u.Addr == ssa.Value(al) {
					whole = append(whole, u)
				} else {
					escapes = "stored elsewhere"
				}
			case *ssa.FieldAddr:
				for _, u2 := range *u.Referrers() {
					if st, ok := u2.(*ssa.Store); ok && st.Addr == ssa.Value(u) {
						fieldStores[fieldName(u.X.Type(), u.Field)] = append(fieldStores[fieldName(u.X.Type(), u.Field)], st)
					}
				}
			case *ssa.UnOp, *ssa.DebugRef:
			case ssa.CallInstruction:
				escapes = "its address is handed to " + describeCallInstr(nil, u)
			default:
				escapes = "its address is used by " + ref.String()
			}
		}
		if escapes != "" {
			r.bad(rule, fn, construct, ret.Pos(), "the returned error is filled in by other code ("+escapes+"): it need not be the object that was given (an error found deeper in the Unwrap chain drops the outer errors)")
			continue
		}
		problems := []string{}
		if len(whole) > 0 {
			for _, st := range whole {
				src := st.Val
				if ex, ok := src.(*ssa.Extract); ok {
					src = ex.Tuple
				}
				ta, ok := src.(*ssa.TypeAssert)
				if !ok || ta.X != obj {
					problems = append(problems, "the copy is not the given object itself asserted to LispError")
				}
			}
			for f := range fieldStores {
				if f != "cursor" {
					problems = append(problems, "field "+f+" of the existing error is overwritten")
				}
			}
		} else {
			okErr := false
			for _, st := range fieldStores["err"] {
				if st.Val == obj && before(st, ret) {
					okErr = true
				}
			}
			if !okErr {
				problems = append(problems, "the new error does not store the object it was given")
			}
		}
		okCur := false
		for _, st := range fieldStores["cursor"] {
			if isPos(st.Val) && before(st, ret) {
				okCur = true
			}
		}
		if !okCur {
			problems = append(problems, "the cursor is not set to GetPosition(ast) on every path (an error keeps an earlier position)")
		}
		r.check(len(problems) == 0, rule, fn, construct, ret.Pos(), "the given object (copied when it is a LispError) re-positioned at the form", strings.Join(problems, "; "))
	}
	r.floor(rule, "returns of NewLispError", n, 2)
}

// errorReturns: like evalModel.returns, for any function whose last result is an error: (return, first result or nil, error result).
func errorReturns(fn *ssa.Function) [][3]interface{} {
	var out [][3]interface{}
	for _, b := range fn.Blocks {
		if len(b.Instrs) == 0 || b == fn.Recover {
			continue
		}
		if ret, ok := b.Instrs[len(b.Instrs)-1].(*ssa.Return); ok && len(ret.Results) >= 1 {
			last := resolveRet(ret.Results[len(ret.Results)-1])
			var first ssa.Value
			if len(ret.Results) > 1 {
				first = resolveRet(ret.Results[0])
			}
			out = append(out, [3]interface{}{ret, first, last})
		}
	}
	return out
}

// carriesExistingError: v is, positions or wraps an error value that existed before (the result of a call other
// than an error constructor, a parameter, a variable) - as opposed to an error constructed on the spot.
func carriesExistingError(v ssa.Value, depth int) bool {
	if depth > 8 {
		return true
	}
	switch y := v.(type) {
	case *ssa.Const:
		return false
	case *ssa.MakeInterface:
		return carriesExistingError(y.X, depth+1)
	case *ssa.ChangeInterface:
		return carriesExistingError(y.X, depth+1)
	case *ssa.Phi:
		for _, op := range y.Edges {
			if carriesExistingError(op, depth+1) {
				return true
			}
		}
		return false
	case *ssa.Call:
		c := y.Call.StaticCallee()
		if c == nil {
			return true
		}
		switch c.Name() {
		case "New":
			return false
		case "NewLispError", "NewGoError":
			if !isErrorType(unboxed(y.Call.Args[len(y.Call.Args)-1]).Type()) && c.Name() == "NewGoError" {
				return false
			}
			a := y.Call.Args[0]
			if c.Name() == "NewGoError" {
				a = y.Call.Args[1]
			}
			u := unboxed(a)
			if _, isIface := u.Type().Underlying().(*types.Interface); !isIface {
				return false // a non-error object (string, value) boxed into the error
			}
			return carriesExistingError(a, depth+1)
		case "Errorf":
			if len(y.Call.Args) == 2 {
				for _, el := range sliceLiteralElems(y.Call.Args[1]) {
					if u := unboxed(el); isErrorType(u.Type()) && carriesExistingError(u, depth+1) {
						return true
					}
				}
			}
			return false
		}
		if pi, ok := errDecorator(c); ok && pi < len(y.Call.Args) {
			return carriesExistingError(y.Call.Args[pi], depth+1)
		}
		// a function of the module every return of which makes its error from scratch
		if inModule(c) && len(c.Blocks) > 0 && !errDecoBusy[c] && c.Signature.Results().Len() == 1 {
			errDecoBusy[c] = true
			defer delete(errDecoBusy, c)
			for _, b := range c.Blocks {
				if len(b.Instrs) == 0 || b == c.Recover {
					continue
				}
				if ret, ok := b.Instrs[len(b.Instrs)-1].(*ssa.Return); ok && len(ret.Results) == 1 && carriesExistingError(resolveRet(ret.Results[0]), depth+1) {
					return true
				}
			}
			return false
		}
		return true
	}
	return true
}

// partialCopyRule: a literal of the named value struct that takes two or more of its fields from the like-named
// fields of one existing value is a modified copy of that value; it must then account for every field (copied or
// set explicitly), otherwise the fields left out silently fall back to their zero value (a macro stops being a
// macro, a function loses its scope builder).
func partialCopyRule(w *World, r *Report, rule, typeName string) {
	n := 0
	for _, fn := range w.Funcs {
		if isTestFunc(w, fn) || !runtimePkg(fnPkgPath(fn)) {
			continue
		}
		for _, b := range fn.Blocks {
			for _, in := range b.Instrs {
				al, ok := in.(*ssa.Alloc)
				if !ok {
					continue
				}
				_, name, ok := w.namedStruct(al.Type().(*types.Pointer).Elem())
				if !ok || name != typeName {
					continue
				}
				st := al.Type().(*types.Pointer).Elem().Underlying().(*types.Struct)
				set := map[string]bool{}
				fromSrc := map[string]int{} // rendering of the source value -> number of fields copied from it
				whole := false
				for _, ref := range *al.Referrers() {
					switch u := ref.(type) {
					case *ssa.Store:
						if u.Addr == ssa.Value(al) {
							whole = true // initialised by a whole-struct copy: every field accounted for
						}
					case *ssa.FieldAddr:
						fname := fieldName(u.X.Type(), u.Field)
						for _, u2 := range *u.Referrers() {
							s2, ok := u2.(*ssa.Store)
							if !ok || s2.Addr != ssa.Value(u) {
								continue
							}
							set[fname] = true
							// value = src.fname ?
							var srcBase ssa.Value
							switch v := s2.Val.(type) {
							case *ssa.Field:
								if fieldName(v.X.Type(), v.Field) == fname {
									srcBase = v.X
								}
							case *ssa.UnOp:
								if fa, ok := v.X.(*ssa.FieldAddr); ok && v.Op == token.MUL && fieldName(fa.X.Type(), fa.Field) == fname {
									srcBase = fa.X
								}
							}
							if srcBase != nil {
								if _, sname, ok := w.namedStruct(derefType(srcBase.Type())); ok && sname == typeName {
									fromSrc[srcBase.Name()]++
								}
							}
						}
					}
				}
				best := 0
				for _, c := range fromSrc {
					if c > best {
						best = c
					}
				}
				if whole || best < 2 {
					continue
				}
				n++
				var missing []string
				for i := 0; i < st.NumFields(); i++ {
					if !set[st.Field(i).Name()] {
						missing = append(missing, st.Field(i).Name())
					}
				}
				r.check(len(missing) == 0, rule, fn, "modified copy of a "+typeName+" built field by field", al.Pos(), "every field copied or set", "the copy leaves out "+strings.Join(missing, ", ")+": the result silently loses that property of the original")
			}
		}
	}
	r.add(rule, nil, "field-by-field copies of "+typeName, token.NoPos, "info", fmt.Sprintf("%d literal(s) that copy two or more fields from one existing value", n))
}

func derefType(t types.Type) types.Type {
	if p, ok := t.Underlying().(*types.Pointer); ok {
		return p.Elem()
	}
	return t
}

// binderErrorOnly: v is, on every path and at every call site, the error result of the parameter binder
// (env.NewSubordinateEnvWithBinds): an error created a moment ago that nobody else holds.
func binderErrorOnly(w *World, e *Engine, v ssa.Value, depth int) bool {
	binder := w.Fn("env", "NewSubordinateEnvWithBinds")
	if binder == nil || depth > 4 {
		return false
	}
	n := 0
	for _, lf := range e.producers(unboxed(v), map[ssa.Value]bool{}, 0) {
		n++
		lf = unboxed(lf)
		switch x := lf.(type) {
		case *ssa.Extract:
			c, ok := x.Tuple.(*ssa.Call)
			if !ok || c.Call.StaticCallee() != binder || x.Index != 1 {
				return false
			}
		case *ssa.Parameter:
			fn := x.Parent()
			if fn.Parent() != nil || fn.Object() == nil || fn.Object().Exported() {
				return false
			}
			args := w.callSiteArgs(x)
			if len(args) == 0 {
				return false
			}
			for _, a := range args {
				if !binderErrorOnly(w, e, a, depth+1) {
					return false
				}
			}
		default:
			return false
		}
	}
	return n > 0
}

// errorIsRule: errors.Is on a lisp error compares what was thrown, never how the error prints: the printed form
// carries the position, and the evaluator re-positions an error at every call it crosses.
func errorIsRule(w *World, r *Report, rule string) {
	r.rule(rule, "LispError.Is decides by the thrown objects (ErrorValue() of both errors, or the object's own Is): it calls no Error() method, whose text includes the position the evaluator rewrites on the way up, so a sentinel stays reachable with errors.Is through any depth of calls")
	is := w.Fn("lisperror", "(LispError).Is")
	if is == nil {
		r.undecided(rule, nil, "(LispError).Is", token.NoPos, "method no longer resolves")
		return
	}
	n, cmp := 0, false
	// the thrown object: the field the ErrorValue accessor returns, read through the accessor or directly
	thrown, eng := "", newEngine(w)
	if ev := w.Fn("lisperror", "(LispError).ErrorValue"); ev != nil {
		if cs := eng.accessorCases(ev); len(cs) == 1 && !cs[0].isNil {
			thrown = cs[0].path
		}
	}
	isEV := func(v ssa.Value) bool {
		v = unboxed(v)
		if c, ok := v.(*ssa.Call); ok && c.Call.StaticCallee() != nil && c.Call.StaticCallee().Name() == "ErrorValue" {
			return true
		}
		k := eng.keyOf(v)
		if thrown == "" || k.Root == nil || !strings.HasSuffix(k.Path, thrown) {
			return false
		}
		if rest := strings.TrimSuffix(k.Path, thrown); rest != "" {
			return strings.HasSuffix(rest, ".LispError)") // the field of an error asserted to be a LispError
		}
		_, name, ok := w.namedStruct(k.Root.Type())
		return ok && name == "LispError"
	}
	for _, f := range w.withPkgHelpers(is) {
		for _, b := range f.Blocks {
			for _, in := range b.Instrs {
				switch x := in.(type) {
				case ssa.CallInstruction:
					name := ""
					if sc := x.Common().StaticCallee(); sc != nil {
						name = sc.Name()
					} else if x.Common().IsInvoke() {
						name = x.Common().Method.Name()
					}
					if name == "Error" || name == "String" || name == "Sprint" || name == "Sprintf" {
						n++
						r.bad(rule, f, "text of an error used to decide Is", in.Pos(), "Is looks at how an error prints ("+name+"): the text of a lisp error starts with its position, which changes whenever the error crosses a call, so errors.Is stops finding a sentinel that ErrorValue still returns")
					}
				case *ssa.BinOp:
					if x.Op == token.EQL && isEV(x.X) && isEV(x.Y) {
						cmp = true
					}
				}
			}
		}
	}
	n++
	r.check(cmp, rule, is, "comparison of the thrown objects", is.Pos(), "ErrorValue() == ErrorValue()", "Is never compares the two errors' thrown objects")
	r.floor(rule, "decisions of LispError.Is", n, 1)
}

// droppedErrorRule: between a call that can fail and the test of its error nothing answers "success": a return
// with a nil error that comes after the call is only reached through the no-error edge of a test of that call's
// error. (A success return placed before the test hides the failure from every catch and from the Go caller.)
func droppedErrorRule(w *World, r *Report, rule string) {
	r.rule(rule, "in the runtime packages, a return that reports success after a call whose error result is bound to a variable lies behind the no-error edge of a test of that error: no path answers success while an error the callee returned is still unexamined (the thrown value would reach neither the nearest catch nor the Go caller)")
	n := 0
	for _, fn := range w.Funcs {
		if isTestFunc(w, fn) || !runtimePkg(fnPkgPath(fn)) || len(fn.Blocks) == 0 {
			continue
		}
		ei := hasErrorResult(fn)
		if ei < 0 {
			continue
		}
		for _, b := range fn.Blocks {
			for _, in := range b.Instrs {
				c, ok := in.(*ssa.Call)
				if !ok {
					continue
				}
				callee := c.Call.StaticCallee()
				if callee == nil || !inModule(callee) || hasErrorResult(callee) < 0 || callee.Signature.Results().Len() < 2 {
					continue
				}
				errEx := extractOf(c, hasErrorResult(callee))
				if errEx == nil {
					continue // the call's results are returned as they are, or the error is not bound
				}
				// tests of that error
				var tests []*ssa.BasicBlock
				nilEdge := map[*ssa.BasicBlock]int{}
				for _, d := range fn.Blocks {
					iff := blockIf(d)
					if iff == nil {
						continue
					}
					bo, ok := iff.Cond.(*ssa.BinOp)
					if !ok || !isNilConst(bo.Y) || bo.X != ssa.Value(errEx) {
						continue
					}
					switch bo.Op {
					case token.NEQ:
						tests = append(tests, d)
						nilEdge[d] = 1
					case token.EQL:
						tests = append(tests, d)
						nilEdge[d] = 0
					}
				}
				if len(tests) == 0 {
					// bound to a variable that is assigned again before anybody reads it: the error is lost
					used := false
					for _, ref := range *errEx.Referrers() {
						if _, isDbg := ref.(*ssa.DebugRef); !isDbg {
							used = true
						}
					}
					if !used && !w.blankResult(c, hasErrorResult(callee)) {
						n++
						r.bad(rule, fn, "error of "+callee.Name()+" bound and never read", c.Pos(), "the error returned by "+callee.Name()+" is assigned to a variable that is overwritten (or left) before it is looked at: when the callee fails - an update function that throws, say - the function goes on with the callee's empty result and answers success")
					}
					continue // handled in other ways (returned, stored, passed on): other rules
				}
				for _, rb := range fn.Blocks {
					if len(rb.Instrs) == 0 || rb == fn.Recover {
						continue
					}
					ret, ok := rb.Instrs[len(rb.Instrs)-1].(*ssa.Return)
					if !ok || ei >= len(ret.Results) || !isNilConst(resolveRet(ret.Results[ei])) {
						continue
					}
					if !(c.Block() == rb || c.Block().Dominates(rb)) {
						continue
					}
					n++
					behind := false
					for _, d := range tests {
						if edgeDominates(d, nilEdge[d], rb) {
							behind = true
						}
					}
					r.check(behind, rule, fn, "success reported after "+callee.Name()+" may have failed", ret.Pos(), "behind the no-error edge of the test of its error", "this return reports success on a path on which the error returned by "+callee.Name()+" has not been examined yet: when the callee failed (a throw inside an update function, say) the failure is swallowed and the program carries on")
				}
			}
		}
	}
	r.floor(rule, "success returns after fallible calls", n, 20)
}

// catchPresentRule: whether a thrown value is delivered to the handler is decided by the presence of the
// catch clause alone. Where the try region tests a part of the split form against nil and answers the
// error itself on the nil side, that part is never nil on a path through a catch clause: a clause with an
// empty handler is still a catch clause (the value is caught and the form yields nil).
func catchPresentRule(m *evalModel, r *Report, rule string) {
	r.rule(rule, "a thrown value reaches the handler whenever the try form has a catch clause: a value of the split form whose nil-ness decides between running the handler and returning the error is assigned, on every path through a catch clause, something that is never nil (an empty handler is a handler)")
	reg, ok := m.regions["try"]
	if !ok {
		return
	}
	fn := m.EVAL
	underCatch := func(b *ssa.BasicBlock) bool {
		for _, d := range fn.Blocks {
			if iff := blockIf(d); iff != nil && reg[d] {
				if _, s, ok := strEq(iff.Cond); ok && s == "catch" && edgeDominates(d, 0, b) {
					return true
				}
			}
		}
		return false
	}
	var mayBeNil func(v ssa.Value, depth int) ssa.Value
	mayBeNil = func(v ssa.Value, depth int) ssa.Value {
		if depth > 5 {
			return nil
		}
		switch x := v.(type) {
		case *ssa.Const:
			if x.Value == nil {
				return x
			}
		case *ssa.Phi:
			for _, ed := range x.Edges {
				if c := mayBeNil(ed, depth+1); c != nil {
					return c
				}
			}
		case *ssa.Call:
			callee := x.Call.StaticCallee()
			if callee == nil || !inModule(callee) || len(callee.Blocks) == 0 || callee.Signature.Results().Len() != 1 {
				return nil
			}
			for _, b := range callee.Blocks {
				if ret, ok := b.Instrs[len(b.Instrs)-1].(*ssa.Return); ok {
					if c := mayBeNil(resolveRet(ret.Results[0]), depth+1); c != nil {
						return ret.Results[0]
					}
				}
			}
		}
		return nil
	}
	n := 0
	for _, d := range fn.Blocks {
		iff := blockIf(d)
		if iff == nil || !reg[d] {
			continue
		}
		bo, ok := iff.Cond.(*ssa.BinOp)
		if !ok || (bo.Op != token.EQL && bo.Op != token.NEQ) || !isNilConst(bo.Y) || isErrorType(bo.X.Type()) {
			continue
		}
		if _, isIface := bo.X.Type().Underlying().(*types.Interface); !isIface {
			continue
		}
		nilEdge := 0
		if bo.Op == token.NEQ {
			nilEdge = 1
		}
		// the nil side answers with the error
		propagates := false
		seen := map[*ssa.BasicBlock]bool{}
		stack := []*ssa.BasicBlock{d.Succs[nilEdge]}
		for len(stack) > 0 {
			b := stack[len(stack)-1]
			stack = stack[:len(stack)-1]
			if seen[b] || !reg[b] {
				continue
			}
			seen[b] = true
			if ret, ok := b.Instrs[len(b.Instrs)-1].(*ssa.Return); ok && len(ret.Results) > 0 {
				if ev := resolveRet(ret.Results[len(ret.Results)-1]); isErrorType(ev.Type()) && !isNilConst(ev) {
					propagates = true
				}
			}
			stack = append(stack, b.Succs...)
		}
		if !propagates {
			continue
		}
		n++
		for _, p := range m.e.producers(bo.X, map[ssa.Value]bool{}, 0) {
			in, ok := p.(ssa.Instruction)
			if !ok || in.Parent() != fn || !underCatch(in.Block()) {
				continue
			}
			c := mayBeNil(p, 0)
			r.check(c == nil, rule, fn, "handler part assigned in a catch clause", p.Pos(), "never nil", "the value whose nil-ness decides whether the error is caught ("+describeVal(m.e, bo.X, 0)+") can be nil although the form has a catch clause ("+describeVal(m.e, p, 0)+" may return nil): a catch clause with an empty handler is taken for no catch clause, and the thrown value passes the nearest catch")
		}
	}
	r.floor(rule, "nil tests deciding between handler and propagation", n, 1)
}

// loopErrorRule: an error obtained in one lap of a loop is examined in the loop. Where the error result of a
// call made inside a loop is only carried round the loop (it feeds a variable of the loop header) and neither
// it nor that variable is tested against nil inside the loop, the next lap's call overwrites it: of all the
// elements only the last one's failure is noticed, the others are silently skipped.
func loopErrorRule(w *World, r *Report, rule string, in func(*ssa.Function) bool) {
	r.rule(rule, "the error result of a call made inside a loop is tested inside that loop (itself, or the loop variable it is assigned to): it is never just carried into the next iteration, where the next call's result replaces it unexamined")
	n := 0
	for _, fn := range w.Funcs {
		if isTestFunc(w, fn) || len(fn.Blocks) == 0 || !in(fn) {
			continue
		}
		for _, l := range naturalLoops(fn) {
			blocks := loopBlocks(l)
			tested := func(v ssa.Value) bool {
				for b := range blocks {
					if iff := blockIf(b); iff != nil {
						for _, a := range condsOf(nil, iff.Cond, true) {
							if bo, ok := a.v.(*ssa.BinOp); ok && (bo.Op == token.EQL || bo.Op == token.NEQ) && isNilConst(bo.Y) && bo.X == v {
								return true
							}
						}
					}
				}
				return false
			}
			for b := range blocks {
				for _, ins := range b.Instrs {
					c, ok := ins.(*ssa.Call)
					if !ok {
						continue
					}
					callee := c.Call.StaticCallee()
					if callee == nil || !inModule(callee) || hasErrorResult(callee) < 0 || callee.Signature.Results().Len() < 2 {
						continue
					}
					errEx := extractOf(c, hasErrorResult(callee))
					if errEx == nil {
						continue
					}
					n++
					for _, ref := range *errEx.Referrers() {
						phi, ok := ref.(*ssa.Phi)
						if !ok || phi.Block() != l.header {
							continue
						}
						if tested(errEx) || tested(phi) {
							continue
						}
						r.bad(rule, fn, "error of "+describeCall(nil, c, 0)+" carried round the loop", c.Pos(), "the error this call returns in one iteration is only stored for later: the call of the next iteration overwrites it before anything looks at it, so a failure on any element but the last goes unnoticed and that element is skipped (a wrong value instead of an error)")
					}
				}
			}
		}
	}
	r.add(rule, nil, "calls with an error result inside loops", token.NoPos, "ok", fmt.Sprintf("%d examined", n))
	r.floor(rule, "calls with an error result inside loops", n, 3)
}

// yieldsFn: the form is a (fn …) literal, or a let / do whose last form yields one (helpers shared by all
// expansions bound around the macro's function).
func yieldsFn(s *sx, depth int) bool {
	if s == nil || depth > 3 {
		return false
	}
	switch s.head() {
	case "fn":
		return true
	case "let", "do":
		return len(s.items) >= 2 && yieldsFn(s.items[len(s.items)-1], depth+1)
	}
	return false
}

// unwrapRule: LispError.Unwrap hands out the error it carries - that very link of the chain, not something
// further down - or nil when it carries a value that is no error. errors.Is / errors.As walk the chain link
// by link: a link that is skipped is an error nobody can find any more (the "pkg[fn]: %w" wrapper of a
// panic in a bound function, the original behind it).
func unwrapRule(w *World, r *Report, m *evalModel, e *Engine, rule string) {
	fn := w.Fn("lisperror", "(LispError).Unwrap")
	if fn == nil {
		r.undecided(rule, nil, "LispError.Unwrap", token.NoPos, "method no longer resolves")
		return
	}
	thrown := ""
	if ev := w.Fn("lisperror", "(LispError).ErrorValue"); ev != nil {
		if cs := e.accessorCases(ev); len(cs) == 1 && !cs[0].isNil {
			thrown = cs[0].path
		}
	}
	stored := func(x ssa.Value) bool {
		if thrown != "" {
			k := e.keyOf(x)
			if k.Root == ssa.Value(fn.Params[0]) && k.Path == thrown {
				return true
			}
		}
		return strings.HasSuffix(describeVal(e, x, 0), ".err")
	}
	okU, allU := false, true
	for _, rt := range (&evalModel{}).returns(fn) {
		v := rt[1].(ssa.Value)
		if isNilConst(v) {
			continue
		}
		isStored := false
		if ex, ok := v.(*ssa.Extract); ok {
			if ta, ok := ex.Tuple.(*ssa.TypeAssert); ok && stored(ta.X) {
				isStored = true
			}
		}
		if ta, ok := v.(*ssa.TypeAssert); ok && stored(ta.X) {
			isStored = true
		}
		if isStored {
			okU = true
		} else {
			allU = false
		}
	}
	_ = m
	r.check(okU && allU, rule, fn, "Unwrap", fn.Pos(), "every return is the stored object (when it is an error) or nil", "Unwrap returns something other than the stored error on some path (a link of the chain is skipped): errors.Is / errors.As no longer see the error that was returned or thrown")
}

// stepperDefaultRule: with a stepper installed EVAL leaves its loop and recurses for every tail form (the
// stepping continuation), so tail calls cost host stack.  That mode is for debugging sessions: the Stepper
// variable is nil unless a session was started by a call - it has no initial value and is never assigned while
// packages are initialised (importing the debugger must not put every program of the binary into stepping mode).
func stepperDefaultRule(w *World, r *Report, m *evalModel, rule string) {
	r.rule(rule, "the evaluator's Stepper variable is nil until a debugging session is started by a call: it is assigned in no package initialiser (init function or package-level variable initialiser) and in nothing such an initialiser calls - importing a package never switches the evaluation loop of the whole program to the stepping mode, in which every tail call recurses")
	g, _ := m.EVAL.Pkg.Members["Stepper"].(*ssa.Global)
	if g == nil {
		r.undecided(rule, nil, "Stepper", token.NoPos, "the package-level Stepper variable no longer resolves")
		return
	}
	// functions run during package initialisation: the synthetic init of every package, the declared init
	// functions, and what they call
	var roots []*ssa.Function
	for _, f := range w.Funcs {
		if isTestFunc(w, f) || f.Parent() != nil || !inModule(f) {
			continue
		}
		if f.Name() == "init" || strings.HasPrefix(f.Name(), "init#") {
			roots = append(roots, f)
		}
	}
	atInit := w.reachableFrom(roots)
	for _, f := range roots {
		atInit[f] = true
	}
	n := 0
	for _, f := range w.Funcs {
		if isTestFunc(w, f) || !inModule(f) {
			continue
		}
		root := f
		for root.Parent() != nil {
			root = root.Parent()
		}
		for _, b := range f.Blocks {
			for _, in := range b.Instrs {
				st, ok := in.(*ssa.Store)
				if !ok || st.Addr != ssa.Value(g) {
					continue
				}
				n++
				if isNilConst(st.Val) {
					r.ok(rule, f, "assignment of nil to Stepper", st.Pos(), "switches stepping off")
					continue
				}
				r.check(!atInit[root] && !atInit[f], rule, f, "assignment to Stepper", st.Pos(), "in a function that a debugging session calls, not during package initialisation", "a stepper is installed while packages are initialised: every program of a binary that merely links this package runs with Stepper != nil, where EVAL leaves its loop and recurses for every tail call - tail-recursive programs grow the host stack")
			}
		}
	}
	r.floor(rule, "assignments to Stepper in the module", n, 1)
}

// expanderReturnsLoopForm: every return of the macro expander that hands back a value hands back the form its
// loop stopped at (a return that passes an error on hands back nil).
func expanderReturnsLoopForm(m *evalModel, formPhi *ssa.Phi) bool {
	for _, rt := range m.returns(m.macroexpand) {
		v := rt[1].(ssa.Value)
		if isNilConst(v) {
			continue // an error is being reported
		}
		if formPhi == nil || v != ssa.Value(formPhi) {
			return false
		}
	}
	return true
}

// expansionOnlyRule: what is evaluated is the form as written or its macro expansion. The expander hands back the
// form its loop stopped at and nothing else, and it is called on whole forms about to be evaluated only - no part
// of the evaluator rewrites a form (an "optimisation" of nested calls by the names of their heads) or expands
// it ahead of time.
func expansionOnlyRule(w *World, r *Report, m *evalModel, rule string) {
	r.rule(rule, "the macro expander returns, whenever it returns a form, the form its expansion loop stopped at - never a form put together or picked out otherwise (a rewrite by the names of the heads ignores the innermost binding of those names) - and it is called only at the top of the evaluation loop and by the macroexpand form (shared with C12.fixpoint and C12.expand-site)")
	loops := naturalLoops(m.macroexpand)
	if !r.check(len(loops) == 1, rule, m.macroexpand, "expansion loop", m.macroexpand.Pos(), "one loop", "macroexpand is not a loop") {
		return
	}
	var formPhi *ssa.Phi
	for _, in := range loops[0].header.Instrs {
		if phi, ok := in.(*ssa.Phi); ok && isMalType(phi.Type()) {
			formPhi = phi
		}
	}
	r.check(expanderReturnsLoopForm(m, formPhi), rule, m.macroexpand, "value returned by the expander", m.macroexpand.Pos(), "the form the loop stopped at", "macroexpand returns a form other than the one its loop stopped at: the form evaluated is neither the form written nor its expansion")
	n := 0
	for _, ec := range m.evalCalls() {
		if ec.callee != m.macroexpand {
			continue
		}
		n++
		regs := m.regionSet(ec.call.Block())
		okSite := (ec.fn == m.EVAL && m.regionOf(ec.call.Block()) == "" && !m.defaultRegion[ec.call.Block()]) || (len(regs) == 1 && regs["macroexpand"])
		r.check(okSite, rule, ec.fn, "call of the macro expander", ec.call.Pos(), "the top of the loop or the macroexpand form", "a form (or a part of one) is expanded ahead of its evaluation in "+w.fnName(ec.fn)+": what is evaluated later is not the form as written")
	}
	r.floor(rule, "calls of the macro expander", n, 2)
}

// undoAlwaysRunsRule: what the debugger changes about the running program's scope or evaluator "for the moment"
// (a protection, a saved setting) it takes back through the function the change handed it. That function is then
// called on every way out of the step: a path that leaves the loop or the function without calling it leaves the
// program in the changed state for the rest of its run.
func undoAlwaysRunsRule(w *World, r *Report, rule string) {
	r.rule(rule, "in package debugger every func() obtained as the result of a call into the module (a release, restore or undo function) is deferred, or called on every path from the call that produced it to the next return of the function and to the next round of the enclosing loop")
	n := 0
	for _, fn := range w.pkgFuncs("debugger") {
		if isTestFunc(w, fn) {
			continue
		}
		for _, b := range fn.Blocks {
			for i, in := range b.Instrs {
				c, ok := in.(*ssa.Call)
				if !ok || c.Call.StaticCallee() == nil || !inModule(c.Call.StaticCallee()) {
					continue
				}
				var undo ssa.Value
				if sig, ok := c.Type().Underlying().(*types.Signature); ok && sig.Params().Len() == 0 && sig.Results().Len() == 0 {
					undo = c
				}
				if undo == nil {
					continue
				}
				n++
				runs := map[*ssa.BasicBlock]bool{}
				deferred, sameBlock, handedOn := false, false, false
				for _, ref := range *undo.Referrers() {
					switch u := ref.(type) {
					case *ssa.DebugRef:
					case *ssa.Store, *ssa.Return, *ssa.MakeClosure, *ssa.Phi, *ssa.MakeInterface:
						handedOn = true // kept for later or passed to someone else: not this function's to call
					case *ssa.Defer:
						if u.Call.Value == undo {
							deferred = true
						}
					case *ssa.Call:
						for _, a := range u.Call.Args {
							if a == undo {
								handedOn = true
							}
						}
						if u.Call.Value == undo {
							runs[u.Block()] = true
							if u.Block() == b {
								for _, later := range b.Instrs[i+1:] {
									if later == ssa.Instruction(u) {
										sameBlock = true
									}
								}
							}
						}
					}
				}
				if deferred || sameBlock {
					r.ok(rule, fn, "undo function of "+c.Call.StaticCallee().Name(), c.Pos(), "deferred or called right away")
					continue
				}
				if handedOn {
					r.ok(rule, fn, "undo function of "+c.Call.StaticCallee().Name(), c.Pos(), "stored or handed on: called by its keeper")
					continue
				}
				// a path from the call to a return, or round to the call again, that runs the undo nowhere
				leak, leaks := token.NoPos, false
				seen := map[*ssa.BasicBlock]bool{}
				work := append([]*ssa.BasicBlock{}, b.Succs...)
				if len(b.Succs) == 0 {
					leak, leaks = instrPos(b.Instrs[len(b.Instrs)-1]), true
				}
				for len(work) > 0 && !leaks {
					x := work[len(work)-1]
					work = work[:len(work)-1]
					if seen[x] || runs[x] {
						continue
					}
					seen[x] = true
					if x == b {
						leak, leaks = c.Pos(), true
						break
					}
					if len(x.Succs) == 0 {
						if _, isRet := x.Instrs[len(x.Instrs)-1].(*ssa.Return); isRet {
							leak, leaks = instrPos(x.Instrs[len(x.Instrs)-1]), true
							if leak == token.NoPos {
								leak = fn.Pos() // the end of the function body
							}
						}
						continue
					}
					work = append(work, x.Succs...)
				}
				r.check(!leaks, rule, fn, "undo function of "+c.Call.StaticCallee().Name(), c.Pos(), "called on every way out", "the function returned by "+c.Call.StaticCallee().Name()+" is not called on the path that reaches "+w.pos(leak)+": what the debugger changed for the moment stays changed, and the program goes on in a scope or under a setting it would not have without the debugger")
			}
		}
	}
	r.add(rule, nil, "undo functions obtained by the debugger", token.NoPos, "ok", fmt.Sprintf("%d found", n))
}

// frameBlindRule: under a stepper every tail step is an activation of EVAL of its own, without one the tail steps
// of a function body are iterations of one activation. What an activation does once - on entry or in a deferred
// function - therefore happens once per tail step with a stepper and once per chain without: it must not touch
// what EVAL answers.
func frameBlindRule(m *evalModel, r *Report, rule string) {
	r.rule(rule, "no function deferred by EVAL outside its stepping code assigns EVAL's results (value or error): what EVAL answers does not depend on how many activations the tail steps of a body are spread over (one with the loop, one per step under a stepper)")
	// the cells of EVAL's named results: locals whose loads feed its returns
	results := map[*ssa.Alloc]bool{}
	for _, b := range m.EVAL.Blocks {
		if len(b.Instrs) == 0 {
			continue
		}
		ret, ok := b.Instrs[len(b.Instrs)-1].(*ssa.Return)
		if !ok {
			continue
		}
		for _, v := range ret.Results {
			if ld, ok := v.(*ssa.UnOp); ok && ld.Op == token.MUL {
				if al, ok := ld.X.(*ssa.Alloc); ok {
					results[al] = true
				}
			}
		}
	}
	n := 0
	for _, b := range m.EVAL.Blocks {
		for _, in := range b.Instrs {
			d, ok := in.(*ssa.Defer)
			if !ok {
				continue
			}
			n++
			if m.stepBlocks[b] {
				r.ok(rule, m.EVAL, "deferred function", d.Pos(), "stepping code (C18.effects)")
				continue
			}
			mc, ok := d.Call.Value.(*ssa.MakeClosure)
			if !ok {
				r.ok(rule, m.EVAL, "deferred function", d.Pos(), "captures nothing of EVAL")
				continue
			}
			fn := mc.Fn.(*ssa.Function)
			writes := token.NoPos
			found := false
			for i, fv := range fn.FreeVars {
				al, isAl := mc.Bindings[i].(*ssa.Alloc)
				if !isAl || !results[al] {
					continue
				}
				for _, ref := range *fv.Referrers() {
					if st, ok := ref.(*ssa.Store); ok && st.Addr == ssa.Value(fv) {
						writes, found = st.Pos(), true
					}
				}
			}
			r.check(!found, rule, m.EVAL, "deferred function", d.Pos(), "leaves EVAL's results alone", "the function deferred here assigns a result of EVAL ("+m.w.pos(writes)+") once per activation: with the loop that is once per chain of tail steps, under a stepper once per tail step, so the program ends with another value or error when it is stepped")
		}
	}
	r.add(rule, m.EVAL, "functions deferred by EVAL", token.NoPos, "ok", fmt.Sprintf("%d defers examined", n))
}

// oneErrorTypeRule: the evaluator, catch and the re-positioning constructor know a lisp error by its concrete
// type. A second type that embeds or contains a LispError and is handed on as an error is, for all of them, a
// foreign object: NewLispError wraps it whole, and catch binds the wrapper instead of the value the program threw.
func oneErrorTypeRule(w *World, r *Report, rule string) {
	r.rule(rule, "no named type of the runtime packages other than LispError itself has a field (embedded or not) of type LispError and is boxed into an error: the thrown object travels in one type, the one NewLispError, catch and LispError.Is recognise")
	n := 0
	for _, fn := range w.Funcs {
		if isTestFunc(w, fn) || !inModule(fn) {
			continue
		}
		for _, b := range fn.Blocks {
			for _, in := range b.Instrs {
				mi, ok := in.(*ssa.MakeInterface)
				if !ok || !isErrorType(mi.Type()) {
					continue
				}
				t := mi.X.Type()
				if p, ok := t.Underlying().(*types.Pointer); ok {
					t = p.Elem()
				}
				st, ok := t.Underlying().(*types.Struct)
				if !ok {
					continue
				}
				if _, name, isNamed := w.namedStruct(t); isNamed && name == "LispError" {
					continue
				}
				n++
				wraps := false
				for i := 0; i < st.NumFields(); i++ {
					if _, name, ok := w.namedStruct(st.Field(i).Type()); ok && name == "LispError" {
						wraps = true
					}
				}
				r.check(!wraps, rule, fn, "struct boxed into an error", mi.Pos(), "holds no LispError", "a value of type "+shortType(t)+", which carries a LispError inside, is handed on as an error: the re-positioning constructor and catch do not recognise it as a lisp error, so the handler is bound to the wrapper (or its text) instead of the thrown value")
			}
		}
	}
	r.add(rule, nil, "struct values boxed into errors in the module", token.NoPos, "ok", fmt.Sprintf("%d examined", n))
}
