package main

import (
	"flag"
	"fmt"
	"os"
	"path/filepath"
	"runtime/debug"
	"sort"
	"strings"
)

type propFn func(w *World, r *Report)

var props = map[string]propFn{}

func register(id string, f propFn) { props[id] = f }

func main() {
	prop := flag.String("prop", "", "property id (C01..C20) or 'all'")
	tier := flag.String("tier", "quick", "quick | thorough")
	repo := flag.String("repo", "/repo", "repository under analysis")
	evdir := flag.String("evidence-dir", "/verif/evidence", "directory for evidence files ('' = none)")
	known := flag.String("known", "/verif/known_findings.json", "known findings file")
	verbose := flag.Bool("v", false, "print every obligation")
	dumpKinds := flag.Bool("dump-kinds", false, "print the result-kind table of the builtins and exit")
	checkAnchors := flag.Bool("check-anchors", false, "compare the by-name and the structural resolution of every anchor and exit")
	flag.Parse()
	if *checkAnchors {
		w, err := loadWorld(*repo, false, "", nil)
		if err != nil {
			fmt.Println(err)
			os.Exit(2)
		}
		var keys []string
		for k := range anchorTable {
			keys = append(keys, k)
		}
		sort.Strings(keys)
		bad := 0
		for _, k := range keys {
			i := strings.Index(k, "|")
			byName, byShape := w.Fn(k[:i], k[i+1:]), w.anchorOf(k[:i], k[i+1:])
			st := "ok"
			if byShape == nil || (byName != nil && byName != byShape) {
				st = "MISMATCH"
				bad++
			}
			fmt.Printf("%-40s name=%v shape=%v %s\n", k, byName, byShape, st)
		}
		if bad > 0 {
			os.Exit(1)
		}
		return
	}
	if os.Getenv("LISPCHECK_DUMP_ACCEPTED") != "" {
		w, err := loadWorld(*repo, false, "", nil)
		if err != nil {
			fmt.Println(err)
			os.Exit(2)
		}
		for _, line := range acceptedKindsTable(w) {
			fmt.Println(line)
		}
		return
	}
	if *dumpKinds {
		w, err := loadWorld(*repo, false, "", nil)
		if err != nil {
			fmt.Println(err)
			os.Exit(2)
		}
		rk := resultKinds(w, newEngine(w))
		var names []string
		for n := range rk {
			names = append(names, n)
		}
		sort.Strings(names)
		for _, n := range names {
			fmt.Printf("\t%q: %q,\n", n, rk[n])
		}
		return
	}
	if t := os.Getenv("VERIF_TIER"); t != "" && *tier == "" {
		*tier = t
	}
	ids := []string{*prop}
	if *prop == "all" {
		ids = nil
		for id := range props {
			ids = append(ids, id)
		}
		sort.Strings(ids)
	}
	for _, id := range ids {
		if props[id] == nil {
			fmt.Fprintf(os.Stderr, "unknown property %q\n", id)
			os.Exit(2)
		}
	}
	type cfgT struct {
		name  string
		tests bool
		tags  string
		env   []string
	}
	cfgs := []cfgT{{"default", false, "", nil}}
	if *tier == "thorough" {
		cfgs = append(cfgs,
			cfgT{"tag-verif", false, "verif", nil},
			cfgT{"386", false, "", []string{"GOARCH=386"}},
			cfgT{"windows", false, "", []string{"GOOS=windows", "GOARCH=amd64"}},
		)
	}
	exit := 0
	for ci, cfg := range cfgs {
		w, err := loadWorld(*repo, cfg.tests, cfg.tags, cfg.env)
		if err != nil {
			for _, id := range ids {
				fmt.Printf("UNDECIDED property=%s configuration=%s: cannot load the repository: %v\n", id, cfg.name, err)
			}
			os.Exit(2)
		}
		for _, id := range ids {
			code := runOne(id, *tier, cfg.name, w, *evdir, *known, ci == 0, *verbose)
			if code == 1 || (code == 2 && exit == 0) {
				exit = code
			}
		}
	}
	os.Exit(exit)
}

func runOne(id, tier, cfgName string, w *World, evdir, known string, writeEvidence, verbose bool) (code int) {
	r := newReport(id, tier, w)
	r.Notes = append(r.Notes, "configuration: "+cfgName)
	defer func() {
		if p := recover(); p != nil {
			fmt.Printf("UNDECIDED property=%s analysis panicked: %v\n%s\n", id, p, debug.Stack())
			code = 2
		}
	}()
	props[id](w, r)
	ev := ""
	if evdir != "" && writeEvidence {
		ev = filepath.Join(evdir, id+".json")
	}
	if cfgName != "default" {
		fmt.Printf("-- configuration %s --\n", cfgName)
	}
	if verbose {
		for _, o := range r.Obl {
			fmt.Printf("    %-10s %s @%s  %s\n", o.Status, o.Key(), o.Pos, o.Detail)
		}
	}
	return r.finish(ev, known)
}
