package main

// Writer/reader table agreement (analysis H): C06, C15, C16.
// The checker holds no copy of any of the compared strings: it extracts the
// tables from two places of the repository and compares them with each other.

import (
	"fmt"
	"go/constant"
	"go/token"
	"go/types"
	"regexp"
	"regexp/syntax"
	"sort"
	"strings"

	"golang.org/x/tools/go/ssa"
)

func init() {
	register("C06", checkC06)
	register("C15", checkC15)
	register("C16", checkC16)
}

func constString(v ssa.Value) (string, bool) {
	if c, ok := v.(*ssa.Const); ok && c.Value != nil && c.Value.Kind() == constant.String {
		return constant.StringVal(c.Value), true
	}
	return "", false
}

func isStringsFn(c *ssa.Call, names ...string) bool {
	callee := c.Call.StaticCallee()
	if callee == nil || callee.Pkg == nil || callee.Pkg.Pkg.Path() != "strings" || callee.Signature.Recv() != nil {
		return false
	}
	for _, n := range names {
		if callee.Name() == n {
			return true
		}
	}
	return false
}

type replPair struct {
	from, to string
	n        int64 // -1 = all
}

// replaceChain: v = Replace(Replace(x, a, b, n), c, d, n) ... -> pairs in application order (innermost first) and the base x
func replaceChain(v ssa.Value) ([]replPair, ssa.Value) {
	c, ok := v.(*ssa.Call)
	if !ok || !isStringsFn(c, "Replace", "ReplaceAll") {
		return nil, v
	}
	inner, base := replaceChain(c.Call.Args[0])
	from, ok1 := constString(c.Call.Args[1])
	to, ok2 := constString(c.Call.Args[2])
	n := int64(-1)
	if c.Call.StaticCallee().Name() == "Replace" {
		if k, ok := c.Call.Args[3].(*ssa.Const); ok && k.Value != nil {
			n = k.Int64()
		}
	}
	if !ok1 || !ok2 {
		return append(inner, replPair{"?", "?", n}), base
	}
	return append(inner, replPair{from, to, n}), base
}

// concatParts flattens a + b + c into its operands.
func concatParts(v ssa.Value) []ssa.Value {
	if bo, ok := v.(*ssa.BinOp); ok && bo.Op == token.ADD {
		if b, ok := bo.Type().Underlying().(*types.Basic); ok && b.Info()&types.IsString != 0 {
			return append(concatParts(bo.X), concatParts(bo.Y)...)
		}
	}
	return []ssa.Value{v}
}

type printerStringBranches struct {
	fn                       *ssa.Function
	quoted, raw, keyword     []ssa.Value // parts of the returned concatenation
	quotedRet, rawRet, kwRet *ssa.Return
	kwAll                    []*ssa.Return // every return of the keyword branch
	strVal                   ssa.Value     // the string being printed (tobj)
	marker                   string
	strFn                    *ssa.Function // the function holding the string branches (Pr_str or a helper handed the string)
	strKey                   string        // access path of the string being printed inside strFn
}

// findPrinterStringBranches locates, in Pr_str, the returns of the string case: keyword, quoted, raw.
func findPrinterStringBranches(w *World, e *Engine) (*printerStringBranches, string) {
	fn := w.Fn("printer", "Pr_str")
	if fn == nil {
		return nil, "printer.Pr_str no longer resolves"
	}
	ps := &printerStringBranches{fn: fn}
	if nk := w.Fn("types", "NewKeyword"); nk != nil {
		for _, rt := range (&evalModel{}).returns(nk) {
			if s, ok := constString(concatParts(rt[1].(ssa.Value))[0]); ok {
				ps.marker = s
			}
		}
	}
	if ps.marker == "" {
		return nil, "the keyword marker constant of types.NewKeyword was not found"
	}
	// the string branches live in Pr_str itself (where its operand is known to be a string) or in an unexported
	// function of the package that is handed the string
	for _, cand := range w.withPkgHelpers(fn) {
		strParam := false
		if cand != fn {
			for _, p := range cand.Params {
				if isStringVal(p) {
					strParam = true
				}
			}
			if !strParam || cand.Signature.Results().Len() != 1 {
				continue
			}
		}
		for _, b := range cand.Blocks {
			if len(b.Instrs) == 0 {
				continue
			}
			ret, ok := b.Instrs[len(b.Instrs)-1].(*ssa.Return)
			if !ok || len(ret.Results) != 1 {
				continue
			}
			// only returns in the region where obj is a string
			isStr := strParam
			if cand == fn {
				for _, f := range e.holding(b).list() {
					if f.Kind == "type" && f.K.Root == ssa.Value(fn.Params[0]) && f.K.Path == "" {
						if bt, ok := f.T.Underlying().(*types.Basic); ok && bt.Kind() == types.String && !types.IsInterface(f.T) {
							isStr = true
						}
					}
				}
			}
			if !isStr {
				continue
			}
			parts := concatParts(ret.Results[0])
			first, _ := constString(parts[0])
			// the keyword branch: under a HasPrefix test of the string for the keyword marker
			isKw := false
			for _, a := range knownConds(b) {
				if c, ok := a.v.(*ssa.Call); ok && a.pol && isStringsFn(c, "HasPrefix") {
					if s, ok := constString(c.Call.Args[1]); ok && s == ps.marker {
						isKw = true
					}
				}
				// the test through a predicate of the module that is the prefix test and nothing else (Keyword_Q)
				if c, ok := a.v.(*ssa.Call); ok && a.pol && c.Call.StaticCallee() != nil && inModule(c.Call.StaticCallee()) && len(c.Call.StaticCallee().Blocks) > 0 {
					if trueOnlyWithPrefix(c.Call.StaticCallee(), ps.marker) {
						isKw = true
					}
				}
			}
			switch {
			case isKw:
				ps.keyword, ps.kwRet = parts, ret
				ps.kwAll = append(ps.kwAll, ret)
				ps.strFn = cand
			case len(parts) == 3 && first == "\"":
				ps.quoted, ps.quotedRet = parts, ret
				ps.strFn = cand
			case len(parts) == 3 && first != "":
				ps.raw, ps.rawRet = parts, ret
				ps.strFn = cand
			}
		}
	}
	if ps.strFn == nil {
		ps.strFn = fn
	}
	ps.strKey = e.keyOf(fn.Params[0]).String() + ".(string)"
	if ps.strFn != fn {
		for _, p := range ps.strFn.Params {
			if isStringVal(p) {
				ps.strKey = e.keyOf(p).String()
			}
		}
	}
	if ps.quoted == nil || ps.raw == nil || ps.keyword == nil {
		return ps, fmt.Sprintf("string branches of the printer not all found (keyword:%v quoted:%v raw:%v)", ps.keyword != nil, ps.quoted != nil, ps.raw != nil)
	}
	return ps, ""
}

func isSliceOfString(v ssa.Value) bool {
	_, ok := v.(*ssa.Slice)
	return ok
}

// readerStringCases: in read_atom, the values returned for String and RawString tokens.
type readerStrings struct {
	fn        *ssa.Function
	quotedRet ssa.Value // value returned for a quoted string token
	rawRet    ssa.Value
	kwRet     ssa.Value
	// string results that are not a delimiter-stripped token passed through the replacement tables
	foreign []ssa.Instruction
}

func findReaderStrings(w *World, e *Engine) (*readerStrings, string) {
	fn := w.Fn("reader", "read_atom")
	if fn == nil {
		return nil, "reader.read_atom no longer resolves"
	}
	rs := &readerStrings{fn: fn}
	// the returns of read_atom, and of the functions of the package it hands a token kind on to
	// (`return read_keyword(text)`): their returns are returns of read_atom
	var rets [][3]interface{}
	seenF := map[*ssa.Function]bool{}
	var collect func(f *ssa.Function, depth int)
	collect = func(f *ssa.Function, depth int) {
		if seenF[f] || depth > 3 {
			return
		}
		seenF[f] = true
		for _, rt := range (&evalModel{}).returns(f) {
			if ex, ok := rt[1].(*ssa.Extract); ok && ex.Index == 0 {
				if c, ok := ex.Tuple.(*ssa.Call); ok {
					if g := c.Call.StaticCallee(); g != nil && g.Pkg == fn.Pkg && len(g.Blocks) > 0 && g != fn {
						collect(g, depth+1)
						continue
					}
				}
			}
			rets = append(rets, rt)
		}
	}
	collect(fn, 0)
	for _, rt := range rets {
		v := rt[1].(ssa.Value)
		ev, _ := rt[2].(ssa.Value)
		if ev != nil && !isNilConst(ev) {
			continue
		}
		mi, ok := v.(*ssa.MakeInterface)
		if !ok {
			continue
		}
		if bt, ok := mi.X.Type().Underlying().(*types.Basic); !ok || bt.Kind() != types.String {
			continue
		}
		// classify by the shape of the slice at the base of the value
		base := mi.X
		var viaReplacer, viaReplace, viaKeyword bool
		for depth := 0; depth < 6; depth++ {
			c, ok := base.(*ssa.Call)
			if !ok {
				break
			}
			callee := c.Call.StaticCallee()
			switch {
			case isStringsFn(c, "Replace", "ReplaceAll"):
				viaReplace = true
				base = c.Call.Args[0]
			case callee != nil && callee.Name() == "Replace" && callee.Signature.Recv() != nil:
				viaReplacer = true
				base = c.Call.Args[1]
			case callee != nil && callee.Name() == "NewKeyword":
				viaKeyword = true
				base = c.Call.Args[0]
			default:
				depth = 99
			}
		}
		sl, ok := base.(*ssa.Slice)
		if !ok {
			if c, isCall := unboxedCall(base); !isCall || c.Call.StaticCallee() == nil || !inModule(c.Call.StaticCallee()) {
				rs.foreign = append(rs.foreign, rt[0].(*ssa.Return))
			}
			continue
		}
		lo := int64(-1)
		if k, ok := sl.Low.(*ssa.Const); ok && k.Value != nil {
			lo = k.Int64()
		}
		switch {
		case viaKeyword:
			rs.kwRet = mi.X
		case viaReplacer || (viaReplace && lo == 1):
			rs.quotedRet = mi.X
		case viaReplace:
			rs.rawRet = mi.X
		case lo == 1:
			rs.quotedRet = mi.X
		default:
			rs.rawRet = mi.X
		}
	}
	if rs.quotedRet == nil || rs.rawRet == nil || rs.kwRet == nil {
		return rs, fmt.Sprintf("string cases of read_atom not all found (quoted:%v raw:%v keyword:%v)", rs.quotedRet != nil, rs.rawRet != nil, rs.kwRet != nil)
	}
	return rs, ""
}

// replacerPairs: pairs of a strings.NewReplacer(...) stored in a package-level variable that v is the result of.
func replacerPairs(w *World, v ssa.Value) ([]replPair, bool) {
	c, ok := v.(*ssa.Call)
	if !ok {
		return nil, false
	}
	callee := c.Call.StaticCallee()
	if callee == nil || callee.Name() != "Replace" || callee.Signature.Recv() == nil {
		return nil, false
	}
	// receiver: load of a global initialised with strings.NewReplacer(...)
	ld, ok := c.Call.Args[0].(*ssa.UnOp)
	if !ok {
		return nil, false
	}
	g, ok := ld.X.(*ssa.Global)
	if !ok {
		return nil, false
	}
	initFn := g.Pkg.Func("init")
	for _, b := range initFn.Blocks {
		for _, in := range b.Instrs {
			st, ok := in.(*ssa.Store)
			if !ok || st.Addr != ssa.Value(g) {
				continue
			}
			nc, ok := st.Val.(*ssa.Call)
			if !ok || !isStringsFn(nc, "NewReplacer") {
				return nil, false
			}
			elems := sliceLiteralElems(nc.Call.Args[0])
			var pairs []replPair
			for i := 0; i+1 < len(elems); i += 2 {
				a, ok1 := constString(elems[i])
				b2, ok2 := constString(elems[i+1])
				if !ok1 || !ok2 {
					return nil, false
				}
				pairs = append(pairs, replPair{a, b2, -1})
			}
			return pairs, true
		}
	}
	return nil, false
}

// unboxedCall: the call v is the result (or a component of the result) of.
func unboxedCall(v ssa.Value) (*ssa.Call, bool) {
	if ex, ok := v.(*ssa.Extract); ok {
		v = ex.Tuple
	}
	c, ok := v.(*ssa.Call)
	return c, ok
}

func pairSet(ps []replPair, invert bool) string {
	var s []string
	for _, p := range ps {
		if invert {
			s = append(s, fmt.Sprintf("%q->%q", p.to, p.from))
		} else {
			s = append(s, fmt.Sprintf("%q->%q", p.from, p.to))
		}
	}
	sort.Strings(s)
	return strings.Join(s, " ")
}

// ---------------------------------------------------------------------------
// C06

func checkC06(w *World, r *Report) {
	e := newEngine(w)
	r.rule("C06.escape", "the escape pairs the printer applies to quoted strings are exactly the inverse of the pairs the reader un-escapes, the pair that escapes the escape character is applied first by the printer, every character the delimiter depends on is escaped, and the reader un-escapes in a single pass (or protects the escaped escape character first and restores it last); raw strings: the printer doubles the raw delimiter everywhere and the reader un-doubles it everywhere, and nothing else is rewritten in raw form")
	r.rule("C06.brackets", "for each collection type the (open, close) pair the printer emits equals the (start, end) pair of the read_list call in the reader function that constructs that type; the keyword marker is one and the same constant in NewKeyword, Keyword_Q, String_Q, the printer and type?, and the printer strips exactly the marker's byte length and prints the character the reader strips")
	r.rule("C06.slice", "the reader strips exactly the delimiter bytes the printer adds around quoted and raw strings")
	tokenVerbatimRule(w, r, "C06.token-text")
	textIntactRule(w, r, "C06.text-intact")
	keywordInjectiveRule(w, r, "C06.keyword")
	printerRules(w, r, "C06.one-escaper")
	intInverseRule(w, r, "C06.int")
	scannerConfigRule(w, r, "C06.token-rules")
	printedTextNotFormatRule(w, r, "C06.text-not-format")
	readStringTotalRule(w, r, "C06.read-string-total")
	scannerOnlyRule(w, r, "C06.scanner-only")
	tokenBlindRule(w, r, "C06.token-blind")
	// what the printer writes as two values is read as two: the value an atom reads as depends on its one token
	leafReaderRule(w, r, "C06.one-token")
	literalTableRule(w, r, e, "C06.literals")
	readerLimitRule(w, r, "C06.no-limit")
	atomSiteRule(w, r, "C06.atom-site")
	keyContentRule(w, r, "C06.key-content")
	collectionReaderErrorsRule(w, r, "C06.collection-errors", w.collectionReaders())
	textVerdictRule(w, r, "C06.text-verdict")
	printEntryRule(w, r, "C06.print-entry")
	// a text means the same whenever and beside whatever else it is read: the reader keeps no state
	noGlobalWritesRule(w, r, "C06.read-stateless", "the reader", append([]*ssa.Function{w.Fn("", "READ"), w.Fn("", "READWithPreamble")}, w.pkgFuncs("reader")...))
	// "yields a value equal to the original": the equality the round trip is judged by
	r.include("C06.equal-", "C14.", "the value read back must be equal to the original under =, so = must be structural equality on data", checkC14, func(rule string) bool {
		switch rule {
		case "C14.presence", "C14.kinds", "C14.gate", "C14.symmetric-shape", "C14.go-equality", "C14.entry":
			return true
		}
		return false
	})
	ps, why := findPrinterStringBranches(w, e)
	if why != "" {
		r.undecided("C06.escape", nil, "printer string branches", token.NoPos, why)
		return
	}
	rs, why := findReaderStrings(w, e)
	if why != "" && rs != nil && len(rs.foreign) > 0 {
		// a string case is missing because its result is computed some other way: that is the finding
		for _, ret := range rs.foreign {
			r.bad("C06.escape", rs.fn, "string result decoded outside the un-escape table", ret.Pos(), "read_atom returns a string that is not the delimiter-stripped token passed once through the replacement table (a loop, a second decoder, a conditional rewrite): strings the printer wrote come back altered ("+why+")")
		}
		return
	}
	if why != "" {
		r.undecided("C06.escape", nil, "reader string cases", token.NoPos, why)
		return
	}
	for _, ret := range rs.foreign {
		r.bad("C06.escape", rs.fn, "string result decoded outside the un-escape table", ret.Pos(), "read_atom returns a string that is not the delimiter-stripped token passed through the replacement table: whatever that decoder accepts beyond the printer's escapes (or decodes differently) yields strings the printer cannot write back readably")
	}
	// quoted form
	P, pbase := replaceChain(ps.quoted[1])
	openQ, _ := constString(ps.quoted[0])
	closeQ, _ := constString(ps.quoted[2])
	strKey := ps.strKey
	r.check(len(P) >= 2 && e.keyOf(pbase).String() == strKey, "C06.escape", ps.fn, "printer escape chain (quoted form)", ps.quotedRet.Pos(), pairSet(P, false), "the quoted form is not the printed string itself passed through a chain of replacements (base: "+describeVal(e, pbase, 0)+")")
	var R []replPair
	singlePass := false
	if pairs, ok := replacerPairs(w, rs.quotedRet); ok {
		R, singlePass = pairs, true
	} else {
		R, _ = replaceChain(rs.quotedRet)
	}
	r.check(len(R) >= 2, "C06.escape", rs.fn, "reader un-escape table (quoted form)", rs.fn.Pos(), pairSet(R, false), "no un-escape table found in the reader")
	if len(P) < 2 || len(R) < 2 {
		return
	}
	if singlePass {
		r.check(pairSet(P, true) == pairSet(R, false), "C06.escape", rs.fn, "reader table is the inverse of the printer's", rs.fn.Pos(), "printer "+pairSet(P, false)+" ; reader "+pairSet(R, false), "printer escapes "+pairSet(P, false)+" but the reader un-escapes "+pairSet(R, false))
	} else {
		// sentinel idiom: first pair parks the escaped escape char, last pair restores it
		okSent := len(R) == len(P)+1 && R[0].to == R[len(R)-1].from
		var mid []replPair
		if okSent {
			mid = append(mid, replPair{R[0].from, R[len(R)-1].to, -1})
			mid = append(mid, R[1:len(R)-1]...)
		}
		r.check(okSent && pairSet(P, true) == pairSet(mid, false), "C06.escape", rs.fn, "reader chain is the inverse of the printer's (sentinel idiom)", rs.fn.Pos(), "inverse with the escaped escape character protected first and restored last", "reader chain "+pairSet(R, false)+" does not invert printer chain "+pairSet(P, false))
		if okSent {
			// sequential global replacements need a sentinel to protect the escaped escape character, and the
			// sentinel itself is then rewritten: a string that contains it does not survive
			r.bad("C06.escape", rs.fn, "un-escaping in several passes with sentinel "+fmt.Sprintf("%q", R[0].to), rs.fn.Pos(), "every occurrence of the sentinel character in a string is turned into the escape character when read back: strings containing it do not round-trip; un-escape in a single left-to-right pass instead")
		}
	}
	// escape char first, all `to` start with it
	esc := P[0].from
	okFirst := len(esc) == 1 && P[0].to == esc+esc
	for _, p := range P[1:] {
		if !strings.HasPrefix(p.to, esc) || p.n != -1 {
			okFirst = false
		}
	}
	r.check(okFirst && P[0].n == -1, "C06.escape", ps.fn, "order of the printer's escape pairs", ps.quotedRet.Pos(), "the escape character is escaped first, every later pair introduces it, all occurrences replaced", "the pair that escapes the escape character is not applied first (later escapes would be escaped again), or a pair is not applied to all occurrences")
	hasDelim := false
	for _, p := range P {
		if p.from == openQ {
			hasDelim = true
		}
	}
	r.check(hasDelim && openQ == closeQ, "C06.escape", ps.fn, "delimiter escaped", ps.quotedRet.Pos(), "the quote character is in the escape table", "the string delimiter is not escaped: a string containing it ends early")
	// raw form
	PR, prbase := replaceChain(ps.raw[1])
	openR, _ := constString(ps.raw[0])
	closeR, _ := constString(ps.raw[2])
	RR, _ := replaceChain(rs.rawRet)
	okRaw := len(PR) == 1 && len(RR) == 1 && e.keyOf(prbase).String() == strKey && PR[0].from == openR && PR[0].to == openR+openR && RR[0].from == PR[0].to && RR[0].to == PR[0].from && PR[0].n == -1 && RR[0].n == -1 && openR == closeR
	r.check(okRaw, "C06.escape", ps.fn, "raw form: delimiter doubling", ps.rawRet.Pos(), "printer doubles, reader un-doubles, all occurrences, nothing else rewritten", fmt.Sprintf("printer raw chain %s (delimiters %q,%q) vs reader raw chain %s", pairSet(PR, false), openR, closeR, pairSet(RR, false)))

	// slices in the reader: strip len(delimiter) at both ends
	checkStrip := func(name string, v ssa.Value, open, close string) {
		base := v
		for depth := 0; depth < 6; depth++ {
			c, ok := base.(*ssa.Call)
			if !ok {
				break
			}
			if isStringsFn(c, "Replace", "ReplaceAll") {
				base = c.Call.Args[0]
			} else if callee := c.Call.StaticCallee(); callee != nil && callee.Name() == "Replace" && callee.Signature.Recv() != nil {
				base = c.Call.Args[1]
			} else {
				break
			}
		}
		sl, ok := base.(*ssa.Slice)
		okS := false
		if ok {
			lo, hiOff := int64(-1), int64(1)
			if k, ok := sl.Low.(*ssa.Const); ok && k.Value != nil {
				lo = k.Int64()
			}
			if sl.High != nil {
				if t, off, ok := e.linOf(sl.High); ok && t.Kind == 1 {
					hiOff = off
				}
			}
			okS = lo == int64(len(open)) && hiOff == -int64(len(close))
		}
		r.check(okS, "C06.slice", rs.fn, name+" token: delimiters stripped", rs.fn.Pos(), fmt.Sprintf("%d byte(s) at the start and %d at the end, the length of the printer's delimiters", len(open), len(close)), "the reader does not strip exactly the delimiter the printer adds")
	}
	checkStrip("quoted string", rs.quotedRet, openQ, closeQ)
	checkStrip("raw string", rs.rawRet, openR, closeR)

	// keyword marker
	markers := map[string]string{}
	if fn := w.Fn("types", "NewKeyword"); fn != nil {
		for _, rt := range (&evalModel{}).returns(fn) {
			parts := concatParts(rt[1].(ssa.Value))
			if s, ok := constString(parts[0]); ok {
				markers["NewKeyword"] = s
			}
		}
	}
	// the marker a function tests for: the constant of its own HasPrefix test, or that of a predicate of the
	// module it asks instead
	var markerOf func(fn *ssa.Function, depth int) (string, bool)
	markerOf = func(fn *ssa.Function, depth int) (string, bool) {
		for _, b := range fn.Blocks {
			for _, in := range b.Instrs {
				if c, ok := in.(*ssa.Call); ok && isStringsFn(c, "HasPrefix") {
					if s, ok := constString(c.Call.Args[1]); ok {
						return s, true
					}
				}
			}
		}
		if depth < 2 {
			for _, b := range fn.Blocks {
				for _, in := range b.Instrs {
					if c, ok := in.(*ssa.Call); ok {
						if g := c.Call.StaticCallee(); g != nil && inModule(g) && len(g.Blocks) > 0 && len(g.Params) == 1 && isBoolResult(g) {
							if s, ok := markerOf(g, depth+1); ok {
								return s, true
							}
						}
					}
				}
			}
		}
		return "", false
	}
	for _, name := range []string{"Keyword_Q", "String_Q"} {
		if fn := w.Fn("types", name); fn != nil {
			if s, ok := markerOf(fn, 2); ok {
				markers[name] = s
			}
		}
	}
	// printer: the HasPrefix test that dominates the keyword return
	for _, f := range e.holding(ps.kwRet.Block()).list() {
		_ = f
	}
	for _, a := range knownConds(ps.kwRet.Block()) {
		if c, ok := a.v.(*ssa.Call); ok && a.pol && isStringsFn(c, "HasPrefix") {
			if s, ok := constString(c.Call.Args[1]); ok {
				markers["printer"] = s
			}
		}
		// ... or the predicate of the module the branch asks instead
		if c, ok := a.v.(*ssa.Call); ok && a.pol && markers["printer"] == "" {
			if g := c.Call.StaticCallee(); g != nil && inModule(g) && len(g.Blocks) > 0 && trueOnlyWithPrefix(g, ps.marker) {
				markers["printer"] = ps.marker
			}
		}
	}
	if fn := w.builtin("type?"); fn != nil {
		if s, ok := markerOf(fn, 0); ok {
			markers["type?"] = s
		}
	}
	vals := map[string]bool{}
	for _, v := range markers {
		vals[v] = true
	}
	r.rule("C06.marker", "what makes a string a keyword is one and the same test everywhere: NewKeyword prefixes the marker constant, and Keyword_Q, String_Q, the type? builtin and the printer's keyword branch each decide by strings.HasPrefix with that constant (a predicate that looks for the marker anywhere in the string, or for another constant, disagrees with the others about strings that merely contain the character)")
	r.check(len(markers) == 5 && len(vals) == 1, "C06.marker", ps.fn, "keyword marker", ps.kwRet.Pos(), fmt.Sprintf("one constant in %d places", len(markers)), fmt.Sprintf("keyword marker constants disagree or were not all found: %v", markers))
	marker := markers["NewKeyword"]
	// printer strips len(marker) and prefixes the char the reader strips
	okKw := false
	kwPrefix, _ := constString(ps.keyword[0])
	if len(ps.keyword) == 2 {
		if sl, ok := ps.keyword[1].(*ssa.Slice); ok && sl.High == nil {
			if k, ok := sl.Low.(*ssa.Const); ok && k.Value != nil && k.Int64() == int64(len(marker)) && marker != "" {
				okKw = true
			}
		}
	}
	r.check(okKw, "C06.brackets", ps.fn, "keyword printed", ps.kwRet.Pos(), "the keyword character followed by the name with exactly the marker stripped", "the printer does not print a keyword as its name with exactly the leading marker stripped (a marker character inside the name would be altered)")
	// every keyword is printed that way: one form, the one the reader turns back into the keyword
	for _, ret := range ps.kwAll {
		parts := concatParts(ret.Results[0])
		okOne := false
		if p0, ok := constString(parts[0]); ok && p0 == kwPrefix && len(parts) == 2 {
			if sl, ok := parts[1].(*ssa.Slice); ok && sl.High == nil {
				if k, ok := sl.Low.(*ssa.Const); ok && k.Value != nil && k.Int64() == int64(len(marker)) {
					okOne = true
				}
			}
		}
		r.check(okOne, "C06.brackets", ps.strFn, "form a keyword is printed in", ret.Pos(), "the keyword character followed by the name", "some keywords are printed in another form (a call form, a quoted string ...): the reader turns that text into a list or a string, not into the keyword - and the scanner's idea of which names are one token is not the printer's to guess")
	}
	// reader strips 1 = len(kwPrefix)
	okRk := false
	if c, ok := rs.kwRet.(*ssa.Call); ok {
		if sl, ok := c.Call.Args[0].(*ssa.Slice); ok {
			if k, ok := sl.Low.(*ssa.Const); ok && k.Value != nil && k.Int64() == int64(len(kwPrefix)) {
				okRk = true
			}
		}
	}
	r.check(okRk, "C06.brackets", rs.fn, "keyword read", rs.fn.Pos(), "strips the keyword character the printer emits", "the reader does not strip exactly the keyword character")

	// brackets
	printerBr := map[string][2]string{}
	prList := w.Fn("printer", "Pr_list")
	for _, b := range ps.fn.Blocks {
		for _, in := range b.Instrs {
			c, ok := in.(*ssa.Call)
			if !ok || c.Call.StaticCallee() != prList {
				continue
			}
			o, ok1 := constString(c.Call.Args[2])
			cl, ok2 := constString(c.Call.Args[3])
			if !ok1 || !ok2 {
				continue
			}
			for _, f := range e.holding(b).list() {
				if f.Kind == "type" && f.K.Root == ssa.Value(ps.fn.Params[0]) && f.K.Path == "" {
					printerBr[shortType(f.T)] = [2]string{o, cl}
				}
			}
		}
	}
	// a list or a vector has one printed form, the bracketed one: every answer of the printer for those kinds is
	// the result of the list printer (or of a function of the package it hands the value to), never a text put
	// together on the spot (an abbreviation such as @x for a list headed by deref reads back as another list)
	nform := 0
	for _, rt := range (&evalModel{}).returns(ps.fn) {
		ret := rt[0].(*ssa.Return)
		kind := ""
		for _, f := range e.holding(ret.Block()).list() {
			if f.Kind == "type" && f.K.Root == ssa.Value(ps.fn.Params[0]) && f.K.Path == "" {
				kind = shortType(f.T)
			}
		}
		if kind != "types.List" && kind != "types.Vector" {
			continue
		}
		nform++
		c, isCall := rt[1].(ssa.Value).(*ssa.Call)
		okForm := isCall && c.Call.StaticCallee() != nil && c.Call.StaticCallee().Pkg == ps.fn.Pkg
		r.check(okForm, "C06.brackets", ps.fn, "printed form of a "+kind, ret.Pos(), "the bracketed form made by the list printer", "the printer answers for some "+kind+" values with a text of its own ("+describeVal(e, rt[1].(ssa.Value), 0)+") instead of the bracketed form: that text reads back as a different value")
	}
	r.floor("C06.brackets", "answers of the printer for lists and vectors", nform, 2)
	// set and map: constant concatenations "#{" ... "}" and "{" ... "}"
	for _, fn := range w.withPkgHelpers(ps.fn) {
		if fn == nil {
			continue
		}
		for _, rt := range (&evalModel{}).returns(fn) {
			ret := rt[0].(*ssa.Return)
			parts := concatParts(rt[1].(ssa.Value))
			var o, cl string
			if bo, bc, ok := builderBrackets(rt[1].(ssa.Value)); ok {
				o, cl = bo, bc
			} else if bo, bc, ok := encloserBrackets(rt[1].(ssa.Value)); ok {
				o, cl = bo, bc
			} else {
				if len(parts) != 3 {
					continue
				}
				var ok1, ok2 bool
				o, ok1 = constString(parts[0])
				cl, ok2 = constString(parts[2])
				if !ok1 || !ok2 {
					continue
				}
				if c, ok := parts[1].(*ssa.Call); !ok || !isStringsFn(c, "Join") {
					continue
				}
			}
			if fn == ps.fn {
				for _, f := range e.holding(ret.Block()).list() {
					if f.Kind == "type" && f.K.Root == ssa.Value(fn.Params[0]) && f.K.Path == "" {
						printerBr[shortType(f.T)] = [2]string{o, cl}
					}
				}
			} else {
				// a helper printing one kind of collection: the kind is the type of its parameter
				for _, p := range fn.Params {
					if _, name, ok := w.namedStruct(p.Type()); ok {
						switch name {
						case "HashMap", "Set", "List", "Vector":
							printerBr[shortType(p.Type())] = [2]string{o, cl}
						}
					}
				}
			}
		}
	}
	readerBr := map[string][2]string{}
	readList := w.Fn("reader", "read_list")
	for _, fn := range w.pkgFuncs("reader") {
		for _, c := range staticCallsTo(fn, readList) {
			o, ok1 := constString(c.Call.Args[1])
			cl, ok2 := constString(c.Call.Args[2])
			if !ok1 || !ok2 {
				continue
			}
			typ := ""
			switch {
			case fn == w.Fn("reader", "read_form"):
				typ = "types.List"
			default:
				// the type constructed: result type of the constructor the list is handed to, or the literal built
				for _, b := range fn.Blocks {
					for _, in := range b.Instrs {
						if c2, ok := in.(*ssa.Call); ok && c2.Call.StaticCallee() != nil {
							switch c2.Call.StaticCallee().Name() {
							case "NewHashMap":
								typ = "types.HashMap"
							case "NewSet":
								typ = "types.Set"
							}
						}
						if mi, ok := in.(*ssa.MakeInterface); ok && typ == "" {
							if _, name, ok := w.namedStruct(mi.X.Type()); ok && name == "Vector" {
								typ = "types.Vector"
							}
						}
					}
				}
			}
			if typ != "" {
				readerBr[typ] = [2]string{o, cl}
			}
		}
	}
	for _, t := range []string{"types.List", "types.Vector", "types.HashMap", "types.Set"} {
		pb, ok1 := printerBr[t]
		rb, ok2 := readerBr[t]
		r.check(ok1 && ok2 && pb == rb, "C06.brackets", ps.fn, "brackets of "+t, token.NoPos, fmt.Sprintf("printer %q…%q = reader %q…%q", pb[0], pb[1], rb[0], rb[1]), fmt.Sprintf("printer emits %q…%q (found:%v) but the reader expects %q…%q (found:%v)", pb[0], pb[1], ok1, rb[0], rb[1], ok2))
	}
	r.Assumptions = append(r.Assumptions, "decides table agreement only (a necessary condition: any disagreement breaks the round trip for strings containing that character); the round trip itself, integer/identifier token alphabets (trusted scanner) and float literals are not decided")
}

func isStringVal(v ssa.Value) bool {
	b, ok := v.Type().Underlying().(*types.Basic)
	return ok && b.Info()&types.IsString != 0
}

// ---------------------------------------------------------------------------
// C16

func checkC16(w *World, r *Report) {
	e := newEngine(w)
	r.rule("C16.table", "the set of 'expected <closer>, got EOF' messages the reader can build (its message template instantiated with the closer of every read_list call site, plus the raw-string delimiter message) equals the set of messages the REPL's multi-line classifier recognises")
	r.rule("C16.type", "the classifier asserts the error to lisperror.LispError and its ErrorValue() to error; the reader builds these errors with NewLispError(errors.New(…)); every reader function returns the error of a nested read unchanged (so the innermost open bracket's message surfaces); REPL and READ return reader errors unchanged")
	r.rule("C16.stray", "for every closer of a list/vector/map/set bracket there is a rejecting case in read_form's dispatch")
	r.rule("C16.leftover", "on the success path of Read_str the comparison of the token cursor with the token count dominates the return of the value")
	r.rule("C16.eof-site", "the EOF error is raised exactly where the token stream ends inside an open bracket (the nil-peek branch of the element loop) with that call's own closer")
	tokenVerbatimRule(w, r, "C16.token-text")
	textIntactRule(w, r, "C16.text-intact")
	atomLastRule(w, r, "C16.atom-last")
	// "a complete expression is never reported as incomplete": load-file reads the file's text inside a wrapper
	// form; the text that closes the wrapper starts on a line of its own, so a comment on the file's last line
	// cannot swallow the closing bracket and turn a complete file into an 'expected ), got EOF'
	r.include("C16.lisp-", "C19.", "the closing text of load-file's wrapper begins with a line break: a file of complete expressions that ends in a comment is not reported as incomplete", checkC19, func(rule string) bool {
		return rule == "C19.wrap"
	})
	valueErrorRule(w, r, "C16.value-error")
	singleFormRule(w, r, "C16.single-form")
	r.rule("C16.join", "the REPL joins the lines of a multi-line entry with a line break (comments end at the end of a line, so any other separator lets a comment swallow the following lines)")
	readList := w.Fn("reader", "read_list")
	readForm := w.Fn("reader", "read_form")
	readAtom := w.Fn("reader", "read_atom")
	readStr := w.Fn("reader", "Read_str")
	multi := w.Fn("repl", "multiLine")
	if readList == nil || readForm == nil || readAtom == nil || readStr == nil || multi == nil {
		r.undecided("C16.table", nil, "anchors", token.NoPos, "read_list / read_form / read_atom / Read_str / repl.multiLine no longer resolve")
		return
	}
	// closers
	closers := map[string]string{} // closer -> caller
	for _, fn := range w.pkgFuncs("reader") {
		for _, c := range staticCallsTo(fn, readList) {
			if cl, ok := constString(c.Call.Args[2]); ok {
				closers[cl] = fn.Name()
			} else {
				r.bad("C16.table", fn, "closer of a read_list call", c.Pos(), "the closer is not a constant: the REPL cannot know the message")
			}
		}
	}
	// read_list and the functions that exist only for it (every caller is read_list or another of them): the
	// element loop may live in such a helper
	listGroup := map[*ssa.Function]bool{readList: true}
	for changed := true; changed; {
		changed = false
		for _, fn := range w.pkgFuncs("reader") {
			if listGroup[fn] || fn.Parent() != nil {
				continue
			}
			sites := newEngine(w).callSites(fn)
			all := len(sites) > 0
			for _, cs := range sites {
				if !listGroup[cs.Parent()] {
					all = false
				}
			}
			if all {
				listGroup[fn] = true
				changed = true
			}
		}
	}
	calledByGroup := func(fn *ssa.Function) bool {
		for g := range listGroup {
			if len(staticCallsTo(g, fn)) > 0 {
				return true
			}
		}
		return false
	}
	// a collection exists only after read_list matched its brackets
	r.rule("C16.matched", "the functions that read a bracketed collection (the callers of read_list in the reader) answer successfully only after their read_list call: read_list is the one place where the token that closes a collection is compared with the closer of the bracket that opened it, so no collection is accepted on a closing token of another kind")
	nm := 0
	for _, fn := range w.pkgFuncs("reader") {
		calls := staticCallsTo(fn, readList)
		if len(calls) == 0 || listGroup[fn] || calledByGroup(fn) {
			continue // the dispatcher read_list itself calls for each element reads atoms and reader macros too
		}
		for _, rt := range (&evalModel{}).returns(fn) {
			ret := rt[0].(*ssa.Return)
			v, _ := rt[1].(ssa.Value)
			ev, _ := rt[2].(ssa.Value)
			// a success: a value, or nil handed back with no error (a form skipped and read as nil is an answer too)
			if v == nil || (isNilConst(v) && !(ev != nil && isNilConst(ev))) {
				continue
			}
			nm++
			after := false
			for _, c := range calls {
				if c.Block() == ret.Block() || c.Block().Dominates(ret.Block()) {
					after = true
				}
			}
			r.check(after, "C16.matched", fn, "successful answer of a collection reader", ret.Pos(), "given after read_list matched the brackets", "a collection is returned on a path that never went through read_list: its closing token was not compared with the closer of its opener (an unmatched closer of another kind is silently accepted, and the enclosing form loses its own closer)")
		}
	}
	r.floor("C16.matched", "successful answers of collection readers", nm, 3)
	// template: errors.New(a + end + b) in read_list where end is parameter 2
	var tmplParts []ssa.Value
	var tmplCall *ssa.Call
	var tmplMaker *ssa.Function // the function of the package that holds the template, when it is not written at the site
	// the closer: read_list's parameter, or the parameter of a helper of read_list that is handed it
	closerVals := map[ssa.Value]bool{readList.Params[2]: true}
	for changed := true; changed; {
		changed = false
		for g := range listGroup {
			for _, b := range g.Blocks {
				for _, in := range b.Instrs {
					c, ok := in.(*ssa.Call)
					if !ok || !listGroup[c.Call.StaticCallee()] {
						continue
					}
					for i, a := range c.Call.Args {
						if closerVals[a] && i < len(c.Call.StaticCallee().Params) && !closerVals[c.Call.StaticCallee().Params[i]] {
							closerVals[c.Call.StaticCallee().Params[i]] = true
							changed = true
						}
					}
				}
			}
		}
	}
	for g := range listGroup {
		for _, b := range g.Blocks {
			for _, in := range b.Instrs {
				c, ok := in.(*ssa.Call)
				if !ok || c.Call.StaticCallee() == nil {
					continue
				}
				// ... or that makes it from a template of its own with the closer it is handed in one slot
				if mparts, pi, ok := errTemplateMaker(c.Call.StaticCallee()); ok && pi < len(c.Call.Args) && closerVals[c.Call.Args[pi]] {
					if tmplCall == nil || strings.Contains(strings.Join(constParts(mparts), ""), "EOF") {
						closerVals[c.Call.StaticCallee().Params[pi]] = true
						tmplParts, tmplCall, tmplMaker = mparts, c, c.Call.StaticCallee()
					}
					continue
				}
				// errors.New, or a function of the module that makes an error of the text it is handed
				if callee := c.Call.StaticCallee(); !(callee.Name() == "New" && fnPkgPath(callee) == "errors") {
					if _, _, ok := errTextMaker(callee); !ok {
						continue
					}
				}
				if a, ok := msgArg(c); ok {
					parts := concatParts(a)
					for _, p := range parts {
						if closerVals[p] && (tmplCall == nil || strings.Contains(strings.Join(constParts(parts), ""), "EOF")) {
							tmplParts, tmplCall = parts, c
						}
					}
				}
			}
		}
	}
	if tmplCall == nil {
		r.bad("C16.table", readList, "EOF message template", readList.Pos(), "no error message built from the closer parameter")
		return
	}
	inst := func(cl string) string {
		s := ""
		for _, p := range tmplParts {
			if closerVals[p] {
				s += cl
			} else if k, ok := constString(p); ok {
				s += k
			} else {
				s += "?"
			}
		}
		return s
	}
	readerMsgs := map[string]bool{}
	for cl := range closers {
		readerMsgs[inst(cl)] = true
	}
	// raw string EOF message: constant errors.New in read_atom that is an instance of the template shape
	prefix, _ := constString(tmplParts[0])
	suffix, _ := constString(tmplParts[len(tmplParts)-1])
	for _, b := range readAtom.Blocks {
		for _, in := range b.Instrs {
			if c, ok := in.(*ssa.Call); ok && c.Call.StaticCallee() != nil {
				if tmplMaker != nil && c.Call.StaticCallee() == tmplMaker {
					if _, pi, ok := errTemplateMaker(tmplMaker); ok && pi < len(c.Call.Args) {
						if cl, isConst := constString(c.Call.Args[pi]); isConst {
							readerMsgs[inst(cl)] = true
						}
					}
					continue
				}
				a, isMsg := msgArg(c)
				if !isMsg || c.Call.StaticCallee().Name() == "Errorf" || c.Call.StaticCallee().Name() == "Sprintf" {
					continue
				}
				if s, ok := constString(a); ok && strings.HasPrefix(s, prefix) && strings.HasSuffix(s, suffix) {
					readerMsgs[s] = true
				}
			}
		}
	}
	wholeFileRule(w, r, "C16.whole-file")
	// where a token ends decides whether a delimiter is seen at all: the scanner's own rules are left alone
	scannerConfigRule(w, r, "C16.token-rules")
	// the REPL recognises an unfinished input by the exact text of the reader's error: between the reader and the
	// classifier every function hands that error on as the value it received (nothing quoted into it, nothing
	// appended)
	r.rule("C16.error-intact", "an error found by a failed check is returned as that very error by every function of the runtime packages - READ, REPL and their wrappers included: the 'expected closer, got EOF' error reaches the REPL's classifier with the text the reader gave it (shared with C03.propagate)")
	if mm := newEvalModel(w, e); mm.ok {
		before, beforeF := len(r.Obl), len(r.Floors)
		rulePropagate(mm, r)
		for i := before; i < len(r.Obl); i++ {
			if r.Obl[i].Rule == "C03.propagate" {
				r.Obl[i].Rule = "C16.error-intact"
			}
		}
		for i := beforeF; i < len(r.Floors); i++ {
			if r.Floors[i].Rule == "C03.propagate" {
				r.Floors[i].Rule = "C16.error-intact"
			}
		}
	} else {
		r.undecided("C16.error-intact", nil, "evaluator model", token.NoPos, mm.why)
	}
	replAccumulateRule(w, r, multi, "C16.repl-reset")
	leafReaderRule(w, r, "C16.one-token")
	peekNextRule(w, r, "C16.peek-next")
	inputFilterRule(w, r, "C16.input-filter")
	// what a text is classified as depends on the text alone: the reader keeps nothing between (or across) reads
	r.rule("C16.read-stateless", "reading assigns no package-level variable (no buffer, cache or counter carried from one read to the next or shared by two reads in progress): whether a text is complete, incomplete or malformed is decided from that text alone (shared with C17.read-stateless)")
	// (the read-string builtin, through which load-file reads, is an entry point of the reader too: a text that was
	// rejected once is rejected again)
	noGlobalWritesRule(w, r, "C16.read-stateless", "the reader", append(append([]*ssa.Function{w.Fn("", "READ"), w.Fn("", "READWithPreamble")}, w.pkgFuncs("reader")...), w.withPkgHelpersOf(w.builtin("read-string"))...))
	// who may say "incomplete": the message shape the REPL takes for "keep reading" is built only where the
	// token stream really ends inside an open bracket (the template in read_list) and for the raw-string
	// delimiter (read_atom); any other place that builds such a message classifies input by another criterion
	r.rule("C16.eof-sites", "error messages of the shape the REPL's classifier recognises as 'incomplete' are built only by read_list's template and read_atom's raw-string case: no other function of the module (reader, READ and its wrappers, REPL) decides that a text is incomplete")
	nEof := 0
	for _, fn := range w.Funcs {
		if !inModule(fn) || isTestFunc(w, fn) {
			continue
		}
		for _, b := range fn.Blocks {
			for _, in := range b.Instrs {
				c, ok := in.(*ssa.Call)
				if !ok || c.Call.StaticCallee() == nil || len(c.Call.Args) == 0 {
					continue
				}
				text, isMsg := msgArg(c)
				if !isMsg {
					continue
				}
				parts := concatParts(text)
				first, _ := constString(parts[0])
				last, _ := constString(parts[len(parts)-1])
				whole, isConst := constString(text)
				shaped := (len(parts) > 1 && first != "" && strings.HasPrefix(first, prefix) && strings.HasSuffix(last, suffix) && suffix != "") ||
					(isConst && strings.HasPrefix(whole, prefix) && strings.HasSuffix(whole, suffix) && suffix != "")
				if !shaped {
					continue
				}
				nEof++
				okSite := c == tmplCall || fn == readAtom || (tmplMaker != nil && fn == tmplMaker)
				r.check(okSite, "C16.eof-sites", fn, "construction of an 'incomplete input' message", c.Pos(), "read_list's template or read_atom's raw-string case", "an 'expected …, got EOF' message is built outside the place where the token stream ends inside an open bracket: texts are declared incomplete (or given the wrong closer) by a different criterion than the parser's")
			}
		}
	}
	minEof := 2
	if tmplMaker != nil {
		minEof = 1 // one function of the package holds the one template
	}
	r.floor("C16.eof-sites", "constructions of 'incomplete input' messages", nEof, minEof)
	replMsgs := map[string]bool{}
	for _, b := range multi.Blocks {
		if iff := blockIf(b); iff != nil {
			if _, s, ok := strEq(iff.Cond); ok {
				// the case must lead to `return true`
				replMsgs[s] = true
			}
		}
	}
	r.check(strings.Join(keysOf(readerMsgs), "|") == strings.Join(keysOf(replMsgs), "|"), "C16.table", multi, "EOF messages: reader vs REPL classifier", multi.Pos(), fmt.Sprintf("%d messages agree: %v", len(readerMsgs), keysOf(readerMsgs)), fmt.Sprintf("reader can produce %v but the REPL recognises %v", keysOf(readerMsgs), keysOf(replMsgs)))
	r.floor("C16.table", "closers of read_list call sites", len(closers), 4)
	// classifier cases return true
	okTrue := true
	for _, b := range multi.Blocks {
		if iff := blockIf(b); iff != nil {
			if _, _, ok := strEq(iff.Cond); ok {
				t := b.Succs[0]
				ret, isRet := t.Instrs[len(t.Instrs)-1].(*ssa.Return)
				if !isRet {
					okTrue = false
					continue
				}
				if k, ok := ret.Results[0].(*ssa.Const); !ok || k.Value == nil || !constant.BoolVal(k.Value) {
					okTrue = false
				}
			}
		}
	}
	r.check(okTrue, "C16.table", multi, "recognised messages continue the line", multi.Pos(), "every case returns true", "a recognised message does not make the REPL continue reading")
	// type
	okAssert := false
	for _, b := range multi.Blocks {
		for _, in := range b.Instrs {
			if ta, ok := in.(*ssa.TypeAssert); ok && ta.CommaOk && ta.X == ssa.Value(multi.Params[0]) {
				if _, name, ok := w.namedStruct(ta.AssertedType); ok && name == "LispError" {
					okAssert = true
				}
			}
		}
	}
	r.check(okAssert, "C16.type", multi, "error type tested by the classifier", multi.Pos(), "lisperror.LispError", "the classifier does not test for lisperror.LispError")
	// reader builds the EOF error as NewLispError(errors.New(..), token)
	okBuild := false
	if _, viaLisp, ok := errTextMaker(tmplCall.Call.StaticCallee()); ok && viaLisp {
		okBuild = true
	}
	for _, ref := range *tmplCall.Referrers() {
		if ci, ok := ref.(*ssa.ChangeInterface); ok {
			for _, r2 := range *ci.Referrers() {
				if c, ok := r2.(*ssa.Call); ok && c.Call.StaticCallee() != nil && c.Call.StaticCallee().Name() == "NewLispError" {
					okBuild = true
				}
			}
		}
	}
	r.check(okBuild, "C16.type", readList, "EOF error construction", tmplCall.Pos(), "NewLispError(errors.New(message), token)", "the EOF error is not a LispError wrapping an error with the message")
	// propagation in the reader: error of a nested read returned unchanged
	np := 0
	for _, fn := range w.pkgFuncs("reader") {
		for _, b := range fn.Blocks {
			for _, in := range b.Instrs {
				c, ok := in.(*ssa.Call)
				if !ok {
					continue
				}
				callee := c.Call.StaticCallee()
				if callee == nil || fnPkgPath(callee) != modPath+"/reader" || hasErrorResult(callee) < 0 || !isReaderFn(callee) {
					continue
				}
				errEx := extractOf(c, hasErrorResult(callee))
				if errEx == nil {
					continue // `return read_x(...)` tail call
				}
				// the block taken when err != nil must return errEx
				for _, d := range fn.Blocks {
					iff := blockIf(d)
					if iff == nil {
						continue
					}
					bo, ok := iff.Cond.(*ssa.BinOp)
					if !ok || bo.X != ssa.Value(errEx) || !isNilConst(bo.Y) || bo.Op != token.NEQ {
						continue
					}
					np++
					t := d.Succs[0]
					ret, isRet := t.Instrs[len(t.Instrs)-1].(*ssa.Return)
					okSame := isRet && len(ret.Results) >= 2 && ret.Results[len(ret.Results)-1] == ssa.Value(errEx)
					r.check(okSame, "C16.type", fn, "error of nested "+callee.Name(), c.Pos(), "returned unchanged", "the error of the nested read is replaced: the innermost open bracket's message does not surface")
				}
			}
		}
	}
	r.floor("C16.type", "nested reads whose error is propagated", np, 8)
	// READ / REPL return reader errors unchanged
	for _, name := range []string{"READ", "REPL", "READWithPreamble"} {
		fn := w.Fn("", name)
		if fn == nil {
			continue
		}
		for _, rt := range (&evalModel{}).returns(fn) {
			ev, _ := rt[2].(ssa.Value)
			if ev == nil || isNilConst(ev) {
				continue
			}
			if mi, ok := ev.(*ssa.MakeInterface); ok {
				// a new error built here (invalid preamble) is fine; re-wrapping a reader error is not
				if c, ok := mi.X.(*ssa.Call); ok && c.Call.StaticCallee() != nil && c.Call.StaticCallee().Name() == "NewLispError" {
					if _, isExtract := stripIface(c.Call.Args[0]).(*ssa.Extract); isExtract {
						r.bad("C16.type", fn, "reader error re-wrapped", rt[0].(*ssa.Return).Pos(), "the REPL classifier would no longer see the reader's message")
					}
				}
			}
		}
	}
	// stray closers
	rejecting := map[string]bool{}
	for _, b := range readForm.Blocks {
		if iff := blockIf(b); iff != nil {
			if _, s, ok := strEq(iff.Cond); ok {
				t := b.Succs[0]
				if ret, isRet := t.Instrs[len(t.Instrs)-1].(*ssa.Return); isRet && len(ret.Results) == 2 && !isNilConst(ret.Results[1]) && isNilConst(ret.Results[0]) {
					// no read_* call in the case
					calls := false
					for _, in := range t.Instrs {
						if c, ok := in.(*ssa.Call); ok && isReaderFn(c.Call.StaticCallee()) {
							calls = true
						}
					}
					if !calls {
						rejecting[s] = true
					}
				}
			}
		}
	}
	ns := 0
	for cl, caller := range closers {
		if _ = caller; cl != ")" && cl != "]" && cl != "}" {
			r.add("C16.stray", readForm, "closer "+cl, token.NoPos, "info", "Go-constructor bracket: outside the property's quantifier (list, vector, map, set)")
			continue
		}
		ns++
		r.check(rejecting[cl], "C16.stray", readForm, "stray closer "+cl, readForm.Pos(), "rejected by a dedicated case", "a stray '"+cl+"' is read as a symbol instead of being rejected")
	}
	r.floor("C16.stray", "data bracket closers", ns, 3)
	// leftover
	okLeft := false
	for _, b := range readStr.Blocks {
		iff := blockIf(b)
		if iff == nil {
			continue
		}
		bo, ok := iff.Cond.(*ssa.BinOp)
		if !ok || (bo.Op != token.NEQ && bo.Op != token.EQL) {
			continue
		}
		dx, dy := describeVal(e, bo.X, 0), describeVal(e, bo.Y, 0)
		if !(strings.Contains(dx+dy, w.roles().readerPosition) && strings.Contains(dx+dy, "len(")) {
			continue
		}
		succIdx := 1
		if bo.Op == token.EQL {
			succIdx = 0
		}
		for _, rt := range (&evalModel{}).returns(readStr) {
			ret := rt[0].(*ssa.Return)
			ev, _ := rt[2].(ssa.Value)
			if (ev == nil || isNilConst(ev)) && !isNilConst(rt[1].(ssa.Value)) {
				if edgeDominates(b, succIdx, ret.Block()) {
					okLeft = true
				} else {
					okLeft = false
				}
			}
		}
	}
	r.check(okLeft, "C16.leftover", readStr, "left-over tokens", readStr.Pos(), "the value is returned only when the cursor reached the token count", "Read_str can return a value although tokens are left over (input silently truncated)")
	// eof site
	okSite := false
	for _, f := range e.holding(tmplCall.Block()).list() {
		if f.Kind == "nil" {
			if phi, ok := f.K.Root.(*ssa.Phi); ok && f.K.Path == "" {
				for _, op := range phi.Edges {
					if c, ok := op.(*ssa.Call); ok && w.isTokenPeek(c.Call.StaticCallee()) {
						okSite = true
					}
				}
			}
			if c, ok := f.K.Root.(*ssa.Call); ok && f.K.Path == "" && w.isTokenPeek(c.Call.StaticCallee()) {
				okSite = true
			}
		}
	}
	inLoop := false
	for _, l := range naturalLoops(tmplCall.Parent()) { // read_list, or the helper of it that holds the element loop
		if l.header.Dominates(tmplCall.Block()) {
			inLoop = true
		}
	}
	r.check(okSite && inLoop, "C16.eof-site", readList, "EOF error site", tmplCall.Pos(), "raised in the element loop when peek returns no token", "the EOF error is not raised at the nil-peek branch of the element loop")
	// ... and nothing else is said where the tokens may have run out: an error made up inside the element loop
	// (not the error of a nested read handed on) other than the EOF error stands where a token is known to follow
	r.rule("C16.eof-only", "inside the element loop of read_list every error the loop makes up itself, other than the EOF error, is returned where a peek has just shown that a token follows (the non-nil branch of a test of peek's result, with no read in between): where the tokens may have run out inside an open bracket the only verdict is 'expected closer, got EOF'")
	{
		loopFn := tmplCall.Parent()
		nOwn := 0
		for _, l := range naturalLoops(loopFn) {
			if !l.header.Dominates(tmplCall.Block()) {
				continue
			}
			lb := loopBlocks(l)
			for _, rb := range loopFn.Blocks {
				if lb[rb] || rb.Idom() == nil || !lb[rb.Idom()] || rb == tmplCall.Block() || len(rb.Instrs) == 0 {
					continue
				}
				ret, ok := rb.Instrs[len(rb.Instrs)-1].(*ssa.Return)
				if !ok || len(ret.Results) != 2 || isNilConst(ret.Results[1]) {
					continue
				}
				made := false
				switch x := ret.Results[1].(type) {
				case *ssa.MakeInterface:
					made = true
				case *ssa.Call:
					sc := x.Call.StaticCallee()
					made = sc != nil && !isReaderFn(sc) && x.Block() == rb
				}
				if !made {
					continue
				}
				nOwn++
				follows := false
				for _, tb := range loopFn.Blocks {
					iff := blockIf(tb)
					if iff == nil || !lb[tb] {
						continue
					}
					bo, ok := iff.Cond.(*ssa.BinOp)
					if !ok || (bo.Op != token.EQL && bo.Op != token.NEQ) || !isNilConst(bo.Y) {
						continue
					}
					// the result of a peek, or the loop variable that holds the peek of every lap
					var pblock *ssa.BasicBlock
					ppos := token.NoPos
					switch x := bo.X.(type) {
					case *ssa.Call:
						if w.isTokenPeek(x.Call.StaticCallee()) {
							pblock, ppos = x.Block(), x.Pos()
						}
					case *ssa.Phi:
						all := len(x.Edges) > 0
						for _, ed := range x.Edges {
							c, isCall := ed.(*ssa.Call)
							all = all && isCall && w.isTokenPeek(c.Call.StaticCallee())
						}
						if all {
							pblock = x.Block()
						}
					}
					if pblock == nil {
						continue
					}
					idx := 0
					if bo.Op == token.EQL {
						idx = 1
					}
					if !edgeDominates(tb, idx, rb) {
						continue
					}
					// nothing is read between the peek and the verdict
					clean := true
					for d := rb; d != nil && clean; d = d.Idom() {
						for _, in := range d.Instrs {
							if c, ok := in.(*ssa.Call); ok {
								if d == pblock && ppos.IsValid() && c.Pos() <= ppos {
									continue
								}
								if sc := c.Call.StaticCallee(); sc != nil && (isReaderFn(sc) || w.isTokenNext(sc)) {
									clean = false
								}
							}
						}
						if d == pblock {
							break
						}
					}
					if clean {
						follows = true
					}
				}
				r.check(follows, "C16.eof-only", loopFn, "error made up in the element loop", ret.Pos(), "returned where a token is known to follow", "inside the element loop an error other than 'expected closer, got EOF' is returned where the tokens may have run out (no test of peek's result since the last read shows that a token follows): a text cut at that place is called malformed where it is incomplete, and the REPL discards an entry it has to read on for")
			}
		}
		r.add("C16.eof-only", loopFn, "errors made up in the element loop besides the EOF error", token.NoPos, "ok", fmt.Sprintf("%d examined", nOwn))
	}
	replJoinRule(w, r, "C16.join")
	r.Assumptions = append(r.Assumptions, "brackets inside strings and comments are handled by the trusted scanner (single tokens / skipped); 'a complete expression is never reported as incomplete' is decided only through the EOF site rule")
}

// ---------------------------------------------------------------------------
// C15

func checkC15(w *World, r *Report) {
	e := newEngine(w)
	r.rule("C15.data", "read_placeholder returns the table entry itself: it calls no tokenizer/reader/printer function on the value")
	r.rule("C15.token", "read_placeholder is called from exactly one place, read_form's default branch, guarded by the first byte of a token being '$' (strings and comments are single tokens / skipped by the scanner)")
	atomLastRule(w, r, "C15.atom-last")
	r.rule("C15.format", "the preamble writer emits '<prefix><name> <PRINT(value)>\\n' per entry and always a blank line before the source; the reader's prefix constant equals the writer's prefix plus the '$' every name starts with, the key offset it strips equals the writer's prefix length, and the reader's pattern, evaluated on lines of the writer's shape, yields the name and the whole value")
	r.rule("C15.line-safe", "every string-producing branch of the printer in readable mode keeps the value on one line: it maps LF to a non-LF sequence or is taken only for strings without LF")
	r.rule("C15.stop", "the preamble loop stops at the first empty line (passing on the remaining text) or at the first line without the prefix (passing on that line and the remaining text)")
	rp := w.Fn("reader", "read_placeholder")
	rf := w.Fn("reader", "read_form")
	add := w.Fn("", "AddPreamble")
	rwp := w.Fn("", "READWithPreamble")
	if rp == nil || rf == nil || add == nil || rwp == nil {
		r.undecided("C15.data", nil, "anchors", token.NoPos, "read_placeholder / read_form / AddPreamble / READWithPreamble no longer resolve")
		return
	}
	// data
	okData := true
	for _, b := range rp.Blocks {
		for _, in := range b.Instrs {
			if c, ok := in.(*ssa.Call); ok {
				callee := c.Call.StaticCallee()
				if callee == nil {
					continue
				}
				p := fnPkgPath(callee)
				if p == modPath+"/reader" && e.alwaysErr(callee, 0) {
					continue // makes an error: hands back no value
				}
				if (p == modPath+"/reader" && !w.isTokenNext(callee) && !w.isTokenPeek(callee)) || p == modPath+"/printer" {
					okData = false
					r.bad("C15.data", rp, "call "+callee.Name(), c.Pos(), "the placeholder value is re-read or printed instead of being inserted as data")
				}
			}
		}
	}
	okRet := false
	for _, rt := range (&evalModel{}).returns(rp) {
		if lk, ok := rt[1].(ssa.Value).(*ssa.Lookup); ok {
			// the table is the function's own *HashMap parameter, the key the token's text
			fieldLoad := func(v ssa.Value) (*ssa.FieldAddr, bool) {
				ld, ok := v.(*ssa.UnOp)
				if !ok || ld.Op != token.MUL {
					return nil, false
				}
				fa, ok := ld.X.(*ssa.FieldAddr)
				return fa, ok
			}
			tbl, ok1 := fieldLoad(lk.X)
			key, ok2 := fieldLoad(lk.Index)
			if ok1 && ok2 {
				_, isParamTable := tbl.X.(*ssa.Parameter)
				if isParamTable && fieldName(tbl.X.Type(), tbl.Field) == "Val" && fieldName(key.X.Type(), key.Field) == "Value" && isTokenStruct(key.X.Type()) {
					okRet = true
				}
			}
		}
	}
	r.check(okData && okRet, "C15.data", rp, "value returned for a placeholder", rp.Pos(), "the table entry under the token's text", "read_placeholder does not return the table entry for the token")
	// ... and nothing else: a placeholder without a value reads as nil, whatever else is around
	for _, rt := range (&evalModel{}).returns(rp) {
		ret := rt[0].(*ssa.Return)
		ev, _ := rt[2].(ssa.Value)
		if ev != nil && !isNilConst(ev) {
			continue
		}
		for _, lf := range e.producers(rt[1].(ssa.Value), map[ssa.Value]bool{}, 0) {
			if isNilConst(lf) {
				continue
			}
			_, isLookup := lf.(*ssa.Lookup)
			r.check(isLookup, "C15.data", rp, "source of the value a placeholder reads as", ret.Pos(), "the value table (nil when absent)", "a placeholder can read as something that is not its entry in the value table ("+describeVal(e, lf, 0)+"): what the text means then depends on more than the text and the assignment - a placeholder without a value no longer reads as nil")
		}
	}
	// token
	sites := 0
	for _, fn := range w.Funcs {
		if isTestFunc(w, fn) {
			continue
		}
		for _, c := range staticCallsTo(fn, rp) {
			sites++
			okGuard := false
			if fn == rf {
				for _, f := range e.holding(c.Block()).list() {
					_ = f
				}
				// dominated by `tok.Value[0] == '$'`
				for _, d := range rf.Blocks {
					if iff := blockIf(d); iff != nil {
						// ... or by strings.HasPrefix(tok.Value, "$")
						if hp, ok := iff.Cond.(*ssa.Call); ok && hp.Call.StaticCallee() != nil && hp.Call.StaticCallee().String() == "strings.HasPrefix" && edgeDominates(d, 0, c.Block()) {
							if k, ok := hp.Call.Args[1].(*ssa.Const); ok && k.Value != nil && k.Value.Kind() == constant.String && constant.StringVal(k.Value) == "$" {
								if ld, ok := hp.Call.Args[0].(*ssa.UnOp); ok && ld.Op == token.MUL {
									if fa, ok := ld.X.(*ssa.FieldAddr); ok && isTokenStruct(fa.X.Type()) && fieldName(fa.X.Type(), fa.Field) == "Value" {
										okGuard = true
									}
								}
							}
						}
						if bo, ok := iff.Cond.(*ssa.BinOp); ok && bo.Op == token.EQL {
							if k, ok := bo.Y.(*ssa.Const); ok && k.Value != nil && k.Value.Kind() == constant.Int && k.Int64() == '$' && edgeDominates(d, 0, c.Block()) {
								if strings.Contains(describeVal(e, bo.X, 0), "Value[0]") {
									okGuard = true
								}
							}
						}
					}
				}
			}
			r.check(okGuard, "C15.token", fn, "call of read_placeholder", c.Pos(), "in read_form, guarded by the token's first byte being '$'", "placeholders are substituted somewhere other than at '$' tokens")
		}
	}
	r.check(sites == 1, "C15.token", rf, "call sites of read_placeholder", rf.Pos(), "exactly one", fmt.Sprintf("%d call sites", sites))
	// format: writer
	var lineParts []string
	var lineVals []ssa.Value
	var lineTop *ssa.BinOp
	// (the line may be put together by a function of the package that AddPreamble calls)
	for _, wf := range w.withPkgHelpers(add) {
		if wf != add && (wf.Object() == nil || wf.Object().Exported() || wf.Name() == "PRINT") {
			continue
		}
		for _, b := range wf.Blocks {
			for _, in := range b.Instrs {
				bo, ok := in.(*ssa.BinOp)
				if !ok || bo.Op != token.ADD {
					continue
				}
				parts := concatParts(bo)
				if len(parts) >= 5 && len(parts) > len(lineVals) {
					lineVals, lineTop = parts, bo
				}
			}
		}
	}
	for _, p := range lineVals {
		if s, ok := constString(p); ok {
			lineParts = append(lineParts, s)
		} else if c, ok := p.(*ssa.Call); ok && c.Call.StaticCallee() != nil {
			lineParts = append(lineParts, "<"+c.Call.StaticCallee().Name()+">")
		} else if _, ok := p.(*ssa.Phi); ok {
			lineParts = append(lineParts, "<acc>")
		} else {
			lineParts = append(lineParts, "<"+describeVal(e, p, 0)+">")
		}
	}
	// expected shape: <acc> prefix <key> sep <PRINT> "\n"; the accumulator is absent when each line is appended
	// to a strings.Builder instead of being concatenated to the text so far
	if len(lineParts) == 5 && lineParts[0] != "<acc>" {
		toBuilder := false
		var intoBuilder func(v ssa.Value, depth int) bool
		intoBuilder = func(v ssa.Value, depth int) bool {
			if v == nil || v.Referrers() == nil || depth > 2 {
				return false
			}
			for _, ref := range *v.Referrers() {
				switch u := ref.(type) {
				case *ssa.Call:
					if sc := u.Call.StaticCallee(); sc != nil && sc.Name() == "WriteString" && fnPkgPath(sc) == "strings" {
						return true
					}
				case *ssa.Return:
					// the line is the result of a helper: what the callers do with it
					for _, cs := range newEngine(w).callSites(u.Parent()) {
						if cv, ok := cs.(*ssa.Call); ok && intoBuilder(cv, depth+1) {
							return true
						}
					}
				}
			}
			return false
		}
		if lineTop != nil {
			toBuilder = intoBuilder(lineTop, 0)
		}
		if toBuilder {
			lineParts = append([]string{"<acc>"}, lineParts...)
		}
	}
	okShape := len(lineParts) == 6 && lineParts[0] == "<acc>" && lineParts[4] == "<PRINT>" && lineParts[5] == "\n" && !strings.HasPrefix(lineParts[1], "<") && !strings.HasPrefix(lineParts[3], "<")
	r.check(okShape, "C15.format", add, "shape of a preamble line", add.Pos(), strings.Join(lineParts, " + "), "preamble lines are not written as prefix + name + separator + PRINT(value) + line break: "+strings.Join(lineParts, " + "))
	// every entry of the value table gets its line: no way round the loop over the table skips the write
	// (which placeholders a text uses is the reader's business - a home-made scan of the text disagrees with the
	// tokenizer about where a name ends, and the value silently stays behind)
	r.rule("C15.every-entry", "in AddPreamble every iteration of the loop over the value table writes that entry's line: no path from the loop header back to it avoids the write (no entry is left out by a test of the source text or of the value)")
	{
		writes := map[*ssa.BasicBlock]bool{}
		helperSet := map[*ssa.Function]bool{}
		for _, wf := range w.withPkgHelpers(add) {
			if wf != add && wf.Object() != nil && !wf.Object().Exported() {
				helperSet[wf] = true
			}
		}
		for _, b := range add.Blocks {
			for _, in := range b.Instrs {
				switch x := in.(type) {
				case *ssa.BinOp:
					if lineTop != nil && x == lineTop {
						writes[b] = true
					}
				case *ssa.Call:
					if sc := x.Call.StaticCallee(); sc != nil {
						if sc.Name() == "WriteString" && fnPkgPath(sc) == "strings" {
							writes[b] = true
						}
						if helperSet[sc] && lineTop != nil && (sc == lineTop.Parent() || callsFn(sc, lineTop.Parent())) {
							writes[b] = true
						}
					}
				}
			}
		}
		nloops := 0
		for _, l := range naturalLoops(add) {
			blocks := loopBlocks(l)
			isMapLoop := false
			for _, in := range l.header.Instrs {
				if nx, ok := in.(*ssa.Next); ok && !nx.IsString {
					isMapLoop = true
				}
			}
			if !isMapLoop {
				continue
			}
			nloops++
			avoid := map[*ssa.BasicBlock]bool{l.header: true}
			for b := range writes {
				avoid[b] = true
			}
			skipped := false
			for _, s := range l.header.Succs {
				if !blocks[s] {
					continue
				}
				for _, pr := range l.header.Preds {
					if !blocks[pr] || writes[s] || writes[pr] {
						continue
					}
					if s == pr || reachesAvoiding(s, pr, avoid) {
						skipped = true
					}
				}
			}
			r.check(!skipped && len(writes) > 0, "C15.every-entry", add, "loop over the value table", l.header.Instrs[0].Pos(), "every way round writes the entry's line", "an iteration of the loop over the value table can end without the entry's line having been written: that placeholder's value is not transmitted and the placeholder silently reads as nil")
		}
		r.floor("C15.every-entry", "loops over the value table in AddPreamble", nloops, 1)
	}
	if !okShape {
		return
	}
	wprefix, wsep := lineParts[1], lineParts[3]
	// every return: acc + "\n" + str
	okBlank := true
	for _, rt := range (&evalModel{}).returns(add) {
		parts := concatParts(rt[1].(ssa.Value))
		okThis := len(parts) == 3 && parts[2] == ssa.Value(add.Params[0])
		if okThis {
			s, ok := constString(parts[1])
			okThis = ok && s == "\n"
		}
		if !okThis {
			// the text may be accumulated in a strings.Builder throughout: the last two pieces written to it
			// before its String() is returned are the line break and the source
			if sc, isCall := rt[1].(ssa.Value).(*ssa.Call); isCall && sc.Call.StaticCallee() != nil && sc.Call.StaticCallee().Name() == "String" && fnPkgPath(sc.Call.StaticCallee()) == "strings" && len(sc.Call.Args) == 1 {
				var written []ssa.Value
				for _, b := range add.Blocks {
					if b != sc.Block() && !b.Dominates(sc.Block()) {
						continue
					}
					for _, in := range b.Instrs {
						if in == ssa.Instruction(sc) {
							break
						}
						if wc, ok := in.(*ssa.Call); ok && wc.Call.StaticCallee() != nil && wc.Call.StaticCallee().Name() == "WriteString" && fnPkgPath(wc.Call.StaticCallee()) == "strings" && wc.Call.Args[0] == sc.Call.Args[0] {
							written = append(written, wc.Call.Args[1])
						}
					}
				}
				if n := len(written); n >= 2 && written[n-1] == ssa.Value(add.Params[0]) {
					if s, ok := constString(written[n-2]); ok && s == "\n" {
						okThis = true
					}
				}
			}
		}
		if !okThis {
			okBlank = false
		}
	}
	r.check(okBlank, "C15.format", add, "blank line before the source", add.Pos(), "every return is preamble + line break + source", "some return of AddPreamble omits the blank separator line: the reader would take leading ';; $…' comment lines of the source for preamble")
	// reader side
	rprefix := ""
	// the reader and the unexported functions of its package it is built from
	var rwpBlocks []*ssa.BasicBlock
	for _, f := range w.withPkgHelpers(rwp) {
		rwpBlocks = append(rwpBlocks, f.Blocks...)
	}
	for _, b := range rwpBlocks {
		for _, in := range b.Instrs {
			if c, ok := in.(*ssa.Call); ok && isStringsFn(c, "HasPrefix") {
				if s, ok := constString(c.Call.Args[1]); ok {
					rprefix = s
				}
			}
		}
	}
	r.check(rprefix == wprefix+"$", "C15.format", rwp, "prefix tested by the reader", rwp.Pos(), fmt.Sprintf("%q = writer prefix %q + '$'", rprefix, wprefix), fmt.Sprintf("the reader tests for %q but the writer emits %q followed by a name starting with '$'", rprefix, wprefix))
	// key offset
	okOff := false
	for _, b := range rwpBlocks {
		for _, in := range b.Instrs {
			if sl, ok := in.(*ssa.Slice); ok && sl.High == nil && isStringVal(sl.X) {
				if k, ok := sl.Low.(*ssa.Const); ok && k.Value != nil && k.Int64() == int64(len(wprefix)) {
					okOff = true
				}
			}
		}
	}
	r.check(okOff, "C15.format", rwp, "key offset", rwp.Pos(), fmt.Sprintf("strips %d bytes, the writer's prefix", len(wprefix)), "the reader does not strip exactly the writer's prefix from the key")
	// the pattern, evaluated on lines of the writer's shape
	pat := ""
	textIntactRule(w, r, "C15.text-intact")
	// keyword values (and keyword keys of nested maps) travel through the preamble as printed text: the
	// encoding of keywords must be injective for them to come back as they were
	keywordInjectiveRule(w, r, "C15.keyword")
	textVerdictRule(w, r, "C15.text-verdict")
	printEntryRule(w, r, "C15.print-entry")
	preambleValueVerbatimRule(w, r, "C15.value-verbatim")
	preambleEntryReadRule(w, r, "C15.entry-read")
	// keyword values (and keys) travel as printed text: the printer's form of a keyword is the one text the reader
	// turns back into that keyword, whatever characters the name holds
	r.include("C15.keyword-", "C06.", "a keyword is printed as the keyword character followed by its name with exactly the leading marker stripped", checkC06, func(rule string) bool {
		return rule == "C06.brackets" || rule == "C06.marker"
	})
	// a text with a preamble means what it says, whatever was read before it and beside it
	noGlobalWritesRule(w, r, "C15.read-stateless", "reading a text with its preamble", append([]*ssa.Function{w.Fn("", "READ"), w.Fn("", "READWithPreamble"), w.Fn("", "AddPreamble")}, w.pkgFuncs("reader")...))
	keyContentRule(w, r, "C15.key-content")
	readerLimitRule(w, r, "C15.no-limit")
	printerOneLineRule(w, r, "C15.one-line")
	printerRules(w, r, "C15.one-escaper")
	constFormatRule(w, r, "C15.const-format")
	r.rule("C15.verbatim", "the preamble line matched against the pattern is a piece of the text that was passed in, cut out only by operations that return part of their input unchanged (Cut, Trim…, slicing): a value's characters, including runs of blanks inside strings, reach the reader as they were written")
	nvb := 0
	for _, b := range rwpBlocks {
		for _, in := range b.Instrs {
			if c, ok := in.(*ssa.Call); ok && c.Call.StaticCallee() != nil && fnPkgPath(c.Call.StaticCallee()) == "regexp" && len(c.Call.Args) > 1 && strings.Contains(c.Call.StaticCallee().Name(), "String") {
				nvb++
				okV, why := substringOnly(w, c.Call.Args[1], map[ssa.Value]bool{}, 0)
				r.check(okV, "C15.verbatim", c.Parent(), "text matched against the preamble pattern", c.Pos(), "a verbatim piece of the source text", "the line is rewritten before it is matched ("+why+"): characters of placeholder values are changed on the way to the reader")
			}
		}
	}
	r.floor("C15.verbatim", "pattern matches on preamble lines", nvb, 1)
	for _, b := range rwpBlocks {
		for _, in := range b.Instrs {
			// the pattern of the package-level regular expression the reader matches lines with
			if c, ok := in.(*ssa.Call); ok && c.Call.StaticCallee() != nil && fnPkgPath(c.Call.StaticCallee()) == "regexp" && len(c.Call.Args) > 0 {
				if ld, ok := c.Call.Args[0].(*ssa.UnOp); ok {
					if g, ok := ld.X.(*ssa.Global); ok {
						if p, ok := w.globalRegexPattern(g); ok {
							pat = p
						}
					}
				}
			}
		}
	}
	re, err := regexp.Compile(pat)
	if pat == "" || err != nil {
		r.bad("C15.format", rwp, "preamble pattern", rwp.Pos(), "placeholderRE's pattern not found or invalid")
	} else {
		okPat := true
		detail := ""
		for _, key := range []string{"$A", "$NUMBER_1", "$a-b", "$0"} {
			for _, val := range []string{"1984", `"a b  c"`, `(+ 1 1)`, `{:k "v;; $X 1"}`, `¬{"a": 1}¬`, `"$A"`, `"SELECT 1 ; DROP"`, "[1 \t;x]", `"a" `, `(f) ;; $B 2`} {
				line := wprefix + key + wsep + val
				mm := re.FindAllStringSubmatch(line, -1)
				if len(mm) != 1 || len(mm[0]) != 3 || mm[0][1] != wprefix+key || mm[0][2] != val {
					okPat = false
					detail = fmt.Sprintf("line %q -> %v", line, mm)
				}
			}
		}
		// the value group takes the rest of the line, whatever it contains: the last thing the pattern matches is a
		// greedy "any characters" capture (nothing after it but an optional end-of-text anchor)
		if rx, err := syntax.Parse(pat, syntax.Perl); err == nil {
			rx = rx.Simplify()
			okTail := false
			tail := ""
			if rx.Op == syntax.OpConcat && len(rx.Sub) > 0 {
				subs := rx.Sub
				for len(subs) > 0 && (subs[len(subs)-1].Op == syntax.OpEndText || subs[len(subs)-1].Op == syntax.OpEndLine) {
					subs = subs[:len(subs)-1]
				}
				if len(subs) > 0 {
					last := subs[len(subs)-1]
					tail = last.String()
					if last.Op == syntax.OpCapture && len(last.Sub) == 1 {
						in := last.Sub[0]
						if (in.Op == syntax.OpPlus || in.Op == syntax.OpStar) && in.Flags&syntax.NonGreedy == 0 && len(in.Sub) == 1 && (in.Sub[0].Op == syntax.OpAnyCharNotNL || in.Sub[0].Op == syntax.OpAnyChar) {
							okTail = true
						}
					}
				}
			}
			r.check(okTail, "C15.format", rwp, "value group of the preamble pattern", rwp.Pos(), "a greedy capture of the rest of the line", "the pattern does not end in a greedy capture of everything up to the end of the line (it ends in "+tail+"): part of a value - after a blank and a semicolon, say - is not taken as data, the rest no longer reads and the placeholder silently becomes nil")
		}
		r.check(okPat, "C15.format", rwp, "preamble pattern on writer-shaped lines", rwp.Pos(), "yields (prefix+name, whole value) for names over letters, digits, - and _", "the reader's pattern does not split writer-shaped lines into name and whole value: "+detail)
	}
	// line-safe
	ps, why := findPrinterStringBranches(w, e)
	if why != "" {
		r.undecided("C15.line-safe", nil, "printer string branches", token.NoPos, why)
	} else {
		P, _ := replaceChain(ps.quoted[1])
		okQ := false
		for _, p := range P {
			if p.from == "\n" && !strings.Contains(p.to, "\n") && p.n == -1 {
				okQ = true
			}
		}
		r.check(okQ, "C15.line-safe", ps.fn, "quoted form", ps.quotedRet.Pos(), "LF is escaped", "the quoted form keeps line breaks verbatim")
		PR, _ := replaceChain(ps.raw[1])
		okR := false
		for _, p := range PR {
			if p.from == "\n" && !strings.Contains(p.to, "\n") {
				okR = true
			}
		}
		if !okR {
			// taken only for strings without LF
			for _, b := range ps.rawRet.Parent().Blocks {
				iff := blockIf(b)
				if iff == nil {
					continue
				}
				for i := 0; i < 2; i++ {
					if !edgeDominates(b, i, ps.rawRet.Block()) {
						continue
					}
					for _, c := range containsCalls(iff.Cond, i == 0, e, b) {
						if s, ok := constString(c.Call.Args[1]); ok && s == "\n" {
							okR = true
						}
					}
				}
			}
			// conditions combined with && are lowered to several blocks: look at all dominating facts
			if !okR {
				okR = dominatedByNotContainsLF(ps.rawRet.Parent(), ps.rawRet.Block())
			}
			// the raw form built by a function of its own: the test stands at each of its calls
			if h := ps.rawRet.Parent(); !okR && h != ps.fn && h.Object() != nil && !h.Object().Exported() && !e.escapedFn(h) {
				sites := e.callSites(h)
				okR = len(sites) > 0
				for _, site := range sites {
					if site.Parent() == nil || site.Parent().Pkg != h.Pkg || !dominatedByNotContainsLF(site.Parent(), site.Block()) {
						okR = false
					}
				}
			}
		}
		r.check(okR, "C15.line-safe", ps.fn, "raw form", ps.rawRet.Pos(), "taken only for strings without LF (or LF is mapped)", "the raw form emits line breaks verbatim, but the preamble is line-oriented: a multi-line value cannot be read back (a reader-side repair would equally resolve this)")
	}
	// raw form round trip (shared with C06.escape): values travel through PRINT and the reader
	r.rule("C15.raw-roundtrip", "the raw string form used for JSON-looking values doubles every raw delimiter when printed and un-doubles every one when read (otherwise a value containing the delimiter ends early on its preamble line)")
	if ps != nil && why == "" {
		if rs, why2 := findReaderStrings(w, e); why2 == "" {
			PR, _ := replaceChain(ps.raw[1])
			RR, _ := replaceChain(rs.rawRet)
			openR, _ := constString(ps.raw[0])
			okRaw := len(PR) == 1 && len(RR) == 1 && PR[0].from == openR && PR[0].to == openR+openR && RR[0].from == PR[0].to && RR[0].to == PR[0].from && PR[0].n == -1 && RR[0].n == -1
			r.check(okRaw, "C15.raw-roundtrip", ps.fn, "raw delimiter doubling", ps.rawRet.Pos(), "all occurrences doubled / un-doubled", fmt.Sprintf("printer %s vs reader %s", pairSet(PR, false), pairSet(RR, false)))
		} else {
			r.undecided("C15.raw-roundtrip", nil, "reader string cases", token.NoPos, why2)
		}
	}
	// quoted form: same agreement as C06.escape (a value travels through PRINT and the reader)
	r.rule("C15.escape", "the quoted string form escapes exactly what the reader un-escapes (shared with C06.escape): a placeholder value containing an escaped character comes back unchanged")
	escapeAgreement(w, r, e, "C15.escape")
	// the placeholder table is threaded through every nested read
	r.rule("C15.thread", "every reader function hands its own placeholder table and environment on to the nested reads it starts")
	nth := 0
	for _, fn := range w.pkgFuncs("reader") {
		var own ssa.Value
		for _, p := range fn.Params {
			if _, name, ok := w.namedStruct(p.Type()); ok && name == "HashMap" {
				own = p
			}
		}
		if own == nil {
			continue
		}
		for _, b := range fn.Blocks {
			for _, in := range b.Instrs {
				c, ok := in.(*ssa.Call)
				if !ok {
					continue
				}
				callee := c.Call.StaticCallee()
				if callee == nil || fnPkgPath(callee) != modPath+"/reader" {
					continue
				}
				for i, p := range callee.Params {
					if _, name, ok := w.namedStruct(p.Type()); ok && name == "HashMap" && i < len(c.Call.Args) {
						nth++
						r.check(c.Call.Args[i] == own, "C15.thread", fn, "placeholder table passed to "+callee.Name(), c.Pos(), "the function's own table", "a nested read gets another (or no) placeholder table: placeholders below this point read as nil")
					}
				}
			}
		}
	}
	r.floor("C15.thread", "nested reads receiving the placeholder table", nth, 10)
	// stop
	nstop := 0
	for _, b := range rwp.Blocks {
		for _, in := range b.Instrs {
			c, ok := in.(*ssa.Call)
			if !ok || c.Call.StaticCallee() == nil {
				continue
			}
			// the reader's entry point, or a function of the module that hands its own parameters on to it
			var textArg, tableArg ssa.Value
			if callee := c.Call.StaticCallee(); callee.Name() == "Read_str" {
				textArg, tableArg = c.Call.Args[0], c.Call.Args[2]
			} else if inModule(callee) && callee != rwp {
				for _, hb := range callee.Blocks {
					for _, hin := range hb.Instrs {
						hc, ok := hin.(*ssa.Call)
						if !ok || hc.Call.StaticCallee() == nil || hc.Call.StaticCallee().Name() != "Read_str" {
							continue
						}
						for i, p := range callee.Params {
							if i >= len(c.Call.Args) {
								continue
							}
							if hc.Call.Args[0] == ssa.Value(p) {
								textArg = c.Call.Args[i]
							}
							if hc.Call.Args[2] == ssa.Value(p) {
								tableArg = c.Call.Args[i]
							}
						}
					}
				}
			}
			if textArg == nil || tableArg == nil {
				continue
			}
			if isNilConst(tableArg) {
				continue // the per-line read of a value
			}
			nstop++
			parts := concatParts(textArg)
			d := describeVal(e, textArg, 0)
			switch len(parts) {
			case 1:
				// remaining text: the `after` part of the cut
				_, isExtract := parts[0].(*ssa.Extract)
				r.check(isExtract, "C15.stop", rwp, "source passed on at the blank line", c.Pos(), "the text after the blank line", "the reader passes "+d+" on instead of the remaining text")
			case 3:
				s, _ := constString(parts[1])
				_, isExtract := parts[2].(*ssa.Extract)
				r.check(s == "\n" && isExtract, "C15.stop", rwp, "source passed on at a non-preamble line", c.Pos(), "that line, a line break and the remaining text", "the first non-preamble line is not passed on intact: "+d)
			default:
				r.bad("C15.stop", rwp, "source passed on", c.Pos(), "unexpected shape: "+d)
			}
		}
	}
	r.floor("C15.stop", "exits of the preamble loop into the reader", nstop, 2)
	// ... and the first blank line does end the preamble: from the branch taken for an empty line no path leads
	// round the loop again (a loop that skips blank lines eats the blank lines the program itself begins with,
	// and every row of the program is counted short by that many)
	nblank := 0
	for _, l := range naturalLoops(rwp) {
		lb := loopBlocks(l)
		for d := range lb {
			iff := blockIf(d)
			if iff == nil {
				continue
			}
			bo, ok := iff.Cond.(*ssa.BinOp)
			if !ok || (bo.Op != token.EQL && bo.Op != token.NEQ) {
				continue
			}
			isEmptyTest := false
			if k, ok := bo.Y.(*ssa.Const); ok && k.Value != nil {
				if c, isCall := bo.X.(*ssa.Call); isCall && k.Value.Kind() == constant.Int && k.Int64() == 0 {
					if bi, ok := c.Call.Value.(*ssa.Builtin); ok && bi.Name() == "len" && isStringVal(c.Call.Args[0]) {
						isEmptyTest = true
					}
				}
				if sv, ok := constString(bo.Y); ok && sv == "" && isStringVal(bo.X) {
					isEmptyTest = true
				}
			}
			if !isEmptyTest {
				continue
			}
			nblank++
			t := d.Succs[0]
			if bo.Op == token.NEQ {
				t = d.Succs[1]
			}
			again := t == l.header || blockReaches(t, l.header, false)
			r.check(!again, "C15.stop", rwp, "what follows a blank line", instrPos(iff), "the rest of the text goes to the reader", "after a blank line the preamble loop can go round again: blank lines at the head of the program are swallowed with the separator, so every row of the program is counted short")
		}
	}
	r.floor("C15.stop", "empty-line tests in the preamble loop", nblank, 1)
	r.Assumptions = append(r.Assumptions, "equality of the resulting AST with the substituted AST is not decided; a preamble value that cannot be read is silently nil (the existing test suite relies on it for Go structs, see DESIGN.md): for data values this cannot happen once C06/C15.line-safe hold")
}

func containsCalls(cond ssa.Value, pol bool, e *Engine, b *ssa.BasicBlock) []*ssa.Call {
	var out []*ssa.Call
	switch x := cond.(type) {
	case *ssa.UnOp:
		if x.Op == token.NOT {
			return containsCalls(x.X, !pol, e, b)
		}
	case *ssa.Call:
		if isStringsFn(x, "Contains", "ContainsRune", "ContainsAny") && !pol {
			out = append(out, x)
		}
	}
	return out
}

// dominatedByNotContainsLF: some dominating branch edge of b is the false edge of strings.Contains(s, "\n").
func dominatedByNotContainsLF(fn *ssa.Function, b *ssa.BasicBlock) bool {
	isNoLF := func(a condAtom) bool {
		if c, ok := a.v.(*ssa.Call); ok && isStringsFn(c, "Contains") && !a.pol {
			if s, ok := constString(c.Call.Args[1]); ok && s == "\n" {
				return true
			}
		}
		return false
	}
	for _, a := range knownConds(b) {
		if isNoLF(a) {
			return true
		}
		// a predicate of the package that is true only for strings without a line break
		if c, ok := a.v.(*ssa.Call); ok && a.pol && c.Call.StaticCallee() != nil && c.Call.StaticCallee().Pkg == fn.Pkg && len(c.Call.StaticCallee().Blocks) > 0 {
			h := c.Call.StaticCallee()
			all, n := true, 0
			for _, hb := range h.Blocks {
				if len(hb.Instrs) == 0 {
					continue
				}
				ret, ok := hb.Instrs[len(hb.Instrs)-1].(*ssa.Return)
				if !ok || len(ret.Results) != 1 {
					continue
				}
				if k, ok := ret.Results[0].(*ssa.Const); ok && k.Value != nil && k.Value.Kind() == constant.Bool && !constant.BoolVal(k.Value) {
					continue // returns false here
				}
				n++
				found := false
				for _, x := range append(knownConds(hb), valueConds(ret.Results[0], true)...) {
					if isNoLF(x) {
						found = true
					}
				}
				if !found {
					all = false
				}
			}
			if all && n > 0 {
				return true
			}
		}
	}
	for _, d := range fn.Blocks {
		iff := blockIf(d)
		if iff == nil {
			continue
		}
		for i := 0; i < 2; i++ {
			if !edgeDominates(d, i, b) {
				continue
			}
			cond, pol := iff.Cond, i == 0
			for {
				u, ok := cond.(*ssa.UnOp)
				if !ok || u.Op != token.NOT {
					break
				}
				cond, pol = u.X, !pol
			}
			if c, ok := cond.(*ssa.Call); ok && isStringsFn(c, "Contains") && !pol {
				if s, ok := constString(c.Call.Args[1]); ok && s == "\n" {
					return true
				}
			}
		}
	}
	return false
}

// escapeAgreement: the printer's quoted-form replacement chain, inverted, equals the reader's un-escape table.
func escapeAgreement(w *World, r *Report, e *Engine, rule string) {
	ps, why := findPrinterStringBranches(w, e)
	if why != "" {
		r.undecided(rule, nil, "printer string branches", token.NoPos, why)
		return
	}
	rs, why := findReaderStrings(w, e)
	if why != "" && rs != nil && len(rs.foreign) > 0 {
		for _, ret := range rs.foreign {
			r.bad(rule, rs.fn, "string result decoded outside the un-escape table", ret.Pos(), "read_atom returns a string that is not the delimiter-stripped token passed once through the replacement table: a value the printer escaped may come back decoded differently ("+why+")")
		}
		return
	}
	if why != "" {
		r.undecided(rule, nil, "reader string cases", token.NoPos, why)
		return
	}
	for _, ret := range rs.foreign {
		r.bad(rule, rs.fn, "string result decoded outside the un-escape table", ret.Pos(), "read_atom returns a string that is not the delimiter-stripped token passed through the replacement table: a value the printer escaped may come back decoded differently")
	}
	P, _ := replaceChain(ps.quoted[1])
	if len(P) == 0 {
		// a single strings.NewReplacer on the printer side
		if pairs, ok := replacerPairs(w, ps.quoted[1]); ok {
			P = pairs
		}
	}
	var R []replPair
	if pairs, ok := replacerPairs(w, rs.quotedRet); ok {
		R = pairs
	} else {
		R, _ = replaceChain(rs.quotedRet)
		if len(R) >= 2 && R[0].to == R[len(R)-1].from {
			R = append([]replPair{{R[0].from, R[len(R)-1].to, -1}}, R[1:len(R)-1]...)
		}
	}
	r.check(len(P) >= 2 && pairSet(P, true) == pairSet(R, false), rule, ps.fn, "printer escapes vs reader un-escapes", ps.quotedRet.Pos(), "printer "+pairSet(P, false)+" ; reader "+pairSet(R, false), "printer escapes "+pairSet(P, false)+" but the reader un-escapes "+pairSet(R, false)+": a string containing the unmatched character does not survive printing and reading")
}

// substringOnly: v is obtained from string parameters of the function (or of the unexported functions it is
// called from) only through operations that return a piece of their input unchanged: slicing, strings.Cut,
// the strings.Trim family.  Returns the first offending construct otherwise.
func substringOnly(w *World, v ssa.Value, seen map[ssa.Value]bool, depth int) (bool, string) {
	if depth > 20 || seen[v] {
		return true, ""
	}
	seen[v] = true
	switch x := v.(type) {
	case *ssa.Parameter:
		args := w.callSiteArgs(x)
		if x.Parent().Object() != nil && x.Parent().Object().Exported() {
			return true, "" // the text as the caller passed it
		}
		for _, a := range args {
			if ok, why := substringOnly(w, a, seen, depth+1); !ok {
				return false, why
			}
		}
		return true, ""
	case *ssa.Const:
		return true, ""
	case *ssa.Slice:
		return substringOnly(w, x.X, seen, depth+1)
	case *ssa.Phi:
		for _, op := range x.Edges {
			if ok, why := substringOnly(w, op, seen, depth+1); !ok {
				return false, why
			}
		}
		return true, ""
	case *ssa.Extract:
		if c, ok := x.Tuple.(*ssa.Call); ok {
			return substringOnly(w, c, seen, depth+1)
		}
	case *ssa.UnOp:
		if x.Op == token.MUL {
			if al, ok := x.X.(*ssa.Alloc); ok {
				for _, ref := range *al.Referrers() {
					if st, ok := ref.(*ssa.Store); ok && st.Addr == ssa.Value(al) {
						if ok, why := substringOnly(w, st.Val, seen, depth+1); !ok {
							return false, why
						}
					}
				}
				return true, ""
			}
		}
	case *ssa.Call:
		if isStringsFn(x, "Cut", "CutPrefix", "CutSuffix", "Trim", "TrimSpace", "TrimLeft", "TrimRight", "TrimPrefix", "TrimSuffix", "TrimFunc", "TrimLeftFunc", "TrimRightFunc", "Clone") {
			return substringOnly(w, x.Call.Args[0], seen, depth+1)
		}
		return false, describeCall(nil, x, 0)
	case *ssa.BinOp:
		return false, "string concatenation"
	}
	return false, describeVal(nil, v, 0)
}

// replAccumulateRule: the REPL keeps the lines typed so far only while the reader says the text is incomplete:
// on every way round its loop the accumulated lines are either untouched (nothing was read), emptied, or - the
// one case in which they grow - kept because the classifier said "incomplete" (or the line was empty).
func replAccumulateRule(w *World, r *Report, multi *ssa.Function, rule string) {
	r.rule(rule, "in the REPL loop the accumulated input is carried into the next round only on a path where the incomplete-input classifier answered true (or the input was the empty line): after an input was evaluated or rejected for any other reason the next line starts a new input, so a complete expression typed next is read on its own")
	ex := w.Fn("repl", "Execute")
	if ex == nil || multi == nil {
		r.undecided(rule, nil, "repl.Execute / classifier", token.NoPos, "functions no longer resolve")
		return
	}
	n := 0
	var replCalls []*ssa.Call
	if replFn := w.Fn("", "REPL"); replFn != nil {
		replCalls = staticCallsTo(ex, replFn)
	}
	if readFn := w.Fn("", "READ"); readFn != nil {
		replCalls = append(replCalls, staticCallsTo(ex, readFn)...)
	}
	for _, l := range naturalLoops(ex) {
		blocks := loopBlocks(l)
		for _, in := range l.header.Instrs {
			phi, ok := in.(*ssa.Phi)
			if !ok {
				break
			}
			sl, ok := phi.Type().Underlying().(*types.Slice)
			if !ok || !isBasic(sl.Elem(), types.String) {
				continue
			}
			var checkEdge func(v ssa.Value, pred *ssa.BasicBlock, depth int)
			checkEdge = func(v ssa.Value, pred *ssa.BasicBlock, depth int) {
				if inner, ok := v.(*ssa.Phi); ok && inner != phi && depth < 6 {
					// several ways round merge before the back edge
					for j, op := range inner.Edges {
						checkEdge(op, inner.Block().Preds[j], depth+1)
					}
					return
				}
				n++
				if v == ssa.Value(phi) {
					// a round that neither keeps the line nor gives the input up: only where no line was read (the
					// line reader answered with an error: interrupt). A typed line that is taken for a command of the
					// REPL on a continuation line never reaches the reader: the expression is silently cut
					r.check(onReadError(pred, l.header), rule, ex, "round that leaves the accumulated input as it was", instrPos(pred.Instrs[len(pred.Instrs)-1]), "only when the line reader reported an error", "the loop goes round without appending the line it read and without handing the input to the reader: a line typed while an expression is open is dropped from it (the expression is read without that line)")
					return
				}
				isReset := isNilConst(v)
				if s2, ok := v.(*ssa.Slice); ok {
					if al, ok := s2.X.(*ssa.Alloc); ok {
						if at, ok := al.Type().(*types.Pointer).Elem().Underlying().(*types.Array); ok && at.Len() == 0 {
							isReset = true // []string{}
						}
					}
				}
				if isReset {
					// the lines typed so far are given up only after the reader has seen them in this round and the
					// classifier did not call them incomplete: dropping them on any other ground (a blank line, a
					// count) loses the open expression the REPL was asked to keep reading
					seen := false
					for _, rc := range replCalls {
						if rc.Block() == pred || rc.Block().Dominates(pred) {
							seen = true
						}
					}
					pos := token.NoPos
					if len(pred.Instrs) > 0 {
						pos = pred.Instrs[len(pred.Instrs)-1].Pos()
					}
					incomplete := false
					for _, a := range knownConds(pred) {
						if c, ok := a.v.(*ssa.Call); ok && c.Call.StaticCallee() == multi && a.pol {
							incomplete = true
						}
					}
					r.check(seen && !incomplete, rule, ex, "input given up", pos, "after the text was read in this round and not classified as incomplete", "the lines typed so far are dropped on a path where the reader has not seen the text in this round, or has just called it incomplete: the REPL stops reading an expression that only lacks its closing brackets, and the next line is read as if nothing had been typed")
					return
				}
				// the lines grew: only under the classifier's "incomplete" or the empty-line test
				kept := false
				for _, d := range ex.Blocks {
					iff := blockIf(d)
					if iff == nil {
						continue
					}
					if c, ok := iff.Cond.(*ssa.Call); ok && c.Call.StaticCallee() == multi && (edgeDominates(d, 0, pred) || d.Succs[0] == pred || (d == pred && d.Succs[0] == l.header)) {
						kept = true
					}
					if _, s, ok := strEq(iff.Cond); ok && strings.Contains(s, "empty") && (edgeDominates(d, 0, pred) || d.Succs[0] == pred || (d == pred && d.Succs[0] == l.header)) {
						kept = true
					}
				}
				pos := token.NoPos
				if len(pred.Instrs) > 0 {
					pos = pred.Instrs[len(pred.Instrs)-1].Pos()
				}
				// ... and on nothing else: the reader's verdict is not second-guessed by a count of characters
				if kept {
					for _, a := range knownConds(pred) {
						extra := ""
						switch c := a.v.(type) {
						case *ssa.Call:
							if sc := c.Call.StaticCallee(); sc != nil && sc != multi && inModule(sc) {
								extra = "the answer of " + sc.Name()
							}
						case *ssa.BinOp:
							if isIntType(c.X.Type()) || isIntType(c.Y.Type()) {
								extra = "the comparison " + describeVal(nil, c, 0)
							}
						}
						if extra != "" {
							r.bad(rule, ex, "further condition on keeping the input", pos, "whether the REPL keeps reading also depends on "+extra+": text the reader classified as incomplete is dropped and reported as an error when that second test disagrees (closing brackets inside strings and comments are characters, not tokens)")
						}
					}
				}
				r.check(kept, rule, ex, "input carried into the next round", pos, "only after the classifier said the text is incomplete", "the lines typed so far are kept on a path where the text was not classified as incomplete (an input rejected with another error): every following line is appended to the rejected text, so no complete expression is read on its own again")
			}
			// leaving the loop drops whatever is pending: only when the line reader says the input has ended
			for b := range blocks {
				for _, sx := range b.Succs {
					if blocks[sx] || len(sx.Instrs) == 0 {
						continue
					}
					if _, isRet := sx.Instrs[len(sx.Instrs)-1].(*ssa.Return); !isRet {
						continue
					}
					n++
					r.check(onReadError(sx) || onReadError(b, sx), rule, ex, "way out of the REPL loop", instrPos(sx.Instrs[len(sx.Instrs)-1]), "only when the line reader reported the end of the input (or an error)", "the REPL can leave its loop on the strength of what a typed line says: with an expression open, that line and the pending input are dropped instead of being read")
				}
			}
			for i, v := range phi.Edges {
				if pred := l.header.Preds[i]; blocks[pred] {
					checkEdge(v, pred, 0)
				}
			}
		}
	}
	r.floor(rule, "ways round the REPL loop", n, 3)
}

// leafReaderRule: the readers of single-token forms (atoms, placeholders: the functions the dispatcher calls that
// never come back to it) take exactly one token from the stream: one call of the advancing accessor, which every
// return has passed, and no call of another parsing function. A leaf that takes two tokens swallows the token
// that follows - a closer, typically: complete text is then reported incomplete and stray closers are accepted.
func leafReaderRule(w *World, r *Report, rule string) {
	r.rule(rule, "a reader function for a single-token form (called by the dispatcher, never calling back into it) consumes exactly one token: it calls the advancing token accessor once, on every path before it returns, and calls no other parsing function of the reader")
	rf, rl := w.Fn("reader", "read_form"), w.Fn("reader", "read_list")
	next, _ := w.tokenAccessors()
	if rf == nil || rl == nil || next == nil {
		r.undecided(rule, nil, "read_form / read_list / token accessor", token.NoPos, "functions no longer resolve")
		return
	}
	back := w.reachableTo(rf, "reader")
	back[rf], back[rl] = true, true
	n := 0
	for _, leaf := range staticCalleesIn(rf) {
		if !isReaderFn(leaf) || back[leaf] {
			continue
		}
		n++
		var nexts []*ssa.Call
		okCalls := true
		for _, f := range w.withPkgHelpers(leaf) {
			for _, b := range f.Blocks {
				for _, in := range b.Instrs {
					c, ok := in.(*ssa.Call)
					if !ok || c.Call.StaticCallee() == nil {
						continue
					}
					switch sc := c.Call.StaticCallee(); {
					case sc == next:
						nexts = append(nexts, c)
					case isReaderFn(sc) && sc != leaf, sc == leaf:
						// (a single-token reader that calls itself - through a helper, for a second token that
						// "belongs" to the first - takes two tokens as well)
						okCalls = false
						r.bad(rule, f, "parsing function called by a single-token reader", c.Pos(), w.fnName(leaf)+" has taken its token and calls "+sc.Name()+", which takes another: the token after the form is swallowed (a closing bracket, say), so complete text is reported incomplete and unbalanced text is accepted")
					}
				}
			}
		}
		okOne := len(nexts) == 1
		if okOne {
			for _, rt := range (&evalModel{}).returns(leaf) {
				ret := rt[0].(*ssa.Return)
				if nexts[0].Parent() == leaf && !(nexts[0].Block() == ret.Block() || nexts[0].Block().Dominates(ret.Block())) {
					okOne = false
				}
			}
		}
		r.check(okOne && okCalls, rule, leaf, "tokens taken by a single-token reader", leaf.Pos(), "exactly one, on every path", fmt.Sprintf("%s takes %d tokens (or none on some path): the reader's position no longer matches the brackets it has seen", w.fnName(leaf), len(nexts)))
	}
	r.floor(rule, "single-token readers", n, 2)
}

// printerOneLineRule: the preamble carries one value per line, so whatever the printer writes in readable mode
// stays on one line: the only line breaks that can reach its output are those of the strings it prints (which
// C15.line-safe deals with). No string constant of the printer that contains a line break is part of its
// output: such constants occur only as the text to be replaced or searched for.
func printerOneLineRule(w *World, r *Report, rule string) {
	r.rule(rule, "no string constant containing a line break is emitted by the printer: in package printer such constants appear only as the 'from' text of a replacement or as the argument of a search (a separator, an indentation or a wrapped layout with line breaks would end the preamble line in the middle of a value)")
	n := 0
	for _, fn := range w.pkgFuncs("printer") {
		for _, b := range fn.Blocks {
			for _, in := range b.Instrs {
				for _, opp := range in.Operands(nil) {
					k, ok := (*opp).(*ssa.Const)
					if !ok || k.Value == nil || k.Value.Kind() != constant.String || !strings.ContainsAny(constant.StringVal(k.Value), "\n\r") {
						continue
					}
					n++
					okUse := false
					if c, isCall := in.(*ssa.Call); isCall {
						switch {
						case isStringsFn(c, "Replace", "ReplaceAll") && len(c.Call.Args) > 1 && c.Call.Args[1] == ssa.Value(k) && !(len(c.Call.Args) > 2 && c.Call.Args[2] == ssa.Value(k)):
							okUse = true
						case isStringsFn(c, "Contains", "ContainsAny", "Index", "IndexByte", "HasPrefix", "HasSuffix", "Count"):
							okUse = true
						}
					}
					r.check(okUse, rule, fn, "string constant with a line break in the printer", in.Pos(), "only searched for or replaced", fmt.Sprintf("the printer uses %q as part of what it writes: a value printed with it spans several lines, the preamble reader takes the first line for the whole value (the rest no longer reads, the placeholder silently becomes nil and the remaining lines are read as source)", constant.StringVal(k.Value)))
				}
			}
		}
	}
	r.floor(rule, "string constants with line breaks in the printer", n, 1)
}

func constParts(parts []ssa.Value) []string {
	var out []string
	for _, p := range parts {
		if k, ok := constString(p); ok {
			out = append(out, k)
		}
	}
	return out
}

// collectionReaders: the reader functions for bracketed collections: callers of the bracket matcher
// (read_list) that are neither part of it (its private helpers) nor called by it (the dispatcher).
func (w *World) collectionReaders() []*ssa.Function {
	readList := w.Fn("reader", "read_list")
	if readList == nil {
		return nil
	}
	group := map[*ssa.Function]bool{readList: true}
	eng := newEngine(w)
	for changed := true; changed; {
		changed = false
		for _, fn := range w.pkgFuncs("reader") {
			if group[fn] || fn.Parent() != nil {
				continue
			}
			sites := eng.callSites(fn)
			all := len(sites) > 0
			for _, cs := range sites {
				if !group[cs.Parent()] {
					all = false
				}
			}
			if all {
				group[fn] = true
				changed = true
			}
		}
	}
	var out []*ssa.Function
	for _, fn := range w.pkgFuncs("reader") {
		if len(staticCallsTo(fn, readList)) == 0 || group[fn] {
			continue
		}
		called := false
		for g := range group {
			if len(staticCallsTo(g, fn)) > 0 {
				called = true
			}
		}
		if !called {
			out = append(out, fn)
		}
	}
	return out
}

// builderBrackets: v is the text of a local strings.Builder; the constant written first (the write every other
// write comes after) and the constant written last (the write right before the text is taken).
func builderBrackets(v ssa.Value) (string, string, bool) {
	c, ok := v.(*ssa.Call)
	if !ok || c.Call.StaticCallee() == nil || c.Call.StaticCallee().Name() != "String" || len(c.Call.Args) != 1 {
		return "", "", false
	}
	al, ok := c.Call.Args[0].(*ssa.Alloc)
	if !ok || !strings.HasSuffix(al.Type().String(), "strings.Builder") {
		return "", "", false
	}
	var writes []*ssa.Call
	for _, ref := range *al.Referrers() {
		w, ok := ref.(*ssa.Call)
		if !ok {
			if _, isDbg := ref.(*ssa.DebugRef); isDbg {
				continue
			}
			return "", "", false // the builder is handed elsewhere
		}
		if w == c {
			continue
		}
		callee := w.Call.StaticCallee()
		if callee == nil || len(w.Call.Args) == 0 || w.Call.Args[0] != ssa.Value(al) {
			return "", "", false
		}
		switch callee.Name() {
		case "Len", "Cap", "Grow", "String":
			continue
		}
		writes = append(writes, w)
	}
	idx := func(in ssa.Instruction) int {
		for i, x := range in.Block().Instrs {
			if x == in {
				return i
			}
		}
		return -1
	}
	constOf := func(w *ssa.Call) (string, bool) {
		if len(w.Call.Args) != 2 {
			return "", false
		}
		switch w.Call.StaticCallee().Name() {
		case "WriteString":
			return constString(w.Call.Args[1])
		case "WriteByte", "WriteRune":
			// a bracket written as a single character
			if k, ok := w.Call.Args[1].(*ssa.Const); ok && k.Value != nil && k.Value.Kind() == constant.Int {
				if v, exact := constant.Int64Val(k.Value); exact && v > 0 && v < 0x110000 {
					return string(rune(v)), true
				}
			}
		}
		return "", false
	}
	var first, last *ssa.Call
	for _, w := range writes {
		all := true
		for _, o := range writes {
			if o == w {
				continue
			}
			if !(w.Block() == o.Block() && idx(w) < idx(o)) && !(w.Block() != o.Block() && w.Block().Dominates(o.Block())) {
				all = false
			}
		}
		if all {
			first = w
		}
		if w.Block() == c.Block() && idx(w) < idx(c) && (last == nil || idx(w) > idx(last)) {
			last = w
		}
	}
	if first == nil || last == nil || first == last {
		return "", "", false
	}
	o, ok1 := constOf(first)
	cl, ok2 := constOf(last)
	return o, cl, ok1 && ok2
}

// errTextMaker: fn is a function of the module with one result, an error, that makes it with errors.New from
// one of its own string parameters as it stands: the parameter's index, and whether the new error is wrapped
// by NewLispError before it is returned.
func errTextMaker(fn *ssa.Function) (int, bool, bool) {
	if fn == nil || len(fn.Blocks) != 1 || !inModule(fn) || fn.Signature.Results().Len() != 1 || !isErrorType(fn.Signature.Results().At(0).Type()) {
		return 0, false, false
	}
	for _, in := range fn.Blocks[0].Instrs {
		c, ok := in.(*ssa.Call)
		if !ok || c.Call.StaticCallee() == nil || c.Call.StaticCallee().Name() != "New" || fnPkgPath(c.Call.StaticCallee()) != "errors" {
			continue
		}
		p, ok := c.Call.Args[0].(*ssa.Parameter)
		if !ok {
			return 0, false, false
		}
		viaLisp := false
		for _, ref := range *c.Referrers() {
			if ci, ok := ref.(*ssa.ChangeInterface); ok {
				for _, r2 := range *ci.Referrers() {
					if c2, ok := r2.(*ssa.Call); ok && c2.Call.StaticCallee() != nil && c2.Call.StaticCallee().Name() == "NewLispError" {
						viaLisp = true
					}
				}
			}
		}
		for i, q := range fn.Params {
			if q == p {
				return i, viaLisp, true
			}
		}
	}
	return 0, false, false
}

// msgArg: the message text a call makes an error (or a string) of: errors.New, fmt.Errorf, fmt.Sprintf, or a
// function of the module that hands its text parameter to errors.New.
func msgArg(c *ssa.Call) (ssa.Value, bool) {
	callee := c.Call.StaticCallee()
	if callee == nil || len(c.Call.Args) == 0 {
		return nil, false
	}
	switch fnPkgPath(callee) + "." + callee.Name() {
	case "errors.New", "fmt.Errorf", "fmt.Sprintf":
		return c.Call.Args[0], true
	}
	if i, _, ok := errTextMaker(callee); ok && i < len(c.Call.Args) {
		return c.Call.Args[i], true
	}
	return nil, false
}

// printedTextNotFormatRule: the text the printer made for a value is data. Handed to a formatting function as
// the format, every percent sign in it is taken for a verb: the text comes out rewritten and reads back as
// another value (or as several).
func printedTextNotFormatRule(w *World, r *Report, rule string) {
	r.rule(rule, "in package printer every call of a formatting function of fmt (Sprintf, Fprintf, Printf, Errorf, Appendf, Sscanf ...) has a constant format: no printed text is ever interpreted as a format")
	n := 0
	for _, fn := range w.pkgFuncs("printer") {
		if isTestFunc(w, fn) {
			continue
		}
		for _, b := range fn.Blocks {
			for _, in := range b.Instrs {
				c, ok := in.(*ssa.Call)
				if !ok || c.Call.StaticCallee() == nil || fnPkgPath(c.Call.StaticCallee()) != "fmt" || !strings.HasSuffix(c.Call.StaticCallee().Name(), "f") {
					continue
				}
				sig := c.Call.StaticCallee().Signature
				fi := sig.Params().Len() - 2 // the format stands before the variadic operands
				if !sig.Variadic() || fi < 0 || fi >= len(c.Call.Args) || !isStringVal(c.Call.Args[fi]) {
					continue
				}
				n++
				_, isConst := constString(c.Call.Args[fi])
				r.check(isConst, rule, fn, "format of fmt."+c.Call.StaticCallee().Name(), c.Pos(), "a constant", "a computed text is used as the format: a percent sign in a printed value is taken for a verb (\"100%\" comes out as \"100%!(NOVERB)\"), so the text no longer reads back as the value")
			}
		}
	}
	r.add(rule, nil, "formatting calls of package printer", token.NoPos, "ok", fmt.Sprintf("%d calls examined", n))
}

// wholeFileRule: the text of a file reaches the reader whole or not at all. A bufio.Scanner stops at the first
// line longer than its buffer exactly as it stops at the end of the file; only its Err tells the two apart. A
// slurp that does not ask hands the reader a text cut short: a complete program is then reported as ending
// inside an open bracket, or the rest of the file is silently never read.
func wholeFileRule(w *World, r *Report, rule string) {
	r.rule(rule, "in the functions of the slurp builtin (the text load-file hands to the reader) every bufio.Scanner that is advanced with Scan is asked for its Err in the same function: a file is never taken to end where the scanner merely gave up")
	sl := w.builtin("slurp")
	if sl == nil {
		r.undecided(rule, nil, "slurp builtin", token.NoPos, "function no longer resolves")
		return
	}
	n := 0
	for _, fn := range w.withPkgHelpersOf(sl) {
		if fn == nil {
			continue
		}
		scans := map[ssa.Value]*ssa.Call{}
		asked := map[ssa.Value]bool{}
		for _, b := range fn.Blocks {
			for _, in := range b.Instrs {
				c, ok := in.(*ssa.Call)
				if !ok || c.Call.StaticCallee() == nil || fnPkgPath(c.Call.StaticCallee()) != "bufio" || c.Call.StaticCallee().Signature.Recv() == nil || len(c.Call.Args) == 0 {
					continue
				}
				if !strings.HasSuffix(c.Call.StaticCallee().Signature.Recv().Type().String(), "bufio.Scanner") {
					continue
				}
				switch c.Call.StaticCallee().Name() {
				case "Scan":
					scans[c.Call.Args[0]] = c
				case "Err":
					asked[c.Call.Args[0]] = true
				}
			}
		}
		for sc, c := range scans {
			n++
			r.check(asked[sc], rule, fn, "end of the line scanner's loop", c.Pos(), "Err consulted", "the scanner's Err is never consulted: at a line longer than the scanner's buffer the loop ends as at the end of the file and the text handed to the reader stops there (a complete file reads as incomplete, or its rest is silently dropped)")
		}
	}
	r.add(rule, sl, "line scanners in slurp", token.NoPos, "ok", fmt.Sprintf("%d scanners examined", n))
}

// replJoinRule: the REPL hands the lines of a form typed over several lines to the reader joined with the line
// break they were typed with (a comment ends at its line break).
func replJoinRule(w *World, r *Report, rule string) {
	if ex := w.Fn("repl", "Execute"); ex != nil {
		okJoin, found := false, false
		for _, b := range ex.Blocks {
			for _, in := range b.Instrs {
				if c, ok := in.(*ssa.Call); ok && isStringsFn(c, "Join") {
					found = true
					if s, ok := constString(c.Call.Args[1]); ok && s == "\n" {
						okJoin = true
					}
				}
			}
		}
		r.check(found && okJoin, rule, ex, "separator of accumulated lines", ex.Pos(), "a line break", "accumulated lines are not joined with a line break: a comment on one line swallows the following lines")
	} else {
		r.undecided(rule, nil, "repl.Execute", token.NoPos, "function no longer resolves")
	}
}

// trueOnlyWithPrefix: every return of the predicate h hands back false or the outcome of strings.HasPrefix(_, marker)
// (possibly merged): it answers true only for strings that begin with the marker.
func trueOnlyWithPrefix(h *ssa.Function, marker string) bool {
	var okVal func(v ssa.Value, depth int) bool
	okVal = func(v ssa.Value, depth int) bool {
		if depth > 4 {
			return false
		}
		switch x := v.(type) {
		case *ssa.Const:
			return x.Value != nil && x.Value.Kind() == constant.Bool && !constant.BoolVal(x.Value)
		case *ssa.Call:
			if isStringsFn(x, "HasPrefix") {
				s, ok := constString(x.Call.Args[1])
				return ok && s == marker
			}
		case *ssa.Phi:
			for _, op := range x.Edges {
				if !okVal(op, depth+1) {
					return false
				}
			}
			return true
		}
		return false
	}
	n := 0
	for _, b := range h.Blocks {
		if len(b.Instrs) == 0 {
			continue
		}
		ret, ok := b.Instrs[len(b.Instrs)-1].(*ssa.Return)
		if !ok {
			continue
		}
		if len(ret.Results) != 1 || !okVal(ret.Results[0], 0) {
			return false
		}
		n++
	}
	return n > 0
}

// encloserBrackets: v is the result of a function of the package that puts joined texts between two string
// fields of a struct it is handed (`brackets{open: "{", close: "}"}.enclose(printed)`): the constants the caller
// stored into those two fields of the literal.
func encloserBrackets(v ssa.Value) (string, string, bool) {
	c, ok := v.(*ssa.Call)
	if !ok || c.Call.StaticCallee() == nil || len(c.Call.StaticCallee().Blocks) != 1 {
		return "", "", false
	}
	h := c.Call.StaticCallee()
	ret, ok := h.Blocks[0].Instrs[len(h.Blocks[0].Instrs)-1].(*ssa.Return)
	if !ok || len(ret.Results) != 1 {
		return "", "", false
	}
	parts := concatParts(ret.Results[0])
	if len(parts) != 3 {
		return "", "", false
	}
	if jc, ok := parts[1].(*ssa.Call); !ok || !isStringsFn(jc, "Join") {
		return "", "", false
	}
	// a field of a struct parameter (read directly, or through the local a value receiver is spilled into)
	fieldOfParam := func(v ssa.Value) (ssa.Value, int, bool) {
		switch x := v.(type) {
		case *ssa.Field:
			return x.X, x.Field, true
		case *ssa.UnOp:
			if fa, ok := x.X.(*ssa.FieldAddr); ok && x.Op == token.MUL {
				if al, ok := fa.X.(*ssa.Alloc); ok {
					for _, ref := range *al.Referrers() {
						if st, ok := ref.(*ssa.Store); ok && st.Addr == ssa.Value(al) {
							if p, isP := st.Val.(*ssa.Parameter); isP {
								return p, fa.Field, true
							}
						}
					}
				}
			}
		}
		return nil, 0, false
	}
	x0, fi0, ok0 := fieldOfParam(parts[0])
	x2, fi2, ok2 := fieldOfParam(parts[2])
	if !ok0 || !ok2 || x0 != x2 {
		return "", "", false
	}
	f0 := struct{ Field int }{fi0}
	f2 := struct{ Field int }{fi2}
	pi := -1
	for i, p := range h.Params {
		if ssa.Value(p) == x0 {
			pi = i
		}
	}
	if pi < 0 || pi >= len(c.Call.Args) {
		return "", "", false
	}
	ld, ok := c.Call.Args[pi].(*ssa.UnOp)
	if !ok {
		return "", "", false
	}
	lit, ok := ld.X.(*ssa.Alloc)
	if !ok {
		return "", "", false
	}
	field := func(i int) (string, bool) {
		val, n := "", 0
		for _, ref := range *lit.Referrers() {
			fa, ok := ref.(*ssa.FieldAddr)
			if !ok || fa.Field != i {
				continue
			}
			for _, u := range *fa.Referrers() {
				if st, ok := u.(*ssa.Store); ok && st.Addr == ssa.Value(fa) {
					s, isS := constString(st.Val)
					if !isS {
						return "", false
					}
					val = s
					n++
				}
			}
		}
		return val, n == 1
	}
	o, okO := field(f0.Field)
	cl, okC := field(f2.Field)
	return o, cl, okO && okC
}

// onReadError: block b is reached only through the true outcome of a comparison of an error value (the line
// reader's err == ErrInterrupt, err == io.EOF, err != nil).
func onReadError(b *ssa.BasicBlock, to ...*ssa.BasicBlock) bool {
	atoms := knownConds(b)
	// the edge b -> to taken straight from b's own test
	if iff := blockIf(b); iff != nil && len(to) == 1 {
		if b.Succs[0] == to[0] && b.Succs[1] != to[0] {
			atoms = append(atoms, valueConds(iff.Cond, true)...)
		} else if b.Succs[1] == to[0] && b.Succs[0] != to[0] {
			atoms = append(atoms, valueConds(iff.Cond, false)...)
		}
	}
	for _, a := range atoms {
		bo, ok := a.v.(*ssa.BinOp)
		if !ok || (bo.Op != token.EQL && bo.Op != token.NEQ) {
			continue
		}
		if !isErrorType(bo.X.Type()) && !isErrorType(bo.Y.Type()) {
			continue
		}
		// err == X taken, or err != nil taken
		if (bo.Op == token.EQL && a.pol && !isNilConst(bo.Y) && !isNilConst(bo.X)) || (bo.Op == token.NEQ && a.pol && (isNilConst(bo.Y) || isNilConst(bo.X))) || (bo.Op == token.EQL && !a.pol && (isNilConst(bo.Y) || isNilConst(bo.X))) {
			return true
		}
	}
	return false
}

// errTemplateMaker: fn is a one-block function of the module with one result, an error, made by errors.New from a
// concatenation in which exactly one part is a parameter of fn: the parts, and that parameter's index.
func errTemplateMaker(fn *ssa.Function) ([]ssa.Value, int, bool) {
	if fn == nil || len(fn.Blocks) != 1 || !inModule(fn) || fn.Signature.Results().Len() != 1 || !isErrorType(fn.Signature.Results().At(0).Type()) {
		return nil, 0, false
	}
	for _, in := range fn.Blocks[0].Instrs {
		c, ok := in.(*ssa.Call)
		if !ok || c.Call.StaticCallee() == nil || c.Call.StaticCallee().Name() != "New" || fnPkgPath(c.Call.StaticCallee()) != "errors" {
			continue
		}
		parts := concatParts(c.Call.Args[0])
		pi, np := -1, 0
		for _, p := range parts {
			if q, ok := p.(*ssa.Parameter); ok {
				np++
				for i, fp := range fn.Params {
					if fp == q {
						pi = i
					}
				}
			}
		}
		if np == 1 && pi >= 0 && len(parts) > 1 {
			return parts, pi, true
		}
	}
	return nil, 0, false
}
