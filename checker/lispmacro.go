package main

// Compile-time view of the library macros of the embedded headers: a small
// symbolic macro expander (the operands are opaque symbols, nothing of the
// program is run) used to decide where the operands of cond / and / or end up
// in the expansion. C08.lisp: the last operand (for cond: every branch value)
// must land in tail position of the special forms it expands to, otherwise a
// loop that recurses through the macro grows the host stack.

import (
	"fmt"
	"go/token"
	"sort"
	"strconv"
	"strings"
)

type lfn struct {
	params *sx
	body   []*sx
	env    *lenv
}

type lenv struct {
	vars  map[string]interface{}
	outer *lenv
}

func (e *lenv) get(k string) (interface{}, bool) {
	for x := e; x != nil; x = x.outer {
		if v, ok := x.vars[k]; ok {
			return v, true
		}
	}
	return nil, false
}

type macroWorld struct {
	macros map[string]*lfn
	gens   int
	steps  int
}

func symSx(s string) *sx   { return &sx{kind: "sym", text: s} }
func listSx(it ...*sx) *sx { return &sx{kind: "list", items: it} }
func boolSx(b bool) *sx {
	if b {
		return symSx("true")
	}
	return symSx("false")
}
func isNilSx(v interface{}) bool {
	s, ok := v.(*sx)
	return v == nil || (ok && s.kind == "sym" && s.text == "nil")
}
func truthy(v interface{}) bool {
	if isNilSx(v) {
		return false
	}
	if s, ok := v.(*sx); ok && s.kind == "sym" && s.text == "false" {
		return false
	}
	return true
}
func seqItems(v interface{}) ([]*sx, bool) {
	if isNilSx(v) {
		return nil, true
	}
	s, ok := v.(*sx)
	if !ok || (s.kind != "list" && s.kind != "vector") {
		return nil, false
	}
	return s.items, true
}
func numOf(v interface{}) (int, bool) {
	s, ok := v.(*sx)
	if !ok || s.kind != "num" {
		return 0, false
	}
	n, err := strconv.Atoi(s.text)
	return n, err == nil
}
func numSx(n int) *sx { return &sx{kind: "num", text: strconv.Itoa(n)} }

func sxEqual(a, b interface{}) bool {
	x, ok1 := a.(*sx)
	y, ok2 := b.(*sx)
	if !ok1 || !ok2 {
		return isNilSx(a) && isNilSx(b)
	}
	if (x.kind == "list" || x.kind == "vector") && (y.kind == "list" || y.kind == "vector") {
		if len(x.items) != len(y.items) {
			return false
		}
		for i := range x.items {
			if !sxEqual(x.items[i], y.items[i]) {
				return false
			}
		}
		return true
	}
	return x.kind == y.kind && x.text == y.text
}

func (mw *macroWorld) eval(s *sx, env *lenv) (interface{}, error) {
	mw.steps++
	if mw.steps > 20000 {
		return nil, fmt.Errorf("expansion does not terminate")
	}
	switch s.kind {
	case "num", "str", "kw":
		return s, nil
	case "sym":
		switch s.text {
		case "true", "false", "nil":
			return s, nil
		}
		if v, ok := env.get(s.text); ok {
			return v, nil
		}
		return nil, fmt.Errorf("unbound symbol %s", s.text)
	case "vector":
		out := &sx{kind: "vector"}
		for _, it := range s.items {
			v, err := mw.eval(it, env)
			if err != nil {
				return nil, err
			}
			vs, ok := v.(*sx)
			if !ok {
				return nil, fmt.Errorf("function value inside a vector literal")
			}
			out.items = append(out.items, vs)
		}
		return out, nil
	case "list":
	default:
		return s, nil
	}
	if len(s.items) == 0 {
		return s, nil
	}
	switch s.head() {
	case "quote":
		return s.items[1], nil
	case "quasiquote":
		return mw.qq(s.items[1], env)
	case "if":
		c, err := mw.eval(s.items[1], env)
		if err != nil {
			return nil, err
		}
		if truthy(c) {
			return mw.eval(s.items[2], env)
		}
		if len(s.items) > 3 {
			return mw.eval(s.items[3], env)
		}
		return symSx("nil"), nil
	case "do":
		var last interface{} = symSx("nil")
		for _, it := range s.items[1:] {
			v, err := mw.eval(it, env)
			if err != nil {
				return nil, err
			}
			last = v
		}
		return last, nil
	case "let":
		ne := &lenv{vars: map[string]interface{}{}, outer: env}
		bs := s.items[1].items
		for i := 0; i+1 < len(bs); i += 2 {
			v, err := mw.eval(bs[i+1], ne)
			if err != nil {
				return nil, err
			}
			ne.vars[bs[i].text] = v
		}
		var last interface{} = symSx("nil")
		for _, it := range s.items[2:] {
			v, err := mw.eval(it, ne)
			if err != nil {
				return nil, err
			}
			last = v
		}
		return last, nil
	case "fn":
		return &lfn{params: s.items[1], body: s.items[2:], env: env}, nil
	}
	if m, ok := mw.macros[s.head()]; ok {
		exp, err := mw.apply(m, s.items[1:])
		if err != nil {
			return nil, err
		}
		es, ok := exp.(*sx)
		if !ok {
			return nil, fmt.Errorf("macro %s expands to a function value", s.head())
		}
		return mw.eval(es, env)
	}
	// application
	var args []interface{}
	for _, it := range s.items[1:] {
		v, err := mw.eval(it, env)
		if err != nil {
			return nil, err
		}
		args = append(args, v)
	}
	if s.items[0].kind == "sym" {
		if v, ok := env.get(s.items[0].text); ok {
			if f, ok := v.(*lfn); ok {
				return mw.applyVals(f, args)
			}
		}
		return mw.builtin(s.items[0].text, args)
	}
	hv, err := mw.eval(s.items[0], env)
	if err != nil {
		return nil, err
	}
	if f, ok := hv.(*lfn); ok {
		return mw.applyVals(f, args)
	}
	return nil, fmt.Errorf("cannot apply %v", s.items[0].text)
}

func (mw *macroWorld) apply(f *lfn, forms []*sx) (interface{}, error) {
	var args []interface{}
	for _, a := range forms {
		args = append(args, a)
	}
	return mw.applyVals(f, args)
}

func (mw *macroWorld) applyVals(f *lfn, args []interface{}) (interface{}, error) {
	ne := &lenv{vars: map[string]interface{}{}, outer: f.env}
	ps := f.params.items
	for i := 0; i < len(ps); i++ {
		if ps[i].text == "&" {
			rest := &sx{kind: "list"}
			for _, a := range args[min(i, len(args)):] {
				as, ok := a.(*sx)
				if !ok {
					return nil, fmt.Errorf("function value in a rest list")
				}
				rest.items = append(rest.items, as)
			}
			if i+1 < len(ps) {
				ne.vars[ps[i+1].text] = rest
			}
			break
		}
		if i >= len(args) {
			return nil, fmt.Errorf("too few arguments")
		}
		ne.vars[ps[i].text] = args[i]
	}
	var last interface{} = symSx("nil")
	for _, b := range f.body {
		v, err := mw.eval(b, ne)
		if err != nil {
			return nil, err
		}
		last = v
	}
	return last, nil
}

func min(a, b int) int {
	if a < b {
		return a
	}
	return b
}

func (mw *macroWorld) qq(t *sx, env *lenv) (interface{}, error) {
	switch t.kind {
	case "list", "vector":
		if t.kind == "list" && t.head() == "unquote" && len(t.items) == 2 {
			return mw.eval(t.items[1], env)
		}
		out := &sx{kind: t.kind}
		for _, it := range t.items {
			if it.kind == "list" && it.head() == "splice-unquote" && len(it.items) == 2 {
				v, err := mw.eval(it.items[1], env)
				if err != nil {
					return nil, err
				}
				items, ok := seqItems(v)
				if !ok {
					return nil, fmt.Errorf("splice of a non-sequence")
				}
				out.items = append(out.items, items...)
				continue
			}
			v, err := mw.qq(it, env)
			if err != nil {
				return nil, err
			}
			vs, ok := v.(*sx)
			if !ok {
				return nil, fmt.Errorf("function value in a template")
			}
			out.items = append(out.items, vs)
		}
		return out, nil
	}
	return t, nil
}

func (mw *macroWorld) builtin(name string, args []interface{}) (interface{}, error) {
	need := func(n int) error {
		if len(args) < n {
			return fmt.Errorf("%s: too few arguments", name)
		}
		return nil
	}
	switch name {
	case "count":
		if err := need(1); err != nil {
			return nil, err
		}
		it, ok := seqItems(args[0])
		if !ok {
			return nil, fmt.Errorf("count of a non-sequence")
		}
		return numSx(len(it)), nil
	case "empty?":
		if err := need(1); err != nil {
			return nil, err
		}
		it, ok := seqItems(args[0])
		if !ok {
			return nil, fmt.Errorf("empty? of a non-sequence")
		}
		return boolSx(len(it) == 0), nil
	case "first":
		if err := need(1); err != nil {
			return nil, err
		}
		it, ok := seqItems(args[0])
		if !ok {
			return nil, fmt.Errorf("first of a non-sequence")
		}
		if len(it) == 0 {
			return symSx("nil"), nil
		}
		return it[0], nil
	case "rest":
		if err := need(1); err != nil {
			return nil, err
		}
		it, ok := seqItems(args[0])
		if !ok {
			return nil, fmt.Errorf("rest of a non-sequence")
		}
		if len(it) == 0 {
			return listSx(), nil
		}
		return listSx(it[1:]...), nil
	case "nth":
		if err := need(2); err != nil {
			return nil, err
		}
		it, ok := seqItems(args[0])
		n, ok2 := numOf(args[1])
		if !ok || !ok2 || n < 0 || n >= len(it) {
			return nil, fmt.Errorf("nth out of range")
		}
		return it[n], nil
	case "list":
		out := listSx()
		for _, a := range args {
			as, ok := a.(*sx)
			if !ok {
				return nil, fmt.Errorf("function value in a list")
			}
			out.items = append(out.items, as)
		}
		return out, nil
	case "cons":
		if err := need(2); err != nil {
			return nil, err
		}
		it, ok := seqItems(args[1])
		h, ok2 := args[0].(*sx)
		if !ok || !ok2 {
			return nil, fmt.Errorf("cons onto a non-sequence")
		}
		return listSx(append([]*sx{h}, it...)...), nil
	case "concat":
		out := listSx()
		for _, a := range args {
			it, ok := seqItems(a)
			if !ok {
				return nil, fmt.Errorf("concat of a non-sequence")
			}
			out.items = append(out.items, it...)
		}
		return out, nil
	case "gensym":
		mw.gens++
		return symSx(fmt.Sprintf("G__%d", mw.gens)), nil
	case "not":
		if err := need(1); err != nil {
			return nil, err
		}
		return boolSx(!truthy(args[0])), nil
	case "nil?":
		if err := need(1); err != nil {
			return nil, err
		}
		return boolSx(isNilSx(args[0])), nil
	case "=":
		if err := need(2); err != nil {
			return nil, err
		}
		return boolSx(sxEqual(args[0], args[1])), nil
	case "<", ">", "<=", ">=", "+", "-":
		if err := need(2); err != nil {
			return nil, err
		}
		a, ok1 := numOf(args[0])
		b, ok2 := numOf(args[1])
		if !ok1 || !ok2 {
			return nil, fmt.Errorf("%s on non-numbers", name)
		}
		switch name {
		case "<":
			return boolSx(a < b), nil
		case ">":
			return boolSx(a > b), nil
		case "<=":
			return boolSx(a <= b), nil
		case ">=":
			return boolSx(a >= b), nil
		case "+":
			return numSx(a + b), nil
		}
		return numSx(a - b), nil
	case "map":
		if err := need(2); err != nil {
			return nil, err
		}
		f, ok := args[0].(*lfn)
		it, ok2 := seqItems(args[1])
		if !ok || !ok2 {
			return nil, fmt.Errorf("map of a builtin or over a non-sequence is not modelled")
		}
		out := listSx()
		for _, x := range it {
			v, err := mw.applyVals(f, []interface{}{x})
			if err != nil {
				return nil, err
			}
			vs, ok := v.(*sx)
			if !ok {
				return nil, fmt.Errorf("function value in the result of map")
			}
			out.items = append(out.items, vs)
		}
		return out, nil
	case "str":
		text := ""
		for _, a := range args {
			as, ok := a.(*sx)
			if !ok || (as.kind != "sym" && as.kind != "str" && as.kind != "num" && as.kind != "kw") {
				return nil, fmt.Errorf("str of a compound value is not modelled")
			}
			text += as.text
		}
		return &sx{kind: "str", text: text}, nil
	case "keyword":
		if err := need(1); err != nil {
			return nil, err
		}
		as, ok := args[0].(*sx)
		if !ok {
			return nil, fmt.Errorf("keyword of a function value")
		}
		return &sx{kind: "kw", text: ":" + strings.TrimPrefix(as.text, ":")}, nil
	case "list?", "vector?", "symbol?", "sequential?":
		if err := need(1); err != nil {
			return nil, err
		}
		as, ok := args[0].(*sx)
		if !ok {
			return boolSx(false), nil
		}
		switch name {
		case "list?":
			return boolSx(as.kind == "list"), nil
		case "vector?":
			return boolSx(as.kind == "vector"), nil
		case "symbol?":
			return boolSx(as.kind == "sym" && as.text != "nil" && as.text != "true" && as.text != "false"), nil
		}
		return boolSx(as.kind == "list" || as.kind == "vector"), nil
	case "throw":
		return nil, fmt.Errorf("throw during expansion")
	}
	return nil, fmt.Errorf("builtin %s is not modelled by the macro expander", name)
}

// contains: does form f mention symbol t anywhere?
func containsSym(f *sx, t string) bool {
	found := false
	f.walk(func(x *sx) {
		if x.kind == "sym" && x.text == t {
			found = true
		}
	})
	return found
}

// nonTail: a description of a non-tail occurrence of symbol t in the full expansion of f, or "".
func (mw *macroWorld) nonTail(f *sx, t string, depth int) (string, error) {
	if depth > 40 {
		return "", fmt.Errorf("expansion too deep")
	}
	if f.kind != "list" || len(f.items) == 0 {
		if f.kind != "sym" && containsSym(f, t) {
			return "inside a " + f.kind + " literal", nil
		}
		return "", nil
	}
	h := f.head()
	if m, ok := mw.macros[h]; ok {
		exp, err := mw.apply(m, f.items[1:])
		if err != nil {
			return "", fmt.Errorf("expanding (%s …): %v", h, err)
		}
		es, ok := exp.(*sx)
		if !ok {
			return "", fmt.Errorf("macro %s expands to a function value", h)
		}
		return mw.nonTail(es, t, depth+1)
	}
	switch h {
	case "if":
		if len(f.items) > 1 && containsSym(f.items[1], t) {
			return "in the condition of an if", nil
		}
		for _, br := range f.items[2:] {
			if s, err := mw.nonTail(br, t, depth+1); s != "" || err != nil {
				return s, err
			}
		}
		return "", nil
	case "let":
		if len(f.items) > 1 {
			bs := f.items[1].items
			for i := 1; i < len(bs); i += 2 {
				if containsSym(bs[i], t) {
					return "in a binding value of a let", nil
				}
			}
		}
		fallthrough
	case "do":
		start := 1
		if h == "let" {
			start = 2
		}
		body := f.items[min(start, len(f.items)):]
		for i, b := range body {
			if i < len(body)-1 {
				if containsSym(b, t) {
					return "in a non-final body form", nil
				}
			} else {
				return mw.nonTail(b, t, depth+1)
			}
		}
		return "", nil
	case "quote":
		return "", nil
	}
	if h == t {
		// the call of t itself is the tail call; t must not also occur among its arguments
		for _, a := range f.items[1:] {
			if containsSym(a, t) {
				return "as an argument of (" + h + " …)", nil
			}
		}
		return "", nil
	}
	if containsSym(f, t) {
		return "as an argument of (" + h + " …)", nil
	}
	return "", nil
}

// macroTailRule is C08.lisp.
func macroTailRule(w *World, r *Report, rule string) {
	r.rule(rule, "in the expansion of the library macros cond, and, or, -> and ->> (computed by a symbolic macro expander over the embedded headers, operands opaque) the last operand - for cond every branch value, for the threading macros the call of the last step - sits in tail position of the if/let/do forms it expands to")
	files, err := w.lispFiles()
	if err != nil {
		r.undecided(rule, nil, "lisp headers", token.NoPos, err.Error())
		return
	}
	mw := &macroWorld{macros: map[string]*lfn{}}
	where := map[string]string{}
	root := &lenv{vars: map[string]interface{}{}}
	type mdef struct {
		fn    *lfn
		where string
	}
	defs := map[string][]mdef{}
	for _, f := range files {
		for _, form := range f.forms {
			form.walk(func(s *sx) {
				// plain function definitions of the headers are available to the macros (reduce, _iter-> …)
				if s.head() == "def" && len(s.items) == 3 && s.items[1].kind == "sym" && s.items[2].head() == "fn" && len(s.items[2].items) >= 3 {
					if _, dup := root.vars[s.items[1].text]; !dup {
						root.vars[s.items[1].text] = &lfn{params: s.items[2].items[1], body: s.items[2].items[2:], env: root}
					}
				}
				if s.head() == "defmacro" && len(s.items) == 3 && s.items[1].kind == "sym" && s.items[2].head() == "fn" && len(s.items[2].items) >= 3 {
					d := mdef{&lfn{params: s.items[2].items[1], body: s.items[2].items[2:], env: root}, f.path + ":" + s.items[1].text}
					defs[s.items[1].text] = append(defs[s.items[1].text], d)
					mw.macros[s.items[1].text] = d.fn
					where[s.items[1].text] = d.where
				}
			})
		}
	}
	type tcase struct {
		macro   string
		form    *sx
		targets []string
	}
	var cases []tcase
	ops := func(n int) []*sx {
		var out []*sx
		for i := 0; i < n; i++ {
			out = append(out, symSx(fmt.Sprintf("operand%d", i+1)))
		}
		return out
	}
	// the thorough tier expands longer forms
	maxOps, maxCond, maxSteps := 4, 3, 3
	if r.Tier == "thorough" {
		maxOps, maxCond, maxSteps = 9, 7, 7
	}
	for _, name := range []string{"and", "or"} {
		for n := 1; n <= maxOps; n++ {
			o := ops(n)
			cases = append(cases, tcase{name, listSx(append([]*sx{symSx(name)}, o...)...), []string{o[n-1].text}})
		}
	}
	for n := 1; n <= maxCond; n++ {
		var items []*sx
		var targets []string
		for i := 0; i < n; i++ {
			items = append(items, symSx(fmt.Sprintf("test%d", i+1)), symSx(fmt.Sprintf("value%d", i+1)))
			targets = append(targets, fmt.Sprintf("value%d", i+1))
		}
		cases = append(cases, tcase{"cond", listSx(append([]*sx{symSx("cond")}, items...)...), targets})
	}
	// threading macros: the last step is the call the whole form becomes
	for _, name := range []string{"->", "->>"} {
		for nsteps := 1; nsteps <= maxSteps; nsteps++ {
			items := []*sx{symSx(name), symSx("start")}
			for i := 1; i < nsteps; i++ {
				items = append(items, listSx(symSx(fmt.Sprintf("step%d", i)), symSx(fmt.Sprintf("arg%d", i))))
			}
			items = append(items, listSx(symSx("laststep"), symSx("lastarg")))
			cases = append(cases, tcase{name, listSx(items...), []string{"laststep"}})
		}
		// a bare symbol as the last step
		cases = append(cases, tcase{name, listSx(symSx(name), symSx("start"), listSx(symSx("step1")), symSx("laststep")), []string{"laststep"}})
	}
	// functions generated by defprotocol: a method of fixed arity is a direct call of the implementation it
	// looks up (a method declared with & has to go through apply)
	if dp, ok := mw.macros["defprotocol"]; ok {
		mw.steps, mw.gens = 0, 0
		form := []*sx{symSx("Proto"),
			listSx(symSx("method1"), &sx{kind: "vector", items: []*sx{symSx("this")}}),
			listSx(symSx("method2"), &sx{kind: "vector", items: []*sx{symSx("this"), symSx("arg")}})}
		exp, err := mw.apply(dp, form)
		es, _ := exp.(*sx)
		switch {
		case err != nil || es == nil:
			msg := "the expansion is not a form"
			if err != nil {
				msg = err.Error()
			}
			r.addRaw(rule, where["defprotocol"], "(defprotocol …) generated methods", where["defprotocol"], "undecided", "the symbolic expander cannot expand this macro: "+msg)
		default:
			found := 0
			es.walk(func(d *sx) {
				if d.head() != "def" || len(d.items) != 3 || d.items[2].head() != "fn" || len(d.items[2].items) < 3 {
					return
				}
				found++
				body := d.items[2].items[len(d.items[2].items)-1]
				status, detail := "discharged", "the generated body is a direct call of the looked-up implementation"
				switch body.head() {
				case "apply", "map", "eval", "swap!", "reduce":
					status, detail = "violated", "the generated body of a fixed-arity method calls the implementation through ("+body.head()+" …): the builtin re-enters the evaluator, so a loop running through protocol methods grows the host stack"
				}
				r.addRaw(rule, where["defprotocol"], "method "+d.items[1].text+" generated by defprotocol", where["defprotocol"], status, detail)
			})
			if found == 0 {
				r.addRaw(rule, where["defprotocol"], "(defprotocol …) generated methods", where["defprotocol"], "undecided", "no (def name (fn …)) found in the expansion")
			}
		}
	}
	n := 0
	for _, c := range cases {
		if _, ok := mw.macros[c.macro]; !ok {
			r.addRaw(rule, "-", "macro "+c.macro, "-", "undecided", "macro not defined in the embedded headers")
			continue
		}
		// every definition of the macro (cond is defined in the header and in bootstrap.lisp) is checked
		for _, d := range defs[c.macro] {
			mw.macros[c.macro] = d.fn
			where[c.macro] = d.where
			for _, t := range c.targets {
				n++
				mw.steps, mw.gens = 0, 0
				construct := fmt.Sprintf("(%s …) with %d operands: %s", c.macro, len(c.form.items)-1, t)
				s, err := mw.nonTail(c.form, t, 0)
				switch {
				case err != nil:
					r.addRaw(rule, where[c.macro], construct, where[c.macro], "undecided", "the symbolic expander cannot expand this macro: "+err.Error())
				case s != "":
					r.addRaw(rule, where[c.macro], construct, where[c.macro], "violated", "the operand ends up "+s+": it is evaluated by a nested EVAL, so a loop recursing through it grows the host stack")
				default:
					r.addRaw(rule, where[c.macro], construct, where[c.macro], "discharged", "in tail position of the expansion")
				}
			}
		}
	}
	r.floor(rule, "operand positions checked in cond/and/or", n, 10)
}

// headerMacros loads the function and macro definitions of the embedded headers into a macro world.
func headerMacros(w *World) (*macroWorld, map[string]string, error) {
	files, err := w.lispFiles()
	if err != nil {
		return nil, nil, err
	}
	mw := &macroWorld{macros: map[string]*lfn{}}
	where := map[string]string{}
	root := &lenv{vars: map[string]interface{}{}}
	for _, f := range files {
		for _, form := range f.forms {
			form.walk(func(s *sx) {
				if s.head() == "def" && len(s.items) == 3 && s.items[1].kind == "sym" && s.items[2].head() == "fn" && len(s.items[2].items) >= 3 {
					if _, dup := root.vars[s.items[1].text]; !dup {
						root.vars[s.items[1].text] = &lfn{params: s.items[2].items[1], body: s.items[2].items[2:], env: root}
					}
				}
				if s.head() == "defmacro" && len(s.items) == 3 && s.items[1].kind == "sym" && s.items[2].head() == "fn" && len(s.items[2].items) >= 3 {
					mw.macros[s.items[1].text] = &lfn{params: s.items[2].items[1], body: s.items[2].items[2:], env: root}
					where[s.items[1].text] = f.path + ":" + s.items[1].text
				}
			})
		}
	}
	return mw, where, nil
}

// macroNeededRule: the names the embedded headers add to the vocabulary are function values unless they have to
// be macros. A macro of fixed arity whose expansion evaluates each operand exactly once, unconditionally, in
// operand order and before any call - and uses none of them any other way - does nothing a function could not do; as a macro it
// still works when called by name, but handed to map/apply or returned from an expression it runs as the
// expander and gives back the form instead of the value.
func macroNeededRule(w *World, r *Report, rule string) {
	r.rule(rule, "every macro of the embedded headers needs to be one: expanding it over opaque operands (symbolic expander, nothing is run) does not give a form that merely evaluates each operand once, unconditionally, in order and before any call is made - such a name is part of the function vocabulary and must stay a function value (usable through map, apply and as the result of an expression)")
	mw, where, err := headerMacros(w)
	if err != nil {
		r.undecided(rule, nil, "lisp headers", token.NoPos, err.Error())
		return
	}
	var names []string
	for n := range mw.macros {
		names = append(names, n)
	}
	sortStrings(names)
	n := 0
	for _, name := range names {
		m := mw.macros[name]
		fixed := m.params != nil && len(m.params.items) > 0
		var ops []*sx
		if m.params != nil {
			for i, p := range m.params.items {
				if p.kind != "sym" || p.text == "&" {
					fixed = false
				}
				ops = append(ops, symSx(fmt.Sprintf("operand%d", i+1)))
			}
		}
		n++
		if !fixed {
			r.addRaw(rule, where[name], "macro "+name, where[name], "discharged", "takes a variable number of operands (or none): its operands are forms it arranges")
			continue
		}
		mw.steps, mw.gens = 0, 0
		exp, err := mw.apply(m, ops)
		es, _ := exp.(*sx)
		if err != nil || es == nil {
			r.addRaw(rule, where[name], "macro "+name, where[name], "discharged", "the expansion is computed from the operand forms (the symbolic expander cannot reduce it to one template): not a plain call")
			continue
		}
		var order []string
		early := false
		other := map[string]bool{}
		isOp := func(s string) bool { return strings.HasPrefix(s, "operand") }
		var all func(s *sx)
		all = func(s *sx) {
			s.walk(func(d *sx) {
				if d.kind == "sym" && isOp(d.text) {
					other[d.text] = true
				}
			})
		}
		var walk func(s *sx)
		walk = func(s *sx) {
			switch s.kind {
			case "sym":
				if isOp(s.text) {
					order = append(order, s.text)
				}
			case "vector":
				for _, it := range s.items {
					walk(it)
				}
			case "list":
				if s.macro != "" && s.macro != "deref" {
					all(s)
					return
				}
				h := s.head()
				_, isMacro := mw.macros[h]
				switch {
				case len(s.items) == 0:
				case h == "if" && len(s.items) >= 2:
					walk(s.items[1])
					for _, it := range s.items[2:] {
						all(it)
					}
				case h == "do":
					for _, it := range s.items[1:] {
						walk(it)
					}
				case h == "let" && len(s.items) >= 2 && (s.items[1].kind == "list" || s.items[1].kind == "vector"):
					for i, it := range s.items[1].items {
						if i%2 == 0 {
							all(it)
						} else {
							walk(it)
						}
					}
					for _, it := range s.items[2:] {
						walk(it)
					}
				case isMacro || h == "quote" || h == "quasiquote" || h == "fn" || h == "try" || h == "catch" || h == "def" || h == "defmacro" || h == "macroexpand" || h == "unquote" || h == "splice-unquote":
					all(s)
				default:
					for _, it := range s.items {
						walk(it)
					}
					if len(order) < len(ops) {
						early = true // a call is made before the last operand is evaluated: a function would evaluate the operands first
					}
				}
			default:
				all(s)
			}
		}
		walk(es)
		plain := len(order) == len(ops) && len(other) == 0 && !early
		for i := range order {
			if plain && order[i] != ops[i].text {
				plain = false
			}
		}
		if plain {
			r.addRaw(rule, where[name], "macro "+name, where[name], "violated", "the expansion "+es.String()+" evaluates every operand exactly once, unconditionally and in order: the macro does what a function does, but as a value (through map, apply, or as the result of an operator expression) it returns the form instead of the result")
		} else {
			r.addRaw(rule, where[name], "macro "+name, where[name], "discharged", "an operand is used unevaluated, conditionally, repeatedly, out of order or after a call in "+cut(es.String(), 80))
		}
	}
	r.floor(rule, "macros of the embedded headers", n, 5)
}

func sortStrings(s []string) { sort.Strings(s) }

func cut(s string, n int) string {
	if len([]rune(s)) > n {
		return string([]rune(s)[:n]) + "…"
	}
	return s
}

// String renders a form for messages.
func (s *sx) String() string {
	if s == nil {
		return "nil"
	}
	open, close := "(", ")"
	switch s.kind {
	case "list":
	case "vector":
		open, close = "[", "]"
	case "map":
		open, close = "{", "}"
	case "set":
		open, close = "#{", "}"
	default:
		return s.text
	}
	var parts []string
	for _, it := range s.items {
		parts = append(parts, it.String())
	}
	return open + strings.Join(parts, " ") + close
}

// macroOperandDirectRule (C17): an operand of a library macro is evaluated where the macro call stands, by the
// special forms the macro expands to. An expansion that wraps an operand into a function and hands that
// function to a header function which reaches it through a builtin (apply, map, reduce ...) has the operand's
// error come back through that builtin: the evaluator positions a builtin's error at the call form, which for a
// call written in the header is a line of the header - another module than the program's.
func macroOperandDirectRule(w *World, r *Report, rule string) {
	r.rule(rule, "in the expansion of the library macros and, or, cond, when, if-not (symbolic expander over the embedded headers, operands opaque) no operand is wrapped in a (fn …) that is handed to a function of the headers whose body calls on through apply, map, reduce, swap! or eval: an operand's error does not travel through a builtin call written in the header, where it would be positioned at the header's line")
	mw, where, err := headerMacros(w)
	if err != nil {
		r.undecided(rule, nil, "lisp headers", token.NoPos, err.Error())
		return
	}
	var root *lenv
	for _, m := range mw.macros {
		root = m.env
		break
	}
	via := func(name string) string {
		if root == nil {
			return ""
		}
		seen := map[string]bool{}
		var look func(n string, depth int) string
		look = func(n string, depth int) string {
			v, ok := root.vars[n]
			f, isFn := v.(*lfn)
			if !ok || !isFn || seen[n] || depth > 3 {
				return ""
			}
			seen[n] = true
			found := ""
			for _, b := range f.body {
				b.walk(func(x *sx) {
					if found != "" || x.kind != "list" || len(x.items) == 0 {
						return
					}
					switch h := x.head(); h {
					case "apply", "map", "reduce", "swap!", "eval", "filter":
						found = h
					default:
						if h != n {
							if s := look(h, depth+1); s != "" {
								found = s
							}
						}
					}
				})
			}
			return found
		}
		return look(name, 0)
	}
	var expand func(f *sx, depth int) (*sx, error)
	expand = func(f *sx, depth int) (*sx, error) {
		if depth > 40 {
			return nil, fmt.Errorf("expansion too deep")
		}
		if f == nil || len(f.items) == 0 {
			return f, nil
		}
		if f.kind == "list" {
			if f.head() == "quote" {
				return f, nil
			}
			if m, ok := mw.macros[f.head()]; ok {
				exp, err := mw.apply(m, f.items[1:])
				if err != nil {
					return nil, fmt.Errorf("expanding (%s …): %v", f.head(), err)
				}
				es, ok := exp.(*sx)
				if !ok {
					return nil, fmt.Errorf("macro %s expands to a function value", f.head())
				}
				return expand(es, depth+1)
			}
		}
		out := &sx{kind: f.kind, text: f.text}
		for _, it := range f.items {
			e, err := expand(it, depth+1)
			if err != nil {
				return nil, err
			}
			out.items = append(out.items, e)
		}
		return out, nil
	}
	n := 0
	for _, name := range []string{"and", "or", "cond", "when", "if-not"} {
		if _, ok := mw.macros[name]; !ok {
			continue
		}
		for _, nops := range []int{2, 3, 4} {
			var items []*sx
			var targets []string
			for i := 0; i < nops; i++ {
				t := fmt.Sprintf("operand%d", i+1)
				items = append(items, symSx(t))
				targets = append(targets, t)
			}
			if (name == "if-not" && nops > 3) || (name == "cond" && nops%2 == 1) {
				continue
			}
			mw.steps, mw.gens = 0, 0
			form := listSx(append([]*sx{symSx(name)}, items...)...)
			construct := fmt.Sprintf("(%s …) with %d operands", name, nops)
			exp, err := expand(form, 0)
			if err != nil {
				r.addRaw(rule, where[name], construct, where[name], "undecided", "the symbolic expander cannot expand this macro: "+err.Error())
				continue
			}
			n++
			bad := ""
			exp.walk(func(c *sx) {
				if bad != "" || c.kind != "list" || len(c.items) < 2 || c.items[0].kind != "sym" {
					return
				}
				b := via(c.head())
				if b == "" {
					return
				}
				for _, a := range c.items[1:] {
					if a.head() != "fn" {
						continue
					}
					for _, t := range targets {
						if containsSym(a, t) {
							bad = fmt.Sprintf("%s is wrapped in a function handed to (%s …), which goes on through (%s …)", t, c.head(), b)
						}
					}
				}
			})
			if bad != "" {
				r.addRaw(rule, where[name], construct, where[name], "violated", bad+": an error of the operand comes back through that builtin and is positioned at the builtin's call form in the header, not at the operand in the program")
			} else {
				r.addRaw(rule, where[name], construct, where[name], "discharged", "no operand is handed to a header function inside a function value")
			}
		}
	}
	r.floor(rule, "expansions of library macros examined", n, 6)
}
