package main

// A small s-expression reader for the embedded *.lisp headers (they are source
// too: go:embed). It only needs to recover structure: lists, vectors, maps,
// symbols, strings (with their raw source text), numbers, reader macros.

import (
	"fmt"
	"os"
	"path/filepath"
	"sort"
	"strings"
)

type sx struct {
	kind  string // list | vector | map | set | sym | str | num | kw
	text  string // symbol name / string contents (escapes as written) / number
	items []*sx
	line  int
	macro string // reader macro that produced this list: quote, quasiquote, unquote, splice-unquote, deref, with-meta
}

type LispFileT struct {
	path  string
	forms []*sx
}

type sxReader struct {
	src  []rune
	pos  int
	line int
}

func parseLisp(path string) (*LispFileT, error) {
	b, err := os.ReadFile(path)
	if err != nil {
		return nil, err
	}
	r := &sxReader{src: []rune(string(b)), line: 1}
	lf := &LispFileT{path: path}
	for {
		r.skip()
		if r.pos >= len(r.src) {
			break
		}
		f, err := r.form()
		if err != nil {
			return nil, fmt.Errorf("%s:%d: %v", path, r.line, err)
		}
		lf.forms = append(lf.forms, f)
	}
	return lf, nil
}

func (r *sxReader) skip() {
	for r.pos < len(r.src) {
		c := r.src[r.pos]
		switch {
		case c == '\n':
			r.line++
			r.pos++
		case c == ' ' || c == '\t' || c == '\r' || c == ',':
			r.pos++
		case c == ';':
			for r.pos < len(r.src) && r.src[r.pos] != '\n' {
				r.pos++
			}
		default:
			return
		}
	}
}

func (r *sxReader) form() (*sx, error) {
	r.skip()
	if r.pos >= len(r.src) {
		return nil, fmt.Errorf("unexpected end of file")
	}
	line := r.line
	c := r.src[r.pos]
	wrap := func(name string, n int) (*sx, error) {
		r.pos += n
		inner, err := r.form()
		if err != nil {
			return nil, err
		}
		return &sx{kind: "list", macro: name, line: line, items: []*sx{{kind: "sym", text: name, line: line}, inner}}, nil
	}
	switch {
	case c == '\'':
		return wrap("quote", 1)
	case c == '`':
		return wrap("quasiquote", 1)
	case c == '~' && r.pos+1 < len(r.src) && r.src[r.pos+1] == '@':
		return wrap("splice-unquote", 2)
	case c == '~':
		return wrap("unquote", 1)
	case c == '@':
		return wrap("deref", 1)
	case c == '^':
		r.pos++
		meta, err := r.form()
		if err != nil {
			return nil, err
		}
		inner, err := r.form()
		if err != nil {
			return nil, err
		}
		return &sx{kind: "list", macro: "with-meta", line: line, items: []*sx{{kind: "sym", text: "with-meta", line: line}, inner, meta}}, nil
	case c == '(':
		return r.seq("list", ')', 1)
	case c == '[':
		return r.seq("vector", ']', 1)
	case c == '{':
		return r.seq("map", '}', 1)
	case c == '#' && r.pos+1 < len(r.src) && r.src[r.pos+1] == '{':
		return r.seq("set", '}', 2)
	case c == ')' || c == ']' || c == '}':
		return nil, fmt.Errorf("unexpected %c", c)
	case c == '"':
		start := r.pos + 1
		r.pos++
		for r.pos < len(r.src) && r.src[r.pos] != '"' {
			if r.src[r.pos] == '\\' {
				r.pos++
			}
			if r.pos < len(r.src) && r.src[r.pos] == '\n' {
				r.line++
			}
			r.pos++
		}
		if r.pos >= len(r.src) {
			return nil, fmt.Errorf("unterminated string")
		}
		s := string(r.src[start:r.pos])
		r.pos++
		return &sx{kind: "str", text: s, line: line}, nil
	case c == '¬':
		start := r.pos + 1
		r.pos++
		for r.pos < len(r.src) {
			if r.src[r.pos] == '¬' {
				if r.pos+1 < len(r.src) && r.src[r.pos+1] == '¬' {
					r.pos += 2
					continue
				}
				break
			}
			if r.src[r.pos] == '\n' {
				r.line++
			}
			r.pos++
		}
		if r.pos >= len(r.src) {
			return nil, fmt.Errorf("unterminated raw string")
		}
		s := string(r.src[start:r.pos])
		r.pos++
		return &sx{kind: "str", text: s, line: line}, nil
	}
	start := r.pos
	for r.pos < len(r.src) && !strings.ContainsRune(" \t\r\n,()[]{}\"';`~", r.src[r.pos]) {
		r.pos++
	}
	tok := string(r.src[start:r.pos])
	if tok == "" {
		return nil, fmt.Errorf("unexpected character %q", c)
	}
	switch {
	case tok[0] == ':':
		return &sx{kind: "kw", text: tok, line: line}, nil
	case (tok[0] >= '0' && tok[0] <= '9') || (len(tok) > 1 && tok[0] == '-' && tok[1] >= '0' && tok[1] <= '9'):
		return &sx{kind: "num", text: tok, line: line}, nil
	}
	return &sx{kind: "sym", text: tok, line: line}, nil
}

func (r *sxReader) seq(kind string, closer rune, open int) (*sx, error) {
	out := &sx{kind: kind, line: r.line}
	r.pos += open
	for {
		r.skip()
		if r.pos >= len(r.src) {
			return nil, fmt.Errorf("missing %c", closer)
		}
		if r.src[r.pos] == closer {
			r.pos++
			return out, nil
		}
		f, err := r.form()
		if err != nil {
			return nil, err
		}
		out.items = append(out.items, f)
	}
}

func (s *sx) head() string {
	if s != nil && s.kind == "list" && len(s.items) > 0 && s.items[0].kind == "sym" {
		return s.items[0].text
	}
	return ""
}

func (s *sx) walk(f func(*sx)) {
	if s == nil {
		return
	}
	f(s)
	for _, it := range s.items {
		it.walk(f)
	}
}

// lispFiles: every *.lisp file of the module that a non-test Go file embeds (//go:embed).
func (w *World) lispFiles() ([]*LispFileT, error) {
	var out []*LispFileT
	seen := map[string]bool{}
	for _, pkg := range w.Pkgs {
		if !strings.HasPrefix(pkg.PkgPath, modPath) {
			continue
		}
		for _, file := range pkg.Syntax {
			fname := w.Fset.Position(file.Pos()).Filename
			if strings.HasSuffix(fname, "_test.go") {
				continue
			}
			for _, cg := range file.Comments {
				for _, c := range cg.List {
					if !strings.HasPrefix(c.Text, "//go:embed ") {
						continue
					}
					for _, pat := range strings.Fields(strings.TrimPrefix(c.Text, "//go:embed ")) {
						if !strings.HasSuffix(pat, ".lisp") {
							continue
						}
						full := filepath.Join(filepath.Dir(fname), pat)
						if seen[full] {
							continue
						}
						seen[full] = true
						lf, err := parseLisp(full)
						if err != nil {
							return nil, err
						}
						if rel, err := filepath.Rel(w.Repo, full); err == nil {
							lf.path = rel
						}
						out = append(out, lf)
					}
				}
			}
		}
	}
	sort.Slice(out, func(i, j int) bool { return out[i].path < out[j].path })
	return out, nil
}
