package main

// Audited exemptions: one named construct per line, with the reason it cannot
// panic although no dominating guard inside the function proves it.
// Key: "function | kind construct"; construct is the canonical rendering of the SSA value (parameters
// by position, locals and loop variables anonymous), so renaming or hoisting locals does not change it.

const evalAstShape = "eval_ast returns, with a nil error, a List with exactly one element per element of its List argument (checked separately by C01.order: one append per iteration of a range loop), and the argument was tested non-empty before the dispatch"

var exemptionsC04 = map[string]string{
	`lisp.EVAL | panic Errorf("debugger command not handled %d",&local[:])`:                                     "reached only when a host Stepper callback returns a value outside debuggertypes.Command's declared constants; C18.enum checks the switch covers every declared constant",
	`lisp.EVAL | index eval_ast(p0,macroexpand(p0,φ,φ)#0,φ)#0.(types.List).Val[0]`:                              evalAstShape,
	`lisp.EVAL | slice eval_ast(p0,macroexpand(p0,φ,φ)#0,φ)#0.(types.List).Val[1:]`:                             evalAstShape,
	`lisp.do | slice p1.(types.List).Val[p2:len(p1.(types.List).Val)+p3]`:                                       "every call site passes (from,to) in {(2,-1),(1,-1),(0,0),(0,-1)} with a list that has at least `from` elements (head symbol and binding vector were read by the caller) and the function returned already when len(lst) == from; the call-site constants are checked by C01.body",
	`lisp.do | index eval_ast(p0,local,p4)#0.(types.List).Val[len(eval_ast(p0,local,p4)#0.(types.List).Val)-1]`: evalAstShape + "; the slice evaluated is non-empty because len(lst) != from was tested",
	`lisp.do | index p1.(types.List).Val[len(p1.(types.List).Val)-1]`:                                           "len(lst) > from >= 0 at this point (see the slice above)",
	`env.NewSubordinateEnv | assert p0.(*env.Env)`:                                                              "documented assumption: EnvType values are the module's own *env.Env (the only implementation in the module)",
	`env.NewSubordinateEnvWithBinds | assert p0.(*env.Env)`:                                                     "documented assumption: EnvType values are the module's own *env.Env (the only implementation in the module)",
	`printer.Pr_str | assert p0.(marshaler.HashMap).MarshalHashMap()#0.(types.HashMap)`:                         "contract of marshaler.HashMap implementations (host types); the only in-module implementation, LispError.MarshalHashMap, returns a types.HashMap",
}

const scannerTokens = "tokens of kind String, RawString and Keyword that the trusted scanner returns without raising its error count include their delimiters (\"…\", ¬…¬, :…): unterminated literals make tokenize return 'invalid token' before read_atom runs"

var exemptionsC05 = map[string]string{
	`reader.read_atom | slice next(p0).Value[1:len(next(p0).Value)-1]`:                  scannerTokens,
	`reader.read_atom | slice next(p0).Value[2:len(next(p0).Value)-2]`:                  scannerTokens + "; the lone ¬ is handled by the comparison just above",
	`reader.read_atom | slice next(p0).Value[1:]`:                                       scannerTokens,
	`reader.Read_str | index local.{[]types.Token}[local.{int}-1]`:                      "read_form returned without error, so it consumed at least one token (C05.progress: consume summary of read_form) and next() never moves the cursor past len(tokens)",
	`printer.Pr_str | assert p0.(marshaler.HashMap).MarshalHashMap()#0.(types.HashMap)`: "contract of marshaler.HashMap implementations (host types); the only in-module implementation, LispError.MarshalHashMap, returns a types.HashMap",
}

var exemptionsC03 = map[string]string{
	"lisp.EVAL | fmt.Errorf %s (around %s)": "the operand is the arity error the binder itself just created (neither a thrown value nor a builtin's error; nobody holds the original); the message is rebuilt with the function's head symbol for context",
}

var exemptionsC14 = map[string]string{
	`types.Equal_Q | assert p1.(types.Symbol)`:  "the gate at the top of the function returned false unless reflect.TypeOf(a) == reflect.TypeOf(b) or both are sequential; a Symbol is not sequential, so b has a's dynamic type here (reflection is not modelled by the fact engine; C14.gate checks the gate)",
	`types.Equal_Q | assert p1.(types.HashMap)`: "as above: b has a's dynamic type (HashMap is not sequential)",
	`types.Equal_Q | assert p1.(types.Set)`:     "as above: b has a's dynamic type (Set is not sequential)",
}

var exemptionsC20 = map[string]string{}

var exemptionsC18 = map[string]string{
	`env.NewSubordinateEnvWithBinds | assert p0.(*env.Env)`: "documented assumption: EnvType values are the module's own *env.Env (the only implementation in the module)",
	`env.NewSubordinateEnv | assert p0.(*env.Env)`:          "documented assumption: EnvType values are the module's own *env.Env (the only implementation in the module)",
}
