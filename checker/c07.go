package main

import (
	"fmt"
	"go/constant"
	"go/token"
	"go/types"
	"strings"

	"golang.org/x/tools/go/ssa"
)

// isCtxNilTest: `ctx != nil` / `ctx == nil` on a context value; returns the successor index taken when ctx is nil.
func ctxNilEdge(b *ssa.BasicBlock) (int, bool) {
	iff := blockIf(b)
	if iff == nil {
		return 0, false
	}
	bo, ok := iff.Cond.(*ssa.BinOp)
	if !ok || !(isNilConst(bo.Y) || isNilConst(bo.X)) {
		return 0, false
	}
	x := bo.X
	if isNilConst(bo.X) {
		x = bo.Y
	}
	if !isContext(x.Type()) {
		return 0, false
	}
	if bo.Op == token.NEQ {
		return 1, true
	}
	if bo.Op == token.EQL {
		return 0, true
	}
	return 0, false
}

// isPoll: instruction consults a context derived from the function's own context:
// non-blocking select with a <-ctx.Done() case, or ctx.Err().
func isPoll(e *Engine, in ssa.Instruction) bool {
	switch x := in.(type) {
	case *ssa.Select:
		if x.Blocking {
			return false
		}
		for _, st := range x.States {
			if c, ok := st.Chan.(*ssa.Call); ok && c.Call.IsInvoke() && c.Call.Method.Name() == "Done" && isContext(c.Call.Value.Type()) {
				if _, ok := ctxDerivation(e, c.Call.Value, map[ssa.Value]bool{}); ok {
					return true
				}
			}
		}
	case *ssa.Call:
		if x.Call.IsInvoke() && x.Call.Method.Name() == "Err" && isContext(x.Call.Value.Type()) {
			if _, ok := ctxDerivation(e, x.Call.Value, map[ssa.Value]bool{}); ok {
				return true
			}
		}
		// a module helper that polls the context it is given (on every path that does not test it for nil)
		if callee := x.Call.StaticCallee(); callee != nil && callee.Blocks != nil && strings.HasPrefix(fnPkgPath(callee), modPath) && len(callee.Blocks) <= 8 {
			for i, p := range callee.Params {
				if !isContext(p.Type()) || i >= len(x.Call.Args) {
					continue
				}
				if _, ok := ctxDerivation(e, x.Call.Args[i], map[ssa.Value]bool{}); !ok {
					continue
				}
				if pollsParam(e, callee, p) {
					return true
				}
			}
		}
	}
	return false
}

// pollsParam: every path through fn (ignoring edges taken when the context is nil) passes a poll of parameter p.
func pollsParam(e *Engine, fn *ssa.Function, p *ssa.Parameter) bool {
	isPollOfP := func(b *ssa.BasicBlock) bool {
		for _, in := range b.Instrs {
			switch x := in.(type) {
			case *ssa.Select:
				if x.Blocking {
					continue
				}
				for _, st := range x.States {
					if c, ok := st.Chan.(*ssa.Call); ok && c.Call.IsInvoke() && c.Call.Method.Name() == "Done" && c.Call.Value == ssa.Value(p) {
						return true
					}
				}
			case *ssa.Call:
				if x.Call.IsInvoke() && x.Call.Method.Name() == "Err" && x.Call.Value == ssa.Value(p) {
					return true
				}
			}
		}
		return false
	}
	seen := map[*ssa.BasicBlock]bool{}
	stack := []*ssa.BasicBlock{fn.Blocks[0]}
	for len(stack) > 0 {
		b := stack[len(stack)-1]
		stack = stack[:len(stack)-1]
		if seen[b] || isPollOfP(b) {
			continue
		}
		seen[b] = true
		if len(b.Succs) == 0 {
			return false // reached an exit without polling
		}
		nilIdx, isNilTest := ctxNilEdge(b)
		for i, s := range b.Succs {
			if isNilTest && i == nilIdx {
				continue
			}
			stack = append(stack, s)
		}
	}
	return true
}

// everyLapPasses: every path from the loop header around to a back-edge passes a block satisfying pass,
// not counting edges taken only when a context is nil (documented assumption: contexts are non-nil).
func everyLapPasses(l natLoop, pass func(*ssa.BasicBlock) bool) bool {
	blocks := loopBlocks(l)
	seen := map[*ssa.BasicBlock]bool{}
	var stack []*ssa.BasicBlock
	if pass(l.header) {
		return true
	}
	stack = append(stack, l.header)
	for len(stack) > 0 {
		b := stack[len(stack)-1]
		stack = stack[:len(stack)-1]
		if seen[b] {
			continue
		}
		seen[b] = true
		nilIdx, isNilTest := ctxNilEdge(b)
		for i, s := range b.Succs {
			if isNilTest && i == nilIdx {
				continue
			}
			if !blocks[s] {
				continue
			}
			if s == l.header {
				return false // completed a lap without passing
			}
			if pass(s) {
				continue
			}
			stack = append(stack, s)
		}
	}
	return true
}

func checkC07(w *World, r *Report) {
	m, e := needModel(w, r, "C07.poll")
	if m == nil {
		return
	}
	r.rule("C07.poll", "every loop reachable from the evaluator or a registered builtin is a counted/range loop over data, or passes on every lap a context poll (non-blocking select on <-ctx.Done(), or ctx.Err(), on a context derived from the function's own) or a call that is certain to re-enter the evaluator (EVAL itself, or Apply of a value that can only be a lisp function; the evaluator polls at its loop head)")
	r.rule("C07.block", "every potentially blocking operation reachable from evaluation (blocking select, channel receive, time.Sleep, WaitGroup/Cond wait) is a select that also waits on <-ctx.Done() of the function's own context; sends go to the future's outcome channels whose capacity bounds them (C10.redeposit)")
	r.rule("C07.derive", "every context passed to EVAL, eval_ast, the body helper, macroexpand, Apply, a Func.Fn or a goroutine body is the function's own context parameter or a context.With* child of it, never context.Background()/TODO(); the binder places the adapter's own context in slot 0")
	r.rule("C07.handler", "the try body runs under the outer context or one context.WithTimeout/WithDeadline child of it, while the catch handler and the finally body receive the outer context itself (they can run after a body timeout but are polled under the caller's deadline)")
	r.rule("C07.err-total", "the timeout error built at the poll can be constructed for every form: lisperror.GetPosition has no panicking path")
	// "returns promptly" also on the way out: once the poll has fired, the error climbs through as many levels of
	// the evaluator as the program had nested; each level hands on the very error it received, so the way out
	// costs a constant per level (an error re-made or extended at every level makes the return of a deep
	// recursion take time proportional to the square of the depth)
	r.rule("C07.unwind", "an error coming back from nested evaluation - the cancellation error included - is returned as the same value by every level of the evaluator: nothing is added to it or copied on the way up (shared with C03.propagate)")
	{
		before, beforeF := len(r.Obl), len(r.Floors)
		rulePropagate(m, r)
		for i := before; i < len(r.Obl); i++ {
			if r.Obl[i].Rule == "C03.propagate" {
				r.Obl[i].Rule = "C07.unwind"
			}
		}
		for i := beforeF; i < len(r.Floors); i++ {
			if r.Floors[i].Rule == "C03.propagate" {
				r.Floors[i].Rule = "C07.unwind"
			}
		}
	}
	regs := w.registeredFuncs()
	roots := append(evalEntries(w), regs...)
	roots = append(roots, w.goBodies()...)
	reach := w.reachableFrom(roots)
	p := &progress{w: w, e: e}
	var cands []*ssa.Function
	for _, fn := range w.Funcs {
		if fnPkgPath(fn) == modPath+"/reader" && !isTestFunc(w, fn) {
			cands = append(cands, fn)
		}
	}
	p.solve(cands)
	// a call that is certain to poll the context: EVAL itself (it polls at the top of its loop before anything
	// else), or types.Apply of a value that can only be a lisp function (Apply hands those to EVAL; a host
	// function given to Apply need not poll at all)
	applyFn := w.Fn("types", "Apply")
	evalReach := func(ci ssa.CallInstruction) bool {
		sc := ci.Common().StaticCallee()
		if sc == nil {
			return false
		}
		if sc == m.EVAL {
			return true
		}
		if sc == applyFn && len(ci.Common().Args) >= 2 {
			ts := e.typeSetOf(ci.Common().Args[1], ci.Block(), map[ssa.Value]bool{}, 0)
			if !ts.unknown && !ts.hasNil && len(ts.ts) == 1 {
				if _, name, ok := w.namedStruct(ts.ts[0]); ok && name == "MalFunc" {
					return true
				}
			}
		}
		return false
	}
	nl := 0
	for _, fn := range w.Funcs {
		if !reach[fn] || isTestFunc(w, fn) || !libraryPkg(fnPkgPath(fn)) {
			continue
		}
		for _, l := range naturalLoops(fn) {
			nl++
			pos := token.NoPos
			for b := range loopBlocks(l) {
				for _, in := range b.Instrs {
					if in.Pos().IsValid() && (!pos.IsValid() || in.Pos() < pos) {
						pos = in.Pos()
					}
				}
			}
			construct := "loop " + l.header.Comment
			if class, detail := p.classifyLoop(l); class != "" {
				r.ok("C07.poll", fn, construct, pos, class+": "+detail)
				continue
			}
			polled := everyLapPasses(l, func(b *ssa.BasicBlock) bool {
				for _, in := range b.Instrs {
					if isPoll(e, in) {
						return true
					}
				}
				return false
			})
			if polled {
				r.ok("C07.poll", fn, construct, pos, "context polled on every lap")
				continue
			}
			reenters := everyLapPasses(l, func(b *ssa.BasicBlock) bool {
				for _, in := range b.Instrs {
					if ci, ok := in.(ssa.CallInstruction); ok {
						if _, isDefer := in.(*ssa.Defer); !isDefer && evalReach(ci) {
							return true
						}
					}
				}
				return false
			})
			if reenters {
				r.ok("C07.poll", fn, construct, pos, "every lap re-enters the evaluator, which polls its context")
				continue
			}
			r.bad("C07.poll", fn, construct, pos, "unbounded loop without a context poll on every lap: cancellation cannot stop it")
		}
	}
	r.floor("C07.poll", "loops reachable from evaluation", nl, 20)
	// the evaluator's own loop must be of the polled kind (not merely 'counted')
	okEval := false
	for _, l := range naturalLoops(m.EVAL) {
		if l.header == m.header {
			okEval = everyLapPasses(l, func(b *ssa.BasicBlock) bool {
				for _, in := range b.Instrs {
					if isPoll(e, in) {
						return true
					}
				}
				return false
			})
		}
	}
	r.check(okEval, "C07.poll", m.EVAL, "evaluation loop", m.header.Instrs[0].Pos(), "polls the context at the top of every iteration", "the evaluation loop does not poll the context on every iteration")

	// blocking operations
	nb := 0
	for _, fn := range w.Funcs {
		if !reach[fn] || isTestFunc(w, fn) || !libraryPkg(fnPkgPath(fn)) {
			continue
		}
		for _, b := range fn.Blocks {
			for _, in := range b.Instrs {
				switch x := in.(type) {
				case *ssa.Select:
					if !x.Blocking {
						continue
					}
					nb++
					okSel := false
					for _, st := range x.States {
						if c, ok := st.Chan.(*ssa.Call); ok && c.Call.IsInvoke() && c.Call.Method.Name() == "Done" && isContext(c.Call.Value.Type()) {
							if _, ok := ctxDerivation(e, c.Call.Value, map[ssa.Value]bool{}); ok {
								okSel = true
							}
						}
					}
					r.check(okSel, "C07.block", fn, "blocking select", x.Pos(), "also waits on <-ctx.Done() of the caller's context", "a blocking select does not wait on the caller's context: cancellation cannot interrupt it")
					// nothing is locked while waiting: another caller would queue on the lock (which knows no context)
					// for as long as this one waits
					held := e.locks(fn).before[in]
					r.check(len(held) == 0, "C07.block", fn, "locks held while waiting in a select", x.Pos(), "none", "lock(s) "+held.String()+" are held across a blocking wait: a second caller blocks on the lock until the first one's wait ends, whatever its own context says")
				case *ssa.UnOp:
					if x.Op == token.ARROW {
						nb++
						r.bad("C07.block", fn, "channel receive", x.Pos(), "plain blocking receive outside a select with <-ctx.Done()")
					}
				case *ssa.Send:
					nb++
					r.ok("C07.block", fn, "send "+describeVal(e, x.Chan, 0), x.Pos(), "outcome channel of capacity >= 1 written once per delivery (C10.redeposit)")
				case ssa.CallInstruction:
					callee := x.Common().StaticCallee()
					if callee == nil || callee.Pkg == nil {
						continue
					}
					full := callee.Pkg.Pkg.Path() + "." + callee.Name()
					if callee.Signature.Recv() != nil {
						full = callee.Pkg.Pkg.Path() + "." + shortRecv(callee) + "." + callee.Name()
					}
					switch full {
					case "time.Sleep", "sync.WaitGroup.Wait", "sync.Cond.Wait":
						nb++
						r.bad("C07.block", fn, "call "+full, in.Pos(), "blocks without regard to the context")
					case "bufio.Scanner.Scan":
						nb++
						r.add("C07.block", fn, "call "+full, in.Pos(), "exempt", "terminal input (readline builtin): I/O wait, outside the property's quantifier")
					}
				}
			}
		}
	}
	r.floor("C07.block", "blocking operations reachable from evaluation", nb, 4)

	// derive
	nd := ctxDeriveRule(w, r, e, m, "C07.derive", nil)
	r.floor("C07.derive", "contexts handed to evaluating calls", nd, 15)
	// the binder puts the adapter's ctx in slot 0
	if ac := w.Fn("lib/call", "_args_ctx"); ac != nil {
		okSlot := false
		for _, b := range ac.Blocks {
			for _, in := range b.Instrs {
				if st, ok := in.(*ssa.Store); ok {
					if ia, ok := st.Addr.(*ssa.IndexAddr); ok {
						if k, ok := ia.Index.(*ssa.Const); ok && k.Value != nil && k.Int64() == 0 {
							if c, ok := st.Val.(*ssa.Call); ok && c.Call.StaticCallee() != nil && c.Call.StaticCallee().Name() == "ValueOf" {
								if mi, ok := c.Call.Args[0].(*ssa.MakeInterface); ok && mi.X == ssa.Value(ac.Params[0]) {
									okSlot = true
								}
								if ci, ok := c.Call.Args[0].(*ssa.ChangeInterface); ok && ci.X == ssa.Value(ac.Params[0]) {
									okSlot = true
								}
							}
						}
					}
				}
			}
		}
		r.check(okSlot, "C07.derive", ac, "context injected by the binder", ac.Pos(), "the adapter's own context in slot 0", "the binder does not pass the evaluation's context to context-taking builtins")
	} else {
		r.undecided("C07.derive", nil, "_args_ctx", token.NoPos, "function no longer resolves")
	}

	// locks know no context: whoever waits for a lock waits as long as its holder pleases.  So nothing that can take
	// long - a call back into the evaluator, a channel operation, a sleep - happens while a lock is held, anywhere
	// in the library
	// an evaluation that waits for a lock nobody will release cannot be stopped by its context
	// the deref builtin is the one place where an evaluation waits for another: it waits under the evaluation's own
	// context (or a child of it), so the cancel or the deadline of the evaluation ends the wait
	r.include("C07.deref-", "C10.", "a deref waits for the outcome or until the caller's context ends: the builtin hands Deref the context of the evaluation it runs in, never one with a timer of its own", checkC10, func(rule string) bool {
		return rule == "C10.deref-context"
	})
	r.include("C07.scope-", "C11.", "lookups and definitions on a scope chain never wait for each other forever: every scope has a mutex of its own, locks are taken child before parent and never twice", checkC11, func(rule string) bool {
		switch rule {
		case "C11.own-lock", "C11.no-reentry", "C11.order", "C11.pair":
			return true
		}
		return false
	})
	r.rule("C07.no-reentry", "no function of lib/concurrent acquires a mutex it already holds, or calls with the lock held a function that acquires the mutex of the same object: sync.RWMutex is not re-entrant even for readers, so once a writer queues between the two acquisitions the evaluation waits in a mutex for ever, where no context is looked at")
	nre7 := reentryRule(w, r, e, "C07.no-reentry", w.pkgFuncs("lib/concurrent"))
	r.floor("C07.no-reentry", "calls and acquisitions made with a lock held in lib/concurrent", nre7, 1)
	readerEnvRule(w, r, "C07.reader-env")
	tryShareRule(w, r, e, "C07.try-share")
	// a lock that some path leaves held is waited for, from then on, by every operation on that object, and no
	// wait for a mutex looks at a context
	r.rule("C07.release", "every mutex acquired in lib/concurrent and env is released on every return, by an unlock on the path or by a deferred unlock registered before that return (a lock left held makes every later deref, swap! or lookup wait for ever, whatever its context says)")
	nrel := pairRule(w, r, e, "C07.release", append(append([]*ssa.Function{}, w.pkgFuncs("lib/concurrent")...), w.pkgFuncs("env")...))
	r.floor("C07.release", "lock acquisitions and releases in lib/concurrent and env", nrel, 8)
	r.rule("C07.lock-scope", "no mutex of the library is held across a call that can reach the evaluator, a blocking select, a channel receive or send, or time.Sleep: a second evaluation waiting for that lock cannot be cancelled")
	nls := 0
	for _, fn := range w.Funcs {
		if isTestFunc(w, fn) || !libraryPkg(fnPkgPath(fn)) {
			continue
		}
		li := e.locks(fn)
		if len(li.acquires) == 0 {
			continue
		}
		for _, b := range fn.Blocks {
			for _, in := range b.Instrs {
				held := li.before[in]
				if len(held) == 0 {
					continue
				}
				what := ""
				switch x := in.(type) {
				case *ssa.Select:
					if x.Blocking {
						what = "a blocking select"
					}
				case *ssa.UnOp:
					if x.Op == token.ARROW {
						what = "a channel receive"
					}
				case *ssa.Send:
					what = "a channel send"
				case ssa.CallInstruction:
					if _, isDefer := in.(*ssa.Defer); isDefer {
						continue
					}
					if _, isM := e.mutexOp(x.Common()); isM {
						continue
					}
					if sc := x.Common().StaticCallee(); sc != nil && fnPkgPath(sc) == "time" && sc.Name() == "Sleep" {
						what = "time.Sleep"
					} else if bad, why := w.reachesEval(x); bad {
						what = "a call that " + why
					}
				}
				if what == "" {
					continue
				}
				nls++
				r.bad("C07.lock-scope", fn, what+" under "+held.String(), in.Pos(), "lock(s) "+held.String()+" are held across "+what+": every other evaluation that needs the lock waits for it without regard to its own context")
			}
		}
	}
	r.add("C07.lock-scope", nil, "long operations under a lock in the library", token.NoPos, "info", fmt.Sprintf("%d found", nls))
	singleOutcomeRule(w, r, e, "C07.single-outcome")
	// handler
	if reg, ok := m.regions["try"]; ok {
		nh := 0
		for _, ec := range m.evalCalls() {
			if ec.callee != m.doFn {
				continue
			}
			inTry := reg[ec.call.Block()]
			if ec.fn != m.EVAL {
				// closure of the try form, or a helper called from it?
				inTry = m.regionOf(ec.call.Block()) == "try"
				for b := range reg {
					for _, in := range b.Instrs {
						if mc, ok := in.(*ssa.MakeClosure); ok && mc.Fn == ssa.Value(ec.fn) {
							inTry = true
						}
					}
				}
			}
			if !inTry {
				continue
			}
			nh++
			withs, ok := ctxDerivation(e, ec.ctx, map[ssa.Value]bool{})
			_, isRunner := w.barrierOf(ec.fn)
			switch {
			case !ok:
				r.bad("C07.handler", ec.fn, "context of "+describeCall(e, ec.call, 0), ec.call.Pos(), "not derived from the caller's context")
			case isRunner:
				r.check(len(withs) <= 1, "C07.handler", ec.fn, "context of the try body", ec.call.Pos(), "the outer context or one timeout child of it", "the try body's context is derived through several layers")
			default:
				r.check(len(withs) == 0, "C07.handler", ec.fn, "context of the handler / finally body", ec.call.Pos(), "the outer context itself", "the handler or finally body runs under the body's (possibly expired) child context")
			}
		}
		r.floor("C07.handler", "body/handler/finally evaluations of try", nh, 3)
	}
	// err-total
	if gp := w.Fn("lisperror", "GetPosition"); gp != nil {
		okTotal := true
		for _, b := range gp.Blocks {
			for _, in := range b.Instrs {
				if _, ok := in.(*ssa.Panic); ok {
					okTotal = false
				}
			}
		}
		r.check(okTotal, "C07.err-total", gp, "position lookup", gp.Pos(), "total: no panicking path", "GetPosition panics for some carrier: EVAL of such a form under a cancelled context panics instead of returning the timeout error")
	} else {
		r.undecided("C07.err-total", nil, "GetPosition", token.NoPos, "function no longer resolves")
	}
	r.Assumptions = append(r.Assumptions, "no numeric bound, scheduler latency or duration of a single builtin call on large data is decided; contexts passed by the host are non-nil (the nil tests in EVAL and swap! are treated as always true)")
}

func shortRecv(fn *ssa.Function) string {
	t := fn.Signature.Recv().Type()
	if p, ok := t.(*types.Pointer); ok {
		t = p.Elem()
	}
	if n, ok := t.(*types.Named); ok {
		return n.Obj().Name()
	}
	return t.String()
}

func isEvalSig(sig *types.Signature) bool {
	return sig.Params().Len() == 3 && isContext(sig.Params().At(0).Type()) && sig.Results().Len() == 2
}

func hasNoCtxParam(fn *ssa.Function) bool {
	for f := fn; f != nil; f = f.Parent() {
		for _, p := range f.Params {
			if isContext(p.Type()) {
				return false
			}
		}
	}
	return strings.HasPrefix(fnPkgPath(fn), modPath)
}

// ctxDeriveRule: every context handed to an evaluating call is derived from the caller's own context.
func ctxDeriveRule(w *World, r *Report, e *Engine, m *evalModel, rule string, only func(*ssa.Function) bool) int {
	registered := map[*ssa.Function]bool{}
	for _, f := range w.registeredFuncs() {
		registered[f] = true
	}
	nd := 0
	var reach map[*ssa.Function]bool
	evalReach := func() map[*ssa.Function]bool {
		if reach == nil {
			reach = w.reachableFrom(append(evalEntries(w), w.registeredFuncs()...))
		}
		return reach
	}
	extSig := w.ByPath[modPath+"/types"].Types.Scope().Lookup("ExternalCall").Type().Underlying().(*types.Signature)
	for _, fn := range w.Funcs {
		if isTestFunc(w, fn) || !libraryPkg(fnPkgPath(fn)) || (only != nil && !only(fn)) {
			continue
		}
		for _, b := range fn.Blocks {
			for _, in := range b.Instrs {
				ci, ok := in.(ssa.CallInstruction)
				if !ok {
					continue
				}
				c := ci.Common()
				var ctxArg ssa.Value
				what := ""
				if sc := c.StaticCallee(); sc != nil {
					switch sc {
					case m.EVAL, m.evalAst, m.doFn, m.macroexpand, m.apply:
						ctxArg, what = c.Args[0], sc.Name()
					}
					if sc.Name() == "NewFuture" || sc.Name() == "REPL" || sc == w.Fn("lib/call", "_args_ctx") {
						if len(c.Args) > 0 && isContext(c.Args[0].Type()) {
							ctxArg, what = c.Args[0], sc.Name()
						}
					}
					// any other function of the module that takes a context (the helpers of the context-taking
					// builtins: what they evaluate, they evaluate under the context they are given)
					if ctxArg == nil && inModule(sc) && len(sc.Blocks) > 0 {
						for i, p := range sc.Params {
							if isContext(p.Type()) && i < len(c.Args) {
								ctxArg, what = c.Args[i], sc.Name()
								break
							}
						}
					}
				} else if !c.IsInvoke() {
					if sig, ok := c.Value.Type().Underlying().(*types.Signature); ok && (sameParamsResults(sig, extSig) || isEvalSig(sig)) && len(c.Args) > 0 && isContext(c.Args[0].Type()) {
						ctxArg, what = c.Args[0], "function value "+describeVal(e, c.Value, 0)
					}
				}
				if ctxArg == nil {
					continue
				}
				// only functions that have a context of their own can derive one
				nd++
				ctxRoots = nil
				_, ok = ctxDerivation(e, ctxArg, map[ssa.Value]bool{})
				construct := "context passed to " + what
				// a function with a context parameter of its own that hands on one captured from an enclosing
				// function instead: whoever calls it (with a cancellable child, say) has no say over what runs
				var foreign *ssa.Parameter
				ownCtx := false
				for _, p := range fn.Params {
					ownCtx = ownCtx || isContext(p.Type())
				}
				if ok && ownCtx {
					for _, root := range ctxRoots {
						for p := fn.Parent(); p != nil; p = p.Parent() {
							if root.Parent() == p {
								foreign = root
							}
						}
					}
				}
				switch {
				case foreign != nil:
					r.bad(rule, fn, construct, in.Pos(), "the function is given a context of its own but hands on the context "+foreign.Name()+" captured from "+w.fnName(foreign.Parent())+": cancelling the context it is called with (a future's body context, a try's time share) does not reach this evaluation")
				case ok:
					r.ok(rule, fn, construct, in.Pos(), "the function's own context or a context.With* child of it")
				case fnPkgPath(fn) == modPath+"/reader":
					r.add(rule, fn, construct, in.Pos(), "exempt", "Go constructors «…» build data at read time; no lisp code runs under this context")
				case hasNoCtxParam(fn) && fn.Parent() == nil && !registered[fn] && evalReach()[fn]:
					r.bad(rule, fn, construct, in.Pos(), "a function the evaluator or a builtin can reach has no context of its own and makes one up ("+describeVal(e, ctxArg, 0)+"): what it calls - a context-taking builtin, and the lisp functions that builtin applies - runs outside the caller's deadline and cancellation")
				case hasNoCtxParam(fn) && fn.Parent() == nil && !registered[fn]:
					r.add(rule, fn, construct, in.Pos(), "exempt", "library loader without a context of its own (runs the embedded header once at load time)")
				case hasNoCtxParam(fn):
					r.bad(rule, fn, construct, in.Pos(), "a function value that programs can call (a registered builtin or a closure) evaluates under a context that is not the caller's: it takes no context parameter, so deadlines and cancellation do not reach what it evaluates")
				default:
					r.bad(rule, fn, construct, in.Pos(), "the context handed on is not derived from the caller's context: cancelling the caller does not reach this evaluation")
				}
			}
		}
	}
	return nd
}

// readerEnvRule: the reader calls the constructor functions it finds in the environment it is given under a
// context of its own (it has none to pass on); that is only data construction as long as the environment is
// the host's. No builtin hands the reader the environment programs define names in.
func readerEnvRule(w *World, r *Report, rule string) {
	r.rule(rule, "no function of the library packages (the builtins) passes an environment to reader.Read_str: the reader applies the constructors it looks up there under context.Background(), so with the program's own environment any lisp or context-taking function could be run beyond the reach of the caller's deadline (the exemption of the reader in C07.derive rests on this)")
	rs := w.Fn("reader", "Read_str")
	if rs == nil {
		r.undecided(rule, nil, "reader.Read_str", token.NoPos, "function no longer resolves")
		return
	}
	n := 0
	for _, fn := range w.Funcs {
		if isTestFunc(w, fn) || !strings.HasPrefix(fnPkgPath(fn), modPath+"/lib/") {
			continue
		}
		for _, c := range staticCallsTo(fn, rs) {
			n++
			last := c.Call.Args[len(c.Call.Args)-1]
			r.check(isNilConst(last), rule, fn, "environment handed to the reader by a builtin", c.Pos(), "none", "a builtin reads text with an environment ("+describeVal(nil, last, 0)+"): the «…» constructors named in the text are looked up there and applied under context.Background(), outside the caller's deadline and cancellation")
		}
	}
	r.floor(rule, "calls of Read_str from the builtins", n, 1)
}

// tryShareRule: the body of try gets a fixed fraction of the time that is left, so that something is always
// left for the handler: the duration handed to context.WithTimeout in the try runner is computed from
// time.Until(deadline) by multiplication and division with constants, and by nothing else.
func tryShareRule(w *World, r *Report, e *Engine, rule string) {
	r.rule(rule, "the time share of a try body is a constant fraction (< 1) of time.Until(deadline) on every path: no minimum, no other source, no condition decides whether the share applies (otherwise the body can use up the whole remaining time and the handler - which the property says still gets to run - starts with an expired context)")
	m := newEvalModel(w, e)
	if !m.ok {
		r.undecided(rule, nil, "evaluator model", token.NoPos, m.why)
		return
	}
	var isShare func(v ssa.Value, depth int) (bool, float64)
	isShare = func(v ssa.Value, depth int) (bool, float64) {
		if depth > 6 {
			return false, 0
		}
		switch x := v.(type) {
		case *ssa.Call:
			if sc := x.Call.StaticCallee(); sc != nil && sc.Name() == "Until" && sc.Object() != nil && sc.Object().Pkg() != nil && sc.Object().Pkg().Path() == "time" {
				return true, 1
			}
		case *ssa.BinOp:
			k, isK := x.Y.(*ssa.Const)
			if !isK || k.Value == nil || k.Value.Kind() != constant.Int || k.Int64() <= 0 {
				return false, 0
			}
			ok, f := isShare(x.X, depth+1)
			if !ok {
				return false, 0
			}
			switch x.Op {
			case token.MUL:
				return true, f * float64(k.Int64())
			case token.QUO:
				return true, f / float64(k.Int64())
			}
		case *ssa.ChangeType:
			return isShare(x.X, depth+1)
		case *ssa.Convert:
			return isShare(x.X, depth+1)
		}
		return false, 0
	}
	n := 0
	for _, b := range m.regionBlocks("try") {
		_ = b
	}
	seen := map[*ssa.Function]bool{}
	var fns []*ssa.Function
	for _, b := range m.regionBlocks("try") {
		for _, in := range b.Instrs {
			if mc, ok := in.(*ssa.MakeClosure); ok {
				fns = append(fns, mc.Fn.(*ssa.Function))
			}
		}
		fns = append(fns, b.Parent())
	}
	// helpers of the module that make the body's context
	ctxMaker := func(f *ssa.Function) bool {
		if f == nil || !inModule(f) || len(f.Blocks) == 0 || f.Signature.Results().Len() == 0 {
			return false
		}
		return isContext(f.Signature.Results().At(0).Type())
	}
	for i := 0; i < len(fns); i++ {
		for _, b := range fns[i].Blocks {
			if fns[i] == m.EVAL && !m.regions["try"][b] {
				continue
			}
			for _, in := range b.Instrs {
				if c, ok := in.(*ssa.Call); ok && ctxMaker(c.Call.StaticCallee()) && len(fns) < 20 {
					fns = append(fns, c.Call.StaticCallee())
				}
			}
		}
	}
	for _, fn := range fns {
		if seen[fn] {
			continue
		}
		seen[fn] = true
		for _, b := range fn.Blocks {
			if fn == m.EVAL && !m.regions["try"][b] {
				continue
			}
			for _, in := range b.Instrs {
				c, ok := in.(*ssa.Call)
				if !ok || c.Call.StaticCallee() == nil || c.Call.StaticCallee().Name() != "WithTimeout" || len(c.Call.Args) != 2 {
					continue
				}
				n++
				ok2, f := isShare(c.Call.Args[1], 0)
				r.check(ok2 && f < 1, rule, fn, "time share of the try body", c.Pos(), fmt.Sprintf("%.2f of the remaining time", f), "the body's timeout is not a constant fraction below 1 of time.Until(deadline) ("+describeVal(e, c.Call.Args[1], 0)+"): with little time left the body may run to the very deadline, and the handler that the timeout raised inside try should reach cannot run")
				// the share applies whenever there is a deadline: the only conditions above it test Deadline()'s ok
				for _, a := range knownConds(b) {
					okCond := false
					if ex, ok := a.v.(*ssa.Extract); ok && ex.Index == 1 {
						if dc, ok := ex.Tuple.(*ssa.Call); ok && dc.Call.IsInvoke() && dc.Call.Method.Name() == "Deadline" {
							okCond = true
						}
					}
					if fn == m.EVAL {
						okCond = true // dispatch and clause tests of the region
					}
					r.check(okCond, rule, fn, "condition on applying the share", c.Pos(), "only: the context has a deadline", "whether the body's share applies also depends on "+describeVal(e, a.v, 0)+": on the other path the body may use all the time there is")
				}
			}
		}
	}
	// where the caller has a deadline the body's context has one too - the end of its share: a try nested in
	// the body computes its own share from Deadline(), so a share enforced by a timer alone (WithCancel plus
	// AfterFunc) lets the inner body outlive the outer one, and the inner handler starts on a dead context
	nb := 0
	for _, fn := range fns {
		if fn == m.EVAL {
			continue
		}
		for _, b := range fn.Blocks {
			hasDeadline := false
			for _, a := range knownConds(b) {
				if ex, ok := a.v.(*ssa.Extract); ok && ex.Index == 1 && a.pol {
					if dc, ok := ex.Tuple.(*ssa.Call); ok && dc.Call.IsInvoke() && dc.Call.Method.Name() == "Deadline" {
						hasDeadline = true
					}
				}
			}
			for _, in := range b.Instrs {
				c, ok := in.(*ssa.Call)
				if !ok {
					continue
				}
				sc := c.Call.StaticCallee()
				if sc == nil || (sc != m.doFn && sc != m.EVAL && sc != m.evalAst) || len(c.Call.Args) == 0 {
					continue
				}
				// the context.With* calls (or context-making helpers of the module) the argument comes from,
				// through merges and through variables kept in cells
				var makers []string
				seenV := map[ssa.Value]bool{}
				var trace func(v ssa.Value, depth int)
				trace = func(v ssa.Value, depth int) {
					if seenV[v] || depth > 6 {
						return
					}
					seenV[v] = true
					switch x := v.(type) {
					case *ssa.Phi:
						for _, ed := range x.Edges {
							trace(ed, depth+1)
						}
					case *ssa.UnOp:
						if cell := cellOf(x.X); cell != nil && x.Op == token.MUL {
							for _, st := range e.storesTo(cell) {
								trace(st.Val, depth+1)
							}
						}
					case *ssa.Extract:
						mk, ok := x.Tuple.(*ssa.Call)
						if !ok || x.Index != 0 || mk.Call.StaticCallee() == nil {
							return
						}
						if fnPkgPath(mk.Call.StaticCallee()) == "context" {
							makers = append(makers, mk.Call.StaticCallee().Name())
						} else if ctxMaker(mk.Call.StaticCallee()) {
							// a helper of the module: the context it hands back is made with a deadline
							found := "a helper that makes no deadline"
							for _, hb := range mk.Call.StaticCallee().Blocks {
								for _, hin := range hb.Instrs {
									if hc, ok := hin.(*ssa.Call); ok && hc.Call.StaticCallee() != nil && fnPkgPath(hc.Call.StaticCallee()) == "context" && (hc.Call.StaticCallee().Name() == "WithTimeout" || hc.Call.StaticCallee().Name() == "WithDeadline") {
										found = hc.Call.StaticCallee().Name()
									}
								}
							}
							makers = append(makers, found)
						}
					}
				}
				trace(c.Call.Args[0], 0)
				if len(makers) == 0 && !hasDeadline {
					continue // the path without a deadline: the caller's context as it is
				}
				nb++
				okMk := len(makers) > 0
				for _, mk := range makers {
					okMk = okMk && (mk == "WithTimeout" || mk == "WithDeadline")
				}
				r.check(okMk, rule, fn, "context of the try body when the caller has a deadline", c.Pos(), fmt.Sprintf("made by context.%v: its Deadline() is the end of the share", makers), "the body runs under "+describeVal(e, c.Call.Args[0], 0)+", whose Deadline() is not the end of the body's share: a try form inside the body takes its share of the caller's whole remaining time, outlives the enclosing body, and its handler and finally start under a context that is already cancelled")
			}
		}
	}
	r.floor(rule, "evaluations of a try body under a deadline", nb, 1)
	r.floor(rule, "time shares given to try bodies", n, 1)
}
