package main

type Registration struct{}
type LispFile struct{}
