package main

func progressRule(w *World, r *Report, e *Engine) {}

type Registration struct{}
type LispFile struct{}
