package main

// Possible-dynamic-types analysis: the set of concrete types (or nil) an
// interface value can hold, computed from how the value is produced. Used to
// discharge assertions on values that only ever hold one type: parameters of
// unexported functions (all call sites agree) and local cells (all stores agree).

import (
	"go/token"
	"go/types"
	"strings"

	"golang.org/x/tools/go/ssa"
)

type typeSet struct {
	unknown bool
	hasNil  bool
	ts      []types.Type
}

func (s *typeSet) addType(t types.Type) {
	for _, u := range s.ts {
		if types.Identical(u, t) {
			return
		}
	}
	s.ts = append(s.ts, t)
}
func (s *typeSet) merge(o typeSet) {
	s.unknown = s.unknown || o.unknown
	s.hasNil = s.hasNil || o.hasNil
	for _, t := range o.ts {
		s.addType(t)
	}
}
func (s typeSet) String() string {
	if s.unknown {
		return "unknown"
	}
	var out []string
	if s.hasNil {
		out = append(out, "nil")
	}
	for _, t := range s.ts {
		out = append(out, shortType(t))
	}
	return "{" + strings.Join(out, ",") + "}"
}

func (e *Engine) typeSetOf(v ssa.Value, at *ssa.BasicBlock, seen map[ssa.Value]bool, depth int) typeSet {
	var s typeSet
	if depth > 10 || seen[v] {
		if seen[v] {
			return s // cycle through phi: contributes nothing new
		}
		s.unknown = true
		return s
	}
	seen[v] = true
	defer delete(seen, v)
	// a dominating type fact pins the type
	if at != nil {
		k := e.keyOf(v).String()
		for _, f := range e.holding(at).list() {
			if f.Kind == "type" && f.K.String() == k && !types.IsInterface(f.T) {
				s.addType(f.T)
				return s
			}
		}
	}
	switch x := v.(type) {
	case *ssa.Const:
		if x.Value == nil {
			s.hasNil = true
			return s
		}
	case *ssa.MakeInterface:
		s.addType(x.X.Type())
		return s
	case *ssa.ChangeInterface:
		return e.typeSetOf(x.X, at, seen, depth+1)
	case *ssa.ChangeType:
		return e.typeSetOf(x.X, at, seen, depth+1)
	case *ssa.Phi:
		for i, op := range x.Edges {
			_ = i
			s.merge(e.typeSetOf(op, nil, seen, depth+1))
		}
		return s
	case *ssa.UnOp:
		if x.Op == token.MUL {
			// field of a struct local that is only assigned as a whole or field by field
			if fa, ok := x.X.(*ssa.FieldAddr); ok {
				if al, ok := fa.X.(*ssa.Alloc); ok {
					okAll, n := true, 0
					for _, ref := range *al.Referrers() {
						switch u := ref.(type) {
						case *ssa.FieldAddr:
							for _, uu := range *u.Referrers() {
								if st, ok := uu.(*ssa.Store); ok && st.Addr == ssa.Value(u) {
									if u.Field == fa.Field {
										n++
										s.merge(e.typeSetOf(st.Val, nil, seen, depth+1))
									}
								} else if _, isLoad := uu.(*ssa.UnOp); !isLoad {
									okAll = false
								}
							}
						case *ssa.Store:
							if u.Addr != ssa.Value(al) {
								okAll = false
								break
							}
							n++
							ts, ok := e.structFieldTypes(u.Val, fa.Field, seen, depth+1)
							if !ok {
								okAll = false
							}
							s.merge(ts)
						case *ssa.UnOp:
						default:
							okAll = false
						}
					}
					if okAll && n > 0 {
						return s
					}
					s = typeSet{}
				}
			}
			if cell := cellOf(x.X); cell != nil {
				stores := e.storesTo(cell)
				if stores == nil {
					s.unknown = true
					return s
				}
				s.hasNil = true // zero value before the first store
				for _, st := range stores {
					s.merge(e.typeSetOf(st.Val, nil, seen, depth+1))
				}
				return s
			}
		}
	case *ssa.Extract:
		if c, ok := x.Tuple.(*ssa.Call); ok && !isErrorType(x.Type()) {
			if ts, ok := e.callResultTypesAt(c, x.Index, at, seen, depth); ok {
				return ts
			}
		}
	case *ssa.Call:
		if ts, ok := e.callResultTypes(x, at, seen, depth); ok {
			return ts
		}
	case *ssa.Field:
		if ts, ok := e.structFieldTypes(x.X, x.Field, seen, depth+1); ok {
			return ts
		}
	case *ssa.Parameter:
		fn := x.Parent()
		if fn.Object() != nil && fn.Object().Exported() || fn.Parent() != nil {
			break
		}
		idx := -1
		for i, p := range fn.Params {
			if p == x {
				idx = i
			}
		}
		sites := e.callSites(fn)
		if idx < 0 || sites == nil {
			break
		}
		for _, c := range sites {
			args := c.Common().Args
			if idx >= len(args) {
				s.unknown = true
				return s
			}
			s.merge(e.typeSetOf(args[idx], c.Block(), seen, depth+1))
		}
		return s
	}
	s.unknown = true
	return s
}

// cellOf resolves an address to the local cell (Alloc) it denotes, looking through captured variables.
func cellOf(addr ssa.Value) *ssa.Alloc {
	switch a := addr.(type) {
	case *ssa.Alloc:
		return a
	case *ssa.FreeVar:
		fn := a.Parent()
		idx := -1
		for i, fv := range fn.FreeVars {
			if fv == a {
				idx = i
			}
		}
		parent := fn.Parent()
		if parent == nil || idx < 0 {
			return nil
		}
		// find the MakeClosure in the parent (unique for a function literal)
		for _, b := range parent.Blocks {
			for _, in := range b.Instrs {
				if mc, ok := in.(*ssa.MakeClosure); ok && mc.Fn == ssa.Value(fn) {
					return cellOf(mc.Bindings[idx])
				}
			}
		}
	}
	return nil
}

// storesTo lists every store to a local cell, in its function and in nested closures.
// nil when the cell's address escapes other than by capture.
func (e *Engine) storesTo(cell *ssa.Alloc) []*ssa.Store {
	var out []*ssa.Store
	var visit func(fn *ssa.Function)
	visit = func(fn *ssa.Function) {
		for _, b := range fn.Blocks {
			for _, in := range b.Instrs {
				if st, ok := in.(*ssa.Store); ok && cellOf(st.Addr) == cell {
					out = append(out, st)
				}
			}
		}
		for _, an := range fn.AnonFuncs {
			visit(an)
		}
	}
	for _, ref := range *cell.Referrers() {
		switch r := ref.(type) {
		case *ssa.Store:
			if r.Val == ssa.Value(cell) {
				return nil // address stored somewhere
			}
		case *ssa.UnOp, *ssa.MakeClosure, *ssa.DebugRef:
		case ssa.CallInstruction:
			_ = r
			return nil // address passed to a call
		default:
			return nil
		}
	}
	visit(cell.Parent())
	return out
}

// callSites of an unexported package-level function whose address is never taken; nil otherwise.
func (e *Engine) callSites(fn *ssa.Function) []ssa.CallInstruction {
	if e.sites == nil {
		e.sites = map[*ssa.Function][]ssa.CallInstruction{}
		e.escaped = map[*ssa.Function]bool{}
		for _, f := range e.w.Funcs {
			for _, b := range f.Blocks {
				for _, in := range b.Instrs {
					var callVal ssa.Value
					if ci, ok := in.(ssa.CallInstruction); ok {
						callVal = ci.Common().Value
						if sc := ci.Common().StaticCallee(); sc != nil {
							e.sites[sc] = append(e.sites[sc], ci)
						}
					}
					for _, op := range in.Operands(nil) {
						if g, ok := (*op).(*ssa.Function); ok && *op != callVal {
							e.escaped[g] = true
						}
					}
				}
			}
		}
	}
	if e.escaped[fn] {
		return nil
	}
	return e.sites[fn]
}

// callResultTypes: possible dynamic types of result 0 of a call to a module
// function, pruning the callee's returns that (a) contradict what is known about
// the arguments at the call site, or (b) return a non-nil error when the caller
// is known (at block `at`) to have seen a nil error.
func (e *Engine) callResultTypes(c *ssa.Call, at *ssa.BasicBlock, seen map[ssa.Value]bool, depth int) (typeSet, bool) {
	return e.callResultTypesAt(c, 0, at, seen, depth)
}

// callResultTypesAt: the possible dynamic types of result number idx of a call of a module function.
func (e *Engine) callResultTypesAt(c *ssa.Call, idx int, at *ssa.BasicBlock, seen map[ssa.Value]bool, depth int) (typeSet, bool) {
	var s typeSet
	callee := c.Call.StaticCallee()
	if callee == nil || callee.Blocks == nil || !strings.HasPrefix(fnPkgPath(callee), modPath) || depth > 4 {
		return s, false
	}
	res := callee.Signature.Results()
	errIdx := -1
	if res.Len() >= 2 && types.Identical(res.At(res.Len()-1).Type(), types.Universe.Lookup("error").Type()) {
		errIdx = res.Len() - 1
	}
	knownNoErr := false
	if errIdx >= 0 && at != nil {
		for _, ref := range *c.Referrers() {
			if ex, ok := ref.(*ssa.Extract); ok && ex.Index == errIdx {
				k := e.keyOf(ex).String()
				for _, f := range e.holding(at).list() {
					if f.Kind == "nil" && f.K.String() == k {
						knownNoErr = true
					}
				}
				// the error may have been copied into a local cell (named results): look at loads too
			}
		}
	}
	known := factSet{}
	known.add(e.holding(c.Block()).list()...)
	for _, arg := range c.Call.Args {
		if mi, ok := stripIface(arg).(*ssa.MakeInterface); ok {
			known.add(Fact{Kind: "type", K: e.keyOf(arg), T: mi.X.Type()})
		}
	}
	for _, b := range callee.Blocks {
		if len(b.Instrs) == 0 {
			continue
		}
		ret, ok := b.Instrs[len(b.Instrs)-1].(*ssa.Return)
		if !ok || len(ret.Results) == 0 {
			continue
		}
		hold := e.holding(b)
		contradicted := false
		for _, f := range hold.list() {
			if !e.paramRooted(f, callee) {
				continue
			}
			if g, ok := e.substFact(f, callee, c.Call.Args); ok && e.contradicts(g, known) {
				contradicted = true
				break
			}
		}
		if contradicted {
			continue
		}
		if knownNoErr && errIdx < len(ret.Results) {
			ev := ret.Results[errIdx]
			definitelyErr := false
			switch ev.(type) {
			case *ssa.MakeInterface:
				definitelyErr = true
			}
			if !definitelyErr && !isNilConst(ev) && e.nonNilFact(ev, b) {
				definitelyErr = true
			}
			if !definitelyErr {
				if call, ok := ev.(*ssa.Call); ok {
					if sc := call.Call.StaticCallee(); sc != nil && sc.Pkg != nil && (sc.Pkg.Pkg.Path() == "errors" || sc.Pkg.Pkg.Path() == "fmt") {
						definitelyErr = true
					} else if e.alwaysErr(sc, 0) {
						definitelyErr = true
					}
				}
			}
			if definitelyErr {
				continue
			}
		}
		if idx >= len(ret.Results) {
			return s, false
		}
		s.merge(e.typeSetOf(ret.Results[idx], b, seen, depth+1))
	}
	return s, true
}

// structFieldTypes: the possible dynamic types of field number field of the struct value sv, when sv is a struct
// literal of this activation or the (first) result of a module function that returns struct literals: the
// types stored into that field of each literal (nil where a literal leaves the field out).
func (e *Engine) structFieldTypes(sv ssa.Value, field int, seen map[ssa.Value]bool, depth int) (typeSet, bool) {
	var s typeSet
	if depth > 6 {
		return s, false
	}
	fromLiteral := func(v ssa.Value) bool {
		switch y := v.(type) {
		case *ssa.Const:
			s.hasNil = true // zero value of the struct
			return true
		case *ssa.UnOp:
			al, ok := y.X.(*ssa.Alloc)
			if !ok || y.Op != token.MUL {
				return false
			}
			n := 0
			for _, ref := range *al.Referrers() {
				switch u := ref.(type) {
				case *ssa.FieldAddr:
					if u.Field != field {
						continue
					}
					for _, uu := range *u.Referrers() {
						if st, ok := uu.(*ssa.Store); ok && st.Addr == ssa.Value(u) {
							n++
							s.merge(e.typeSetOf(st.Val, nil, seen, depth+1))
						} else if _, isLoad := uu.(*ssa.UnOp); !isLoad {
							return false
						}
					}
				case *ssa.UnOp:
				case *ssa.Store:
					if u.Addr == ssa.Value(al) {
						return false // whole-struct assignment: not followed
					}
				default:
					return false
				}
			}
			if n == 0 {
				s.hasNil = true
			}
			return true
		}
		return false
	}
	var call *ssa.Call
	switch y := sv.(type) {
	case *ssa.Extract:
		if c, ok := y.Tuple.(*ssa.Call); ok && y.Index == 0 {
			call = c
		}
	case *ssa.Call:
		call = y
	default:
		return s, fromLiteral(sv)
	}
	if call == nil {
		return s, false
	}
	callee := call.Call.StaticCallee()
	if callee == nil || callee.Blocks == nil || !strings.HasPrefix(fnPkgPath(callee), modPath) {
		return s, false
	}
	for _, b := range callee.Blocks {
		if len(b.Instrs) == 0 || b == callee.Recover {
			continue
		}
		ret, ok := b.Instrs[len(b.Instrs)-1].(*ssa.Return)
		if !ok || len(ret.Results) == 0 {
			continue
		}
		if !fromLiteral(ret.Results[0]) {
			return s, false
		}
	}
	return s, true
}

// producers: the values a local value stands for, looking through local cells (all stores), phis, struct locals
// assigned as a whole or field by field, and fields of struct literals returned by module functions.
func (e *Engine) producers(v ssa.Value, seen map[ssa.Value]bool, depth int) []ssa.Value {
	if seen[v] || depth > 10 {
		return nil
	}
	seen[v] = true
	var out []ssa.Value
	fieldOf := func(sv ssa.Value, field int) ([]ssa.Value, bool) {
		var res []ssa.Value
		var fromLit func(x ssa.Value) bool
		busy := map[*ssa.Alloc]bool{}
		fromLit = func(x ssa.Value) bool {
			switch y := x.(type) {
			case *ssa.Const:
				res = append(res, ssa.NewConst(nil, types.Typ[types.UntypedNil]))
				return true
			case *ssa.UnOp:
				al, ok := y.X.(*ssa.Alloc)
				if !ok || y.Op != token.MUL {
					return false
				}
				if busy[al] {
					return true // the local assigned from itself adds nothing
				}
				busy[al] = true
				n := 0
				for _, ref := range *al.Referrers() {
					switch u := ref.(type) {
					case *ssa.FieldAddr:
						if u.Field != field {
							continue
						}
						for _, uu := range *u.Referrers() {
							if st, ok := uu.(*ssa.Store); ok && st.Addr == ssa.Value(u) {
								n++
								res = append(res, e.producers(st.Val, seen, depth+1)...)
							}
						}
					case *ssa.Store:
						if u.Addr == ssa.Value(al) {
							n++
							if !fromLitOrCall(e, u.Val, field, seen, depth, &res, fromLit) {
								return false
							}
						}
					}
				}
				if n == 0 {
					res = append(res, ssa.NewConst(nil, types.Typ[types.UntypedNil]))
				}
				return true
			}
			return false
		}
		ok := fromLitOrCall(e, sv, field, seen, depth, &res, fromLit)
		return res, ok
	}
	switch x := v.(type) {
	case *ssa.Phi:
		for _, op := range x.Edges {
			out = append(out, e.producers(op, seen, depth+1)...)
		}
		return out
	case *ssa.Parameter:
		// the parameter of an unexported function that is only ever called: what its call sites hand over
		fn := x.Parent()
		if e.followParams && fn != nil && fn.Object() != nil && !fn.Object().Exported() && fn.Parent() == nil && inModule(fn) && !e.escapedFn(fn) {
			idx := -1
			for i, p := range fn.Params {
				if p == x {
					idx = i
				}
			}
			sites := e.callSites(fn)
			if idx >= 0 && len(sites) > 0 {
				okAll := true
				for _, site := range sites {
					if site.Parent() != nil && isTestFunc(e.w, site.Parent()) {
						continue
					}
					if idx >= len(site.Common().Args) {
						okAll = false
						break
					}
					out = append(out, e.producers(site.Common().Args[idx], seen, depth+1)...)
				}
				if okAll && len(out) > 0 {
					return out
				}
				out = nil
			}
		}
	case *ssa.Field:
		if res, ok := fieldOf(x.X, x.Field); ok {
			return res
		}
	case *ssa.UnOp:
		if x.Op == token.MUL {
			if fa, ok := x.X.(*ssa.FieldAddr); ok {
				if al, ok := fa.X.(*ssa.Alloc); ok {
					ld := &ssa.UnOp{Op: token.MUL, X: al}
					if res, ok := fieldOf(ld, fa.Field); ok {
						return res
					}
				}
			}
			if cell := cellOf(x.X); cell != nil {
				stores := e.storesTo(cell)
				if len(stores) > 0 {
					for _, st := range stores {
						// a store of the same function that cannot reach this load contributes nothing
						if st.Parent() == x.Parent() && st.Block() != x.Block() && !blockReaches(st.Block(), x.Block(), false) {
							continue
						}
						if st.Parent() == x.Parent() && st.Block() == x.Block() && !x.Block().Dominates(x.Block()) {
							after := false
							for _, in := range x.Block().Instrs {
								if in == ssa.Instruction(x) {
									break
								}
								if in == ssa.Instruction(st) {
									after = true
								}
							}
							if !after && !blockReaches(x.Block(), x.Block(), false) {
								continue // stored later in the same straight-line block
							}
						}
						out = append(out, e.producers(st.Val, seen, depth+1)...)
					}
					if len(out) > 0 {
						return out
					}
				}
			}
		}
	case *ssa.Extract:
		// one of several results of an unexported function of the module: what that function returns there
		if c, ok := x.Tuple.(*ssa.Call); ok {
			if callee := c.Call.StaticCallee(); callee != nil && len(callee.Blocks) > 0 && inModule(callee) && callee.Parent() == nil && callee.Object() != nil && !callee.Object().Exported() {
				n := 0
				for _, b := range callee.Blocks {
					if len(b.Instrs) == 0 || b == callee.Recover {
						continue
					}
					ret, ok := b.Instrs[len(b.Instrs)-1].(*ssa.Return)
					if !ok || x.Index >= len(ret.Results) {
						continue
					}
					n++
					out = append(out, e.producers(resolveRet(ret.Results[x.Index]), seen, depth+1)...)
				}
				if n > 0 {
					return out
				}
			}
		}
	}
	return []ssa.Value{v}
}

func fromLitOrCall(e *Engine, sv ssa.Value, field int, seen map[ssa.Value]bool, depth int, res *[]ssa.Value, fromLit func(ssa.Value) bool) bool {
	var call *ssa.Call
	switch y := sv.(type) {
	case *ssa.Extract:
		if c, ok := y.Tuple.(*ssa.Call); ok && y.Index == 0 {
			call = c
		}
	case *ssa.Call:
		call = y
	default:
		return fromLit(sv)
	}
	if call == nil {
		return false
	}
	callee := call.Call.StaticCallee()
	if callee == nil || callee.Blocks == nil || !strings.HasPrefix(fnPkgPath(callee), modPath) {
		return false
	}
	for _, b := range callee.Blocks {
		if len(b.Instrs) == 0 || b == callee.Recover {
			continue
		}
		ret, ok := b.Instrs[len(b.Instrs)-1].(*ssa.Return)
		if !ok || len(ret.Results) == 0 {
			continue
		}
		if !fromLit(ret.Results[0]) {
			return false
		}
	}
	return true
}

// escapedFn: the function is used as a value somewhere (not only called), so its call sites are not all known.
func (e *Engine) escapedFn(fn *ssa.Function) bool {
	e.callSites(fn)
	return e.escaped[fn]
}

// alwaysErr: fn is a function of the module with one result, an error, that is never nil: every return hands
// back a boxed concrete value, a new error of errors/fmt, or the result of another such function.
func (e *Engine) alwaysErr(fn *ssa.Function, depth int) bool {
	if fn == nil || depth > 4 || len(fn.Blocks) == 0 || !inModule(fn) || fn.Signature.Results().Len() != 1 || !isErrorType(fn.Signature.Results().At(0).Type()) {
		return false
	}
	n := 0
	for _, b := range fn.Blocks {
		if len(b.Instrs) == 0 || b == fn.Recover {
			continue
		}
		ret, ok := b.Instrs[len(b.Instrs)-1].(*ssa.Return)
		if !ok || len(ret.Results) != 1 {
			continue
		}
		n++
		switch ev := ret.Results[0].(type) {
		case *ssa.MakeInterface:
			if _, isPtr := ev.X.Type().Underlying().(*types.Pointer); isPtr {
				if _, isAlloc := ev.X.(*ssa.Alloc); !isAlloc {
					return false
				}
			}
		case *ssa.Call:
			sc := ev.Call.StaticCallee()
			if sc == nil {
				return false
			}
			if sc.Pkg != nil && (sc.Pkg.Pkg.Path() == "errors" || sc.Pkg.Pkg.Path() == "fmt") {
				continue
			}
			if !e.alwaysErr(sc, depth+1) {
				return false
			}
		default:
			if !e.nonNilFact(ev, b) {
				return false
			}
		}
	}
	return n > 0
}
