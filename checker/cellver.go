package main

// Versions of a local cell. A variable that a closure captures (or whose address is taken) is not lifted
// to SSA registers by go/ssa: every use is a load of its cell and every assignment a store. So that facts
// established on one load (a type test, a length test) carry over to the later loads that read the same
// value, each load is given a version: the store that reaches it on every path, or - where paths with
// different last stores meet - the merge point. Two loads with the same version, one of which dominates
// the other, read the same value. (This is the SSA construction go/ssa skipped, restricted to what the
// fact engine needs; calls are treated as writes when a closure that captured the cell assigns it or the
// cell's address escapes.)

import (
	"go/token"

	"golang.org/x/tools/go/ssa"
)

type cellVersions struct {
	ver      map[*ssa.UnOp]int   // version read by each load of the cell in its own function
	storeOf  map[int]*ssa.Store  // versions that are a store
	loads    map[int][]*ssa.UnOp // loads by version
	volatile bool
}

// cellVolatile: something other than the function's own stores can change the cell: a closure that captured
// it assigns it, or its address is handed to somebody.
func cellVolatile(a *ssa.Alloc) bool {
	var viaFree func(fv *ssa.FreeVar, depth int) bool
	viaFree = func(fv *ssa.FreeVar, depth int) bool {
		if depth > 4 || fv.Referrers() == nil {
			return true
		}
		for _, ref := range *fv.Referrers() {
			switch u := ref.(type) {
			case *ssa.UnOp, *ssa.DebugRef:
			case *ssa.Store:
				if u.Addr == ssa.Value(fv) {
					return true
				}
				if u.Val == ssa.Value(fv) {
					return true
				}
			case *ssa.MakeClosure:
				cf := u.Fn.(*ssa.Function)
				for i, b := range u.Bindings {
					if b == ssa.Value(fv) && viaFree(cf.FreeVars[i], depth+1) {
						return true
					}
				}
			default:
				return true
			}
		}
		return false
	}
	for _, ref := range *a.Referrers() {
		switch u := ref.(type) {
		case *ssa.UnOp, *ssa.DebugRef:
		case *ssa.Store:
			if u.Val == ssa.Value(a) {
				return true // the address itself is stored somewhere
			}
		case *ssa.MakeClosure:
			cf := u.Fn.(*ssa.Function)
			for i, b := range u.Bindings {
				if b == ssa.Value(a) && viaFree(cf.FreeVars[i], 0) {
					return true
				}
			}
		default:
			return true
		}
	}
	return false
}

func (e *Engine) versionsOf(a *ssa.Alloc) *cellVersions {
	if e.cellVers == nil {
		e.cellVers = map[*ssa.Alloc]*cellVersions{}
	}
	if cv, ok := e.cellVers[a]; ok {
		return cv
	}
	cv := &cellVersions{ver: map[*ssa.UnOp]int{}, storeOf: map[int]*ssa.Store{}, loads: map[int][]*ssa.UnOp{}, volatile: cellVolatile(a)}
	e.cellVers[a] = cv
	fn := a.Parent()
	if fn == nil || len(fn.Blocks) == 0 {
		return cv
	}
	ids := map[ssa.Instruction]int{}
	next := len(fn.Blocks) + 1
	idOf := func(in ssa.Instruction) int {
		if id, ok := ids[in]; ok {
			return id
		}
		next++
		ids[in] = next
		return next
	}
	const unvisited = -1
	in := make([]int, len(fn.Blocks))
	out := make([]int, len(fn.Blocks))
	for i := range in {
		in[i], out[i] = unvisited, unvisited
	}
	transfer := func(b *ssa.BasicBlock, v int, record bool) int {
		for _, ins := range b.Instrs {
			switch x := ins.(type) {
			case *ssa.Store:
				if x.Addr == ssa.Value(a) {
					v = idOf(ins)
					if record {
						cv.storeOf[v] = x
					}
				}
			case *ssa.UnOp:
				if x.Op == token.MUL && x.X == ssa.Value(a) && record {
					cv.ver[x] = v
					cv.loads[v] = append(cv.loads[v], x)
				}
			case *ssa.Call, *ssa.Defer, *ssa.Go, *ssa.RunDefers:
				if cv.volatile {
					v = idOf(ins)
				}
			}
		}
		return v
	}
	for changed, rounds := true, 0; changed && rounds < 50; rounds++ {
		changed = false
		for _, b := range fn.Blocks {
			v := unvisited
			if b.Index == 0 {
				v = 0
			} else {
				first := true
				for _, p := range b.Preds {
					pv := out[p.Index]
					if pv == unvisited {
						continue
					}
					if first {
						v, first = pv, false
					} else if pv != v {
						v = b.Index + 1 // the merge point is the version
						break
					}
				}
			}
			if v == unvisited {
				continue
			}
			if in[b.Index] != v {
				in[b.Index] = v
				changed = true
			}
			if o := transfer(b, v, false); out[b.Index] != o {
				out[b.Index] = o
				changed = true
			}
		}
	}
	for _, b := range fn.Blocks {
		if in[b.Index] != unvisited {
			transfer(b, in[b.Index], true)
		}
	}
	return cv
}

// cellValue: for a load of a local cell assigned more than once: the value the load reads when one store
// reaches it on every path (val), else the earliest load that reads the same version and dominates this one
// (rep; the load itself when there is none).
func (e *Engine) cellValue(ld *ssa.UnOp, a *ssa.Alloc) (val ssa.Value, rep *ssa.UnOp) {
	cv := e.versionsOf(a)
	v, ok := cv.ver[ld]
	if !ok {
		return nil, ld
	}
	if st, ok := cv.storeOf[v]; ok {
		return st.Val, ld
	}
	rep = ld
	for _, other := range cv.loads[v] {
		if other == ld {
			continue
		}
		dom := false
		if other.Block() == ld.Block() {
			for _, ins := range ld.Block().Instrs {
				if ins == ssa.Instruction(other) {
					dom = true
					break
				}
				if ins == ssa.Instruction(ld) {
					break
				}
			}
		} else {
			dom = other.Block().Dominates(ld.Block())
		}
		if !dom {
			continue
		}
		// keep the highest one
		if rep == ld || other.Block().Dominates(rep.Block()) && other.Block() != rep.Block() {
			rep = other
		} else if other.Block() == rep.Block() {
			for _, ins := range rep.Block().Instrs {
				if ins == ssa.Instruction(other) {
					rep = other
					break
				}
				if ins == ssa.Instruction(rep) {
					break
				}
			}
		}
	}
	return nil, rep
}
